/-
  C18 — "Metadata queries select tables by the documented scoring order."

  Property text (properties.jsonl):
    lou_findTable returns NULL exactly when lou_findTables returns no table (no positive
    match or a malformed query) and otherwise one of the tables lou_findTables lists; a
    table whose metadata equals the query is always found.  For a queried feature a table
    declaring the same value outranks one lacking the key, which outranks one declaring a
    different value, and unrelated extra fields cost less than either, so a table that
    dominates all others in this order is returned whatever the order in which tables were
    indexed.  lou_getTableInfo returns the value of the first occurrence of the key in the
    file.

  All theorems are about the model `LouModel/Meta.lean` (a transcription of
  liblouis/metadata.c) with the weights of `Gen/MetaConsts.lean` (regenerated from the C
  source by tools/lv/extract_meta.py); they hold for ALL feature lists, queries and index
  orders.  The model is tied to the C code by the differential check tools/lv/props/C18.py.

  FULL STATEMENTS vs. what the code forces
  ----------------------------------------
  * exact_found.  Full statement wanted: "if the table's features are the query's
    features, the table is found".  The code forces: every queried key is declared ONCE
    by the table (`DeclaresSame`: the group of that key is a single feature with the same
    value).  Without it the statement is false:
      - `exact_score_fails_with_two_values`: unicode-range declared as ucs2 AND ucs4,
        queried ucs4: the key contributes 9, not 10;
      - `exact_found_fails_with_many_languages`: a table that lists the queried language
        and 104 others scores -1 and is NOT found (reproduced on the real code with 105
        distinct `#+language:` lines, see tools/lv/props/C18.py `witnesses`).
  * index_order_irrelevant.  Full statement wanted: "a table that dominates all others is
    returned whatever the index order".  The code forces `0 < score`: a dominating table
    with a non-positive quotient is never returned (`dominating_but_not_positive`); then
    NULL is returned for every order (`index_order_irrelevant_none`), consistently with
    the first sentence of the property.
  * tableInfo_first.  Full statement wanted: "the value of the first occurrence of the
    key in the file".  The code forces `NoDupFeatures` (no two features with the same key
    and case-insensitively equal values): `list_sort` keeps the LAST of equal features,
    so with `#+x:a / #+x:b / #+x:a` the answer is `b` (`tableInfo_first_fails_with_dup`,
    also proved on the file bytes: `tableInfo_first_fails_on_bytes`).  This is a genuine
    defect of liblouis w.r.t. the property text (finding C18-F1).
-/
import LouProofs.Lemmas.Meta
import LouProofs.Lemmas.MetaScore

namespace Lou.C18
open Lou Lou.Meta Lou.Gen.MetaConsts

/-! ## 1. lou_findTable vs lou_findTables -/

/-- `lou_findTable` returns NULL exactly when `lou_findTables` returns no table — for every
    query (malformed queries parse to `[]`) and every index -/
theorem findTable_none_iff (q : List Feat) (idx : List Table) :
    findTable q idx = none ↔ findTables q idx = [] := by
  have h0 : FIND_INITIAL_BEST = FINDS_THRESHOLD := by decide
  unfold findTable findTables
  rw [findLoop_none_iff, List.map_eq_nil_iff]
  constructor
  · intro h
    cases hm : findMatches (score q) idx [] with
    | nil => rfl
    | cons m ms =>
      have : m ∈ findMatches (score q) idx [] := by rw [hm]; exact List.mem_cons_self ..
      rcases (mem_findMatches _ _ _ _).1 this with h' | ⟨t, ht, hlt, _⟩
      · cases h'
      · have := h t ht; omega
  · intro h t ht
    by_cases hp : FINDS_THRESHOLD < score q t
    · have : (⟨t.name, score q t⟩ : TableMatch) ∈ findMatches (score q) idx [] :=
        (mem_findMatches _ _ _ _).2 (Or.inr ⟨t, ht, hp, rfl⟩)
      rw [h] at this; cases this
    · omega

/-- both are NULL exactly when no indexed table has a positive match quotient -/
theorem findTable_none_iff_no_positive (q : List Feat) (idx : List Table) :
    findTable q idx = none ↔ ∀ t ∈ idx, score q t ≤ 0 := by
  unfold findTable
  rw [findLoop_none_iff]
  have : FIND_INITIAL_BEST = 0 := by decide
  rw [this]

/-- a malformed query (parseQuery logs an error and returns NULL) matches nothing -/
theorem malformed_query_finds_nothing (idx : List Table) (hidx : ∀ t ∈ idx, t.feats ≠ []) :
    findTable [] idx = none := by
  rw [findTable_none_iff_no_positive]
  intro t ht
  have hne := hidx t ht
  unfold score matchFeatureLists
  cases hf : t.feats with
  | nil => exact absurd hf hne
  | cons f fs =>
    -- the first turn adds EXTRA < 0 and every later turn adds EXTRA again
    have key : ∀ (n : Nat) (l : List Feat), matchLoop strictW n [] l ≤ 0 := by
      intro n
      induction n with
      | zero => intro l; simp [matchLoop]
      | succ n ih =>
        intro l
        cases l with
        | nil => simp [matchLoop]
        | cons a l =>
          rw [matchLoop]
          have := ih (dropRun a.key l)
          have : strictW.extra = -1 := by decide
          omega
    exact key _ _

/-- whatever `lou_findTable` returns is one of the tables `lou_findTables` lists -/
theorem findTable_mem (q : List Feat) (idx : List Table) (n : Str) (h : findTable q idx = some n) :
    n ∈ findTables q idx := by
  unfold findTable at h
  rcases findLoop_result _ _ _ _ _ h with h' | ⟨t, ht, hn, hb⟩
  · cases h'
  · unfold findTables
    rw [List.mem_map]
    refine ⟨⟨t.name, score q t⟩, (mem_findMatches _ _ _ _).2 (Or.inr ⟨t, ht, ?_, rfl⟩), hn⟩
    have : FIND_INITIAL_BEST = FINDS_THRESHOLD := by decide
    omega

/-- `lou_findTables` lists exactly the tables with a positive quotient -/
theorem mem_findTables_iff (q : List Feat) (idx : List Table) (n : Str) :
    n ∈ findTables q idx ↔ ∃ t ∈ idx, t.name = n ∧ 0 < score q t := by
  have h0 : FINDS_THRESHOLD = 0 := by decide
  unfold findTables
  rw [List.mem_map]
  constructor
  · rintro ⟨m, hm, hn⟩
    rcases (mem_findMatches _ _ _ _).1 hm with h | ⟨t, ht, hlt, hmt⟩
    · cases h
    · subst hmt; exact ⟨t, ht, hn, by omega⟩
  · rintro ⟨t, ht, hn, hp⟩
    exact ⟨⟨t.name, score q t⟩, (mem_findMatches _ _ _ _).2 (Or.inr ⟨t, ht, by omega, rfl⟩), hn⟩

/-! ## 2. the weights -/

/-- the order facts the property text states, on the constants extracted from metadata.c:
    same value > key absent > other value; an unrelated field costs less than either; a
    perfect language match counts as a same value; thresholds of the two loops agree -/
theorem weight_order :
    NEG_MATCH < UNDEFINED ∧ UNDEFINED < EXTRA ∧ EXTRA < 0 ∧ 0 < POS_MATCH ∧
    0 < POS_MATCH - UCS2_FOR_UCS4_PENALTY ∧ POS_MATCH - UCS2_FOR_UCS4_PENALTY < POS_MATCH ∧
    LANG_POS_MATCH = POS_MATCH ∧ LANG_EXTRA < 0 ∧ 0 < LANG_POS_MATCH + LANG_EXTRA ∧
    NEG_MATCH_FUZZY < UNDEFINED_FUZZY ∧ UNDEFINED_FUZZY < EXTRA_FUZZY ∧ EXTRA_FUZZY < 0 ∧ 0 < POS_MATCH_FUZZY ∧
    FIND_INITIAL_BEST = 0 ∧ FINDS_THRESHOLD = 0 ∧
    (0 + EXTRA_LANG_ADD).tdiv EXTRA_LANG_DIV = 0 := by decide

/-! ## 3. what one queried key contributes -/

/-- the sorted lists the two parsers return -/
theorem parseQuery_sorted (query : Str) : KeysStrictSorted (parseQuery query).1 := by
  unfold parseQuery
  split
  · exact List.Pairwise.nil
  · exact listSort_cmpKeys_sorted _

theorem analyzeTable_sorted (bytes : List Nat) (activeOnly : Bool) : KeysSorted (analyzeTable bytes activeOnly).1 := by
  unfold analyzeTable
  simp only
  split
  · exact List.Pairwise.nil
  · exact listSort_cmpFeatures_sorted _

/-- **the match quotient is the sum of the per-key contributions plus EXTRA for every
    distinct key of the table that the query does not mention** -/
theorem score_eq_sum (q t : List Feat) (hq : KeysStrictSorted q) (ht : KeysSorted t) (fuzzy : Bool) :
    matchFeatureLists q t fuzzy =
      sumContrib (if fuzzy then fuzzyW else strictW) q t + (if fuzzy then fuzzyW else strictW).extra * extraKeys q t :=
  matchLoop_eq_sum _ _ q t (Nat.le_refl _) hq ht

/-- plain (non language) key, outside the ucs4-query special case:
    key absent ↦ UNDEFINED, some declared value equal ↦ POS, declared with other values only ↦ NEG -/
theorem key_contribution (W : Weights) (hW : W.Sane) (qf : Feat) (t : List Feat)
    (hplain : isLangKey qf.key = false)
    (hns : noSpecial (cmpCI qf.key kUnicodeRange == .eq) qf.val.strOf) :
    (group qf.key t = [] → contrib W qf t = W.undefined) ∧
    ((∃ f ∈ group qf.key t, cmpCI qf.val.strOf f.val.strOf = .eq) → contrib W qf t = W.posMatch) ∧
    (group qf.key t ≠ [] → (∀ f ∈ group qf.key t, cmpCI qf.val.strOf f.val.strOf ≠ .eq) → contrib W qf t = W.negMatch) := by
  refine ⟨fun h => by simp [contrib, h], ?_, ?_⟩
  · rintro ⟨f, hf, he⟩
    unfold contrib
    cases hg : group qf.key t with
    | nil => rw [hg] at hf; cases hf
    | cons a g =>
      have hak : cmpCI a.key qf.key = .eq := key_of_mem_group (by rw [hg]; exact List.mem_cons_self ..)
      simp only [bestMatch]
      rw [isLangKey_congr hak, hplain, isUR_congr hak]
      simp only [Bool.false_eq_true, if_false]
      apply strBest_same W hW _ _ hns
      rw [hg] at hf
      exact ⟨f.val.strOf, List.mem_map.2 ⟨f, hf, rfl⟩, he⟩
  · intro hne hall
    unfold contrib
    cases hg : group qf.key t with
    | nil => exact absurd hg hne
    | cons a g =>
      have hak : cmpCI a.key qf.key = .eq := key_of_mem_group (by rw [hg]; exact List.mem_cons_self ..)
      simp only [bestMatch]
      rw [isLangKey_congr hak, hplain, isUR_congr hak]
      simp only [Bool.false_eq_true, if_false]
      apply strBest_other W hW _ _ hns
      intro v hv
      obtain ⟨f, hf, rfl⟩ := List.mem_map.1 hv
      exact hall f (by rw [hg]; exact hf)

/-- the ucs4-query special case included: an equal declared value still gives at least POS-1 -/
theorem key_contribution_special (W : Weights) (hW : W.Sane) (qf : Feat) (t : List Feat)
    (hplain : isLangKey qf.key = false)
    (h : ∃ f ∈ group qf.key t, cmpCI qf.val.strOf f.val.strOf = .eq) :
    W.posMatch - UCS2_FOR_UCS4_PENALTY ≤ contrib W qf t := by
  obtain ⟨f, hf, he⟩ := h
  unfold contrib
  cases hg : group qf.key t with
  | nil => rw [hg] at hf; cases hf
  | cons a g =>
    have hak : cmpCI a.key qf.key = .eq := key_of_mem_group (by rw [hg]; exact List.mem_cons_self ..)
    simp only [bestMatch]
    rw [isLangKey_congr hak, hplain]
    simp only [Bool.false_eq_true, if_false]
    apply strBest_ge_of_same W hW
    rw [hg] at hf
    exact ⟨f.val.strOf, List.mem_map.2 ⟨f, hf, rfl⟩, he⟩

/-- language keys (language, region): key absent ↦ UNDEFINED; one declared range equal to the
    queried tag ↦ the perfect language match (= POS by `weight_order`); no declared range
    matching the queried tag ↦ NEG -/
theorem lang_key_contribution (W : Weights) (hW : W.Sane) (qf : Feat) (t : List Feat)
    (hlang : isLangKey qf.key = true) :
    (group qf.key t = [] → contrib W qf t = W.undefined) ∧
    (∀ f, group qf.key t = [f] → qf.val.tagOf ≠ [] →
        qf.val.tagOf.map lowerStr = f.val.tagOf.map lowerStr →
        starRange f.val.tagOf = false → contrib W qf t = LANG_POS_MATCH) ∧
    (group qf.key t ≠ [] → (∀ f ∈ group qf.key t, matchLanguageTags qf.val.tagOf f.val.tagOf ≤ 0) →
        contrib W qf t = W.negMatch) := by
  refine ⟨fun h => by simp [contrib, h], ?_, ?_⟩
  · intro f hg hne hsame hstar
    have hfk : cmpCI f.key qf.key = .eq := key_of_mem_group (by rw [hg]; exact List.mem_cons_self ..)
    unfold contrib
    rw [hg]
    simp only [bestMatch]
    rw [isLangKey_congr hfk, hlang]
    simp only [if_true, List.map_cons, List.map_nil]
    have hm := matchLanguageTags_same _ _ hne hsame hstar
    rw [langBest_single W hW _ _ (by rw [hm]; decide), hm]
  · intro hne hall
    unfold contrib
    cases hg : group qf.key t with
    | nil => exact absurd hg hne
    | cons a g =>
      have hak : cmpCI a.key qf.key = .eq := key_of_mem_group (by rw [hg]; exact List.mem_cons_self ..)
      simp only [bestMatch]
      rw [isLangKey_congr hak, hlang]
      simp only [if_true]
      apply langBest_none W hW
      intro v hv
      obtain ⟨f, hf, rfl⟩ := List.mem_map.1 hv
      exact hall f (by rw [hg]; exact hf)

/-! ## 4. dominance -/

/-- pointwise at least as good on every queried key and no more unrelated keys, strictly
    better somewhere ⇒ strictly higher match quotient -/
theorem dominance (q tA tB : List Feat) (hq : KeysStrictSorted q) (hA : KeysSorted tA) (hB : KeysSorted tB)
    (hge : ∀ qf ∈ q, contrib strictW qf tB ≤ contrib strictW qf tA)
    (hex : extraKeys q tA ≤ extraKeys q tB)
    (hst : (∃ qf ∈ q, contrib strictW qf tB < contrib strictW qf tA) ∨ extraKeys q tA < extraKeys q tB) :
    matchFeatureLists q tB < matchFeatureLists q tA := by
  have hB' := score_eq_sum q tB hq hB false
  have hA' := score_eq_sum q tA hq hA false
  simp only [Bool.false_eq_true, if_false] at hA' hB'
  rw [hA', hB']
  have hx : strictW.extra = -1 := by decide
  rw [hx]
  unfold sumContrib
  rcases hst with hs | hs
  · have := sum_map_lt (fun qf => contrib strictW qf tB) (fun qf => contrib strictW qf tA) q hge hs
    omega
  · have := sum_map_le (fun qf => contrib strictW qf tB) (fun qf => contrib strictW qf tA) q hge
    omega

/-! ## 5. a table whose metadata equals the query is found -/

/-- the table declares the queried key exactly once, with the queried value -/
def DeclaresSame (qf : Feat) (t : List Feat) : Prop :=
  match group qf.key t with
  | [f] =>
    if isLangKey qf.key then
      qf.val.tagOf ≠ [] ∧ qf.val.tagOf.map lowerStr = f.val.tagOf.map lowerStr ∧ starRange f.val.tagOf = false
    else cmpCI qf.val.strOf f.val.strOf = .eq
  | _ => False

instance (qf : Feat) (t : List Feat) : Decidable (DeclaresSame qf t) := by
  unfold DeclaresSame; split <;> infer_instance

theorem contrib_of_declaresSame (qf : Feat) (t : List Feat) (h : DeclaresSame qf t) :
    contrib strictW qf t = POS_MATCH := by
  unfold DeclaresSame at h
  split at h
  · rename_i f hg
    by_cases hl : isLangKey qf.key = true
    · rw [if_pos hl] at h
      have := (lang_key_contribution strictW strictW_sane qf t hl).2.1 f hg h.1 h.2.1 h.2.2
      rw [this]; decide
    · have hl' : isLangKey qf.key = false := by simpa using hl
      rw [if_neg hl] at h
      have hfk : cmpCI f.key qf.key = .eq := key_of_mem_group (by rw [hg]; exact List.mem_cons_self ..)
      unfold contrib
      rw [hg]
      simp only [bestMatch]
      rw [isLangKey_congr hfk, hl']
      simp only [Bool.false_eq_true, if_false, List.map_cons, List.map_nil]
      rw [strBest_single_same strictW strictW_sane _ _ _ h]; rfl
  · exact absurd h id

/-- exact score: every queried key declared once with the same value ⇒
    quotient = POS·|query keys| + EXTRA·(number of other keys of the table) -/
theorem exact_score (q t : List Feat) (hq : KeysStrictSorted q) (ht : KeysSorted t)
    (hsame : ∀ qf ∈ q, DeclaresSame qf t) :
    matchFeatureLists q t = POS_MATCH * q.length + EXTRA * extraKeys q t := by
  have h := score_eq_sum q t hq ht false
  simp only [Bool.false_eq_true, if_false] at h
  rw [h]
  unfold sumContrib
  rw [sum_map_const _ POS_MATCH q (fun qf hqf => contrib_of_declaresSame qf t (hsame qf hqf))]
  rfl

/-- **a table whose metadata equals the query is found**: when the only key of the table
    that the query does not mention is (at most) one — the defaulted `region` — the quotient
    is at least 10·|keys of the query| − 1 > 0 (the keys of the query include the defaulted
    unicode-range), hence the table is listed by `lou_findTables` and `lou_findTable` is not NULL -/
theorem exact_found (q : List Feat) (t : Table) (idx : List Table) (hq : KeysStrictSorted q) (ht : KeysSorted t.feats)
    (hsame : ∀ qf ∈ q, DeclaresSame qf t.feats) (hx : extraKeys q t.feats ≤ 1) (hne : q ≠ [])
    (hin : t ∈ idx) :
    score q t = 10 * q.length - extraKeys q t.feats ∧ 10 * (q.length : Int) - 1 ≤ score q t ∧ 0 < score q t ∧
    t.name ∈ findTables q idx ∧ findTable q idx ≠ none := by
  have hs := exact_score q t.feats hq ht hsame
  have hp : POS_MATCH = 10 := by decide
  have he : EXTRA = -1 := by decide
  have hlen : 1 ≤ (q.length : Int) := by
    cases q with
    | nil => exact absurd rfl hne
    | cons a q => simp; omega
  have hnn := extraKeys_nonneg q t.feats
  have hsc : score q t = 10 * q.length - extraKeys q t.feats := by
    unfold score; rw [hs, hp, he]; omega
  have hpos : 0 < score q t := by omega
  have hmem : t.name ∈ findTables q idx := (mem_findTables_iff q idx t.name).2 ⟨t, hin, rfl, hpos⟩
  refine ⟨hsc, by omega, hpos, hmem, ?_⟩
  intro hnone
  rw [(findTable_none_iff q idx).1 hnone] at hmem
  cases hmem

/-! ## 6. the index order does not matter for a strict maximum -/

/-- if one table's quotient is positive and strictly greater than every other indexed
    table's, `lou_findTable` returns it for EVERY permutation of the index -/
theorem index_order_irrelevant (q : List Feat) (idx idx' : List Table) (t : Table)
    (hperm : idx'.Perm idx) (ht : t ∈ idx) (hpos : 0 < score q t)
    (hmax : ∀ u ∈ idx, u ≠ t → score q u < score q t) :
    findTable q idx' = some t.name := by
  unfold findTable
  have h0 : FIND_INITIAL_BEST = 0 := by decide
  apply findLoop_strict_max
  · intro u hu
    by_cases h : u = t
    · exact Or.inl h
    · exact Or.inr (hmax u (hperm.mem_iff.1 hu) h)
  · left; exact ⟨hperm.mem_iff.2 ht, by omega⟩

/-- and when no table has a positive quotient NULL is returned for every permutation -/
theorem index_order_irrelevant_none (q : List Feat) (idx idx' : List Table)
    (hperm : idx'.Perm idx) (hnone : findTable q idx = none) : findTable q idx' = none := by
  rw [findTable_none_iff_no_positive] at hnone ⊢
  intro t ht
  exact hnone t (hperm.mem_iff.1 ht)

/-- a dominating table (in the sense of `dominance`) has the strict maximum -/
theorem dominating_is_returned (q : List Feat) (idx idx' : List Table) (t : Table)
    (hq : KeysStrictSorted q) (hs : ∀ u ∈ idx, KeysSorted u.feats)
    (hperm : idx'.Perm idx) (ht : t ∈ idx) (hpos : 0 < score q t)
    (hdom : ∀ u ∈ idx, u ≠ t →
      (∀ qf ∈ q, contrib strictW qf u.feats ≤ contrib strictW qf t.feats) ∧
      extraKeys q t.feats ≤ extraKeys q u.feats ∧
      ((∃ qf ∈ q, contrib strictW qf u.feats < contrib strictW qf t.feats) ∨
        extraKeys q t.feats < extraKeys q u.feats)) :
    findTable q idx' = some t.name := by
  apply index_order_irrelevant q idx idx' t hperm ht hpos
  intro u hu hne
  obtain ⟨h1, h2, h3⟩ := hdom u hu hne
  exact dominance q t.feats u.feats hq (hs t ht) (hs u hu) h1 h2 h3

/-! ## 7. lou_getTableInfo: first occurrence -/

/-- the hypothesis the code forces: no two features with the same key and
    (case-insensitively) the same value -/
def NoDupFeatures (l : List Feat) : Prop := l.Pairwise (fun a b => cmpFeatures a b ≠ .eq)

instance (l : List Feat) : Decidable (NoDupFeatures l) := by unfold NoDupFeatures; infer_instance

/-- `l` = the feature list `analyzeTable` builds (any order); `f` = the feature with key
    `key` that has the smallest line number (= the first occurrence in the file, the
    parser numbers lines upwards): `lou_getTableInfo` returns its value -/
theorem tableInfo_first (l : List Feat) (key : Str) (f : Feat) (hnodup : NoDupFeatures l)
    (hf : f ∈ l) (hk : cmpCI f.key key = .eq) (hfl : 0 ≤ f.line)
    (hfirst : ∀ g ∈ l, cmpCI g.key key = .eq → g = f ∨ f.line < g.line) :
    getTableInfoFeats (listSort cmpFeatures l) key = some (infoValue key f.val) := by
  unfold getTableInfoFeats
  rw [infoLoop_first key f hk hfl (listSort cmpFeatures l) (listSort_cmpFeatures_sorted l)
    (fun g hg => hfirst g (mem_listSort cmpFeatures hg)) none (-1)
    (Or.inl ⟨mem_listSort_of_mem cmpFeatures hf hnodup, Or.inl (by decide)⟩)]
  rfl

/-- "smallest line number" IS "first occurrence in the file": the features the parser collects
    (the C list, before the defaults with line −1 are added) carry the number of the line they
    were read from and are ordered newest line first -/
theorem parser_lines_descending (activeOnly : Bool) (bytes : List Nat) (s' : AState)
    (h : analyzeLines activeOnly (splitLines (decodeFile bytes).1 []) 1 {} = .done s') :
    ∃ m, LinesDescending m s'.feats :=
  analyzeLines_lines activeOnly _ 1 (by decide) {} s' h ⟨List.Pairwise.nil, fun _ h => by cases h⟩

/-- a key that no line declares (and that has no default): NULL -/
theorem tableInfo_none (l : List Feat) (key : Str) (h : ∀ g ∈ l, cmpCI g.key key ≠ .eq) :
    getTableInfoFeats (listSort cmpFeatures l) key = none := by
  unfold getTableInfoFeats
  rw [infoLoop_none key _ (fun g hg => h g (mem_listSort cmpFeatures hg))]
  rfl

/-! ## 8. no type confusion (the fix of finding C18-F3) -/

/-- the parsers (`isLanguageTag(k, keySize)`) and the readers (`isLanguageTag(k, MAXSTRING)`)
    agree on every key: a value is stored as a subtag list exactly when it is read as one -/
theorem langTagParsed_eq_isLangKey (key : Str) : langTagParsed key = isLangKey key := by
  unfold langTagParsed isLangKey isLanguageTagN
  by_cases h : key.length ≤ MAXSTRING
  · simp [Nat.min_eq_left h]
  · have h8 : ¬ key.length ≤ 2048 := h
    have hm : min key.length MAXSTRING = 2048 := by
      show min key.length 2048 = 2048
      omega
    have l1 : kLanguage.length = 8 := rfl
    have l2 : kRegion.length = 6 := rfl
    have l3 : kLocale.length = 6 := rfl
    simp only [Nat.min_self, hm, l1, l2, l3]
    have e1 : (key.length == 8) = false := by simp; omega
    have e2 : (key.length == 6) = false := by simp; omega
    simp [e1, e2]

/-- the three names of the model are the ones extracted from `isLanguageTag` in the C source -/
theorem lang_keys_extracted : LANG_KEYS = [kLanguage, kRegion, kLocale] := by decide

/-- so a proper prefix of one of the three words is an ordinary key everywhere -/
example : langTagParsed [108] = false ∧ isLangKey [108] = false ∧                      -- "l"
    langTagParsed [114, 101, 103] = false ∧ langTagParsed [108, 111, 99] = false ∧     -- "reg", "loc"
    langTagParsed [76, 65, 78, 71, 85, 65, 71, 69] = true ∧ isLangKey kLocale = true := by decide  -- "LANGUAGE"

/-! ## 9. witnesses: the hypotheses are forced, and they are satisfiable -/

section witnesses

/-- "x" "a" "b" "en" "de" "ucs2" "ucs4" as bytes -/
abbrev kx : Str := [120]
abbrev va : Str := [97]
abbrev vb : Str := [98]
abbrev ven : Str := [101, 110]
abbrev vde : Str := [100, 101]
abbrev ucs2 : Str := [117, 99, 115, 50]
abbrev ucs4 : Str := [117, 99, 115, 52]

/-- tableInfo_first without NoDupFeatures is false: lines 1..3 = x:a, x:b, x:a (the C list is
    newest first); the first occurrence has value `a`, the answer is `b` -/
example :
    let l : List Feat := [⟨kx, .str va, 3⟩, ⟨kx, .str vb, 2⟩, ⟨kx, .str va, 1⟩]
    ¬ NoDupFeatures l ∧ getTableInfoFeats (listSort cmpFeatures l) kx = some vb := by decide

theorem tableInfo_first_fails_with_dup :
    ¬ ∀ (l : List Feat) (key : Str) (f : Feat), f ∈ l → cmpCI f.key key = .eq → 0 ≤ f.line →
      (∀ g ∈ l, cmpCI g.key key = .eq → g = f ∨ f.line < g.line) →
      getTableInfoFeats (listSort cmpFeatures l) key = some (infoValue key f.val) := by
  intro h
  have := h [⟨kx, .str va, 3⟩, ⟨kx, .str vb, 2⟩, ⟨kx, .str va, 1⟩] kx ⟨kx, .str va, 1⟩
    (by decide) (by decide) (by decide) (by decide)
  revert this
  decide

/-- the same on the bytes of the file `#+x:a\n#+x:b\n#+x:a\n`: lou_getTableInfo(file, "x") = "b" -/
theorem tableInfo_first_fails_on_bytes :
    getTableInfo [35, 43, 120, 58, 97, 10, 35, 43, 120, 58, 98, 10, 35, 43, 120, 58, 97, 10] kx = (some vb, 0) := by
  decide

/-- non-vacuity of tableInfo_first: `#+x:b\n#+x:a\n` answers `b`, through the theorem's hypotheses -/
example :
    let l : List Feat := [⟨kx, .str va, 2⟩, ⟨kx, .str vb, 1⟩]
    NoDupFeatures l ∧ getTableInfoFeats (listSort cmpFeatures l) kx = some vb ∧
    getTableInfo [35, 43, 120, 58, 98, 10, 35, 43, 120, 58, 97, 10] kx = (some vb, 0) := by decide

/-- exact_score without "declared once" is false: unicode-range declared ucs2 and ucs4, queried ucs4 -/
theorem exact_score_fails_with_two_values :
    let q : List Feat := [⟨kUnicodeRange, .str ucs4, 1⟩]
    let t : List Feat := [⟨kUnicodeRange, .str ucs2, 1⟩, ⟨kUnicodeRange, .str ucs4, 2⟩]
    KeysStrictSorted q ∧ KeysSorted t ∧
    (∀ qf ∈ q, ∃ f ∈ group qf.key t, cmpCI qf.val.strOf f.val.strOf = .eq) ∧
    matchFeatureLists q t = 9 ∧ POS_MATCH * q.length + EXTRA * extraKeys q t = 10 := by decide

/-- a table listing the queried language among 105: quotient -1, not found -/
def manyLanguages : List Feat :=
  ⟨kLanguage, .tag [ven], 1⟩ :: (List.replicate 104 ⟨kLanguage, .tag [vde], 2⟩ ++
    [⟨kRegion, .tag [ven], -1⟩, ⟨kUnicodeRange, .str ucs2, -1⟩])

set_option maxRecDepth 20000 in
theorem exact_found_fails_with_many_languages :
    let q : List Feat := [⟨kLanguage, .tag [ven], 2⟩, ⟨kUnicodeRange, .str ucs2, 1⟩]
    KeysStrictSorted q ∧ KeysSorted manyLanguages ∧
    (∀ qf ∈ q, ∃ f ∈ group qf.key manyLanguages, cmpFeatures qf f = .eq) ∧
    matchFeatureLists q manyLanguages = -1 ∧
    findTables q [⟨[116], manyLanguages⟩] = [] := by decide

/-- non-vacuity of exact_found, from file bytes: `#+language:en\n#+x:a\n` and the query
    `language:en x:a`: three query keys (unicode-range is defaulted), one extra key
    (the defaulted region), quotient 29 = 10·3 − 1 -/
def exTable : List Feat := (analyzeTable [35, 43, 108, 97, 110, 103, 117, 97, 103, 101, 58, 101, 110, 10, 35, 43, 120, 58, 97, 10] true).1
def exQuery : List Feat := (parseQuery [108, 97, 110, 103, 117, 97, 103, 101, 58, 101, 110, 32, 120, 58, 97]).1

example : exQuery.length = 3 ∧ extraKeys exQuery exTable = 1 ∧ matchFeatureLists exQuery exTable = 29 ∧
    findTable exQuery [⟨[116], exTable⟩] = some [116] := by decide

example : ∀ qf ∈ exQuery, DeclaresSame qf exTable := by decide

/-- index_order_irrelevant needs `0 < score`: a table that dominates the other one but has
    quotient 0 is not returned (query x:a y… : here x:b only) -/
theorem dominating_but_not_positive :
    let q : List Feat := [⟨kUnicodeRange, .str ucs2, 1⟩, ⟨kx, .str va, 2⟩]
    let t1 : Table := ⟨[49], [⟨kUnicodeRange, .str ucs2, -1⟩]⟩                      -- x absent: 10 − 20
    let t2 : Table := ⟨[50], [⟨kUnicodeRange, .str ucs2, -1⟩, ⟨kx, .str vb, 1⟩]⟩    -- x:b: 10 − 100
    score q t2 < score q t1 ∧ findTable q [t1, t2] = none ∧ findTable q [t2, t1] = none := by decide

/-- non-vacuity of index_order_irrelevant / dominance: same value beats absent beats other value -/
example :
    let q : List Feat := [⟨[103], .str va, 3⟩, ⟨kUnicodeRange, .str ucs2, 1⟩, ⟨kx, .str va, 2⟩]
    let t1 : Table := ⟨[49], [⟨[103], .str va, 1⟩, ⟨kUnicodeRange, .str ucs2, -1⟩, ⟨kx, .str va, 2⟩]⟩
    let t2 : Table := ⟨[50], [⟨[103], .str va, 1⟩, ⟨kUnicodeRange, .str ucs2, -1⟩]⟩
    let t3 : Table := ⟨[51], [⟨[103], .str va, 1⟩, ⟨kUnicodeRange, .str ucs2, -1⟩, ⟨kx, .str vb, 2⟩]⟩
    score q t1 = 30 ∧ score q t2 = 0 ∧ score q t3 = -80 ∧
    findTable q [t1, t2, t3] = some [49] ∧ findTable q [t3, t2, t1] = some [49] ∧ findTable q [t2, t1, t3] = some [49] ∧
    findTables q [t3, t1, t2] = [[49]] := by decide

/-- ties: lou_findTable keeps the FIRST maximum of the C list (= the table given LAST to
    lou_indexTables) while lou_findTables lists a later-walked table first -/
example :
    let q : List Feat := [⟨kUnicodeRange, .str ucs2, 1⟩]
    let t1 : Table := ⟨[49], [⟨kUnicodeRange, .str ucs2, -1⟩]⟩
    let t2 : Table := ⟨[50], [⟨kUnicodeRange, .str ucs2, -1⟩]⟩
    findTable q [t1, t2] = some [49] ∧ findTable q [t2, t1] = some [50] ∧
    findTables q [t1, t2] = [[50], [49]] := by decide

end witnesses

end Lou.C18
