/-
  C13 — table compilation is total: a table or a clean, reported failure.

  Property text (fixed):
    "For any byte content of table files - valid, truncated, mutated or random - compilation either
     succeeds without delivering any error-level message, or fails by returning NULL/0 after
     delivering at least one; it never crashes, hangs, leaks memory or disturbs tables already
     loaded.  The outcome depends only on the file contents, and a rejected table is never handed
     out by a later lookup and has no effect on other tables: later compilations and translations
     behave as in a fresh process."

  Proved here (models: LouModel/Lexer.lean, LouModel/CompileSkel.lean; inventory: Gen/ErrorSites.lean,
  regenerated from /repo by tools/lv/extract_errors.py on every run):

   * `error_sites` (decide on the inventory): every `errorCount++` is preceded in its own block by an
     error-level log call, except the four places that count a NULL from the table resolver (which has
     logged, C20.resolver_fail_logs_error); every error-level log call in compile code is `compileError`
     (which logs exactly once and counts, `compileError_body`), or is followed by `errorCount++` in its
     block, or is one of eight listed calls that are issued only when the compilation has already failed
     or that return failure to a caller that counts.  `counter_resets`: `errorCount` is reset at the head
     of compileTable, of compileString (the F7 fix) and in _lou_extParseDots, nowhere else.
   * `compile_outcome`: on the control skeleton of compileTable, for every way the files may compile:
     a table is returned ↔ errorCount = 0 at cleanup; success returns exactly the requested tables and
     frees nothing; failure returns NULL for both, frees every table it allocated and has logged
     "%d errors found."; `success_without_error_log` / `failure_logged` add the message counts under the
     hypothesis that `error_sites` justifies (a file that does not count has not logged, and vice versa).
   * `failed_compile_inert`, `rejected_not_cached`, `rejected_again`: on the two-chain cache model a failed
     compilation inserts nothing — the chains are what the lookups left (identical when the list was in
     neither chain), the rejected list is in neither chain afterwards, and a later lookup compiles it again.
   * `lexer_bounds`: every line has ≤ MAXSTRING-1 characters, every token < MAXSTRING, parseChars writes
     ≤ MAXSTRING-1 characters for ANY token, parseDots yields at most as many cells as the token has
     characters, the external wrappers look at ≤ MAXSTRING-1 bytes: no write past a CharsString.
   * `getALine_progress` (from C16): reading a file terminates; ≤ n lines for n bytes.

  NOT proved (searched by tools/lv/props/C13.py under ASan+UBSan+LSan with a tick budget): absence of
  crashes, leaks and hangs in the 4000 lines of compileRule and its helpers, and "behaves as in a fresh
  process" for the real allocator.

  Hypotheses forced by the code:
   * `Requested`: compileTable called with a table pointer but a NULL list returns 0 WITHOUT any message
     (`early_return_is_silent`); getTable never does that (`getTable_requests`), but it also never calls
     compileTable for an empty list: lou_getTable("") returns NULL silently (`empty_list_is_silent`).
   * the "log ⇒ count" direction relies on compileFile's fallback
     `if (!errorCount) compileError("Rule could not be compiled")` for the callees that log without
     counting (pattern.c) — visible in `logExceptions`.
-/
import LouModel.Lexer
import LouModel.CompileSkel
import LouModel.Gen.ErrorSites
import LouProofs.C16

namespace Lou.C13
open Lou Lou.CompileSkel

/-! ## error accounting: the source inventory -/

section Sites
open Lou.Gen.ErrorSites

/-- functions whose `errorCount++` has no log call in its own block: they count a NULL returned by
    `_lou_resolveTable`, whose default resolver has logged "Cannot resolve table" at error level -/
def countExceptions : List String := ["includeFile", "compileTable"]

structure LogException where
  func : String
  fmt : String
  exit : String
  reason : String

/-- error-level log calls that are neither `compileError` nor followed by `errorCount++` in their block -/
def logExceptions : List LogException := [
  ⟨"compileRule", "result of macro expansion was: %s", "return 0",
    "after a nested compileRule returned 0; compileFile counts if nothing has (macros are compiled out in this build)"⟩,
  ⟨"lou_readCharFromFile", "Cannot open file '%s'", "return EOF", "utility for tools, not part of table compilation"⟩,
  ⟨"_lou_defaultTableResolver", "Cannot resolve table '%s'", "return NULL", "returns NULL: includeFile / compileTable count"⟩,
  ⟨"_lou_defaultTableResolver", "LOUIS_TABLEPATH=%s", "return NULL", "same block as the previous one"⟩,
  ⟨"includeFile", "%s:%d: Error in included file", "return rv", "guarded by `if (!rv)`, rv = !errorCount: already counted"⟩,
  ⟨"compileTable", "%d errors found.", "return 0", "else-branch of `if (!errorCount)`: already counted"⟩,
  ⟨"getTable", "%s could not be compiled", "return", "compileTable returned 0"⟩,
  ⟨"pattern_compile_expression", "%s:%d: error: Too many character attributes defined", "return 0",
    "pattern.c cannot see errorCount; returns 0 up to compileRule, compileFile counts (`Rule could not be compiled`)"⟩
]

def countOK (s : CountSite) : Bool := s.logInBlock || countExceptions.contains s.func

def logOK (s : LogSite) : Bool :=
  s.callee == "compileError" || s.countInBlock ||
  logExceptions.any (fun e => e.func == s.func && e.fmt == s.fmt && e.exit == s.exit)

set_option maxRecDepth 20000 in
/-- every count has a log, every error-level log counts or is a listed exception -/
theorem error_sites : (countSites.all countOK && logSites.all logOK) = true := by decide

set_option maxRecDepth 20000 in
/-- the exception lists are tight: each entry is used -/
theorem exceptions_used :
    (countExceptions.all (fun f => countSites.any (fun s => s.func == f && !s.logInBlock)) &&
     logExceptions.all (fun e => logSites.any (fun s => e.func == s.func && e.fmt == s.fmt && e.exit == s.exit &&
        !s.countInBlock && s.callee != "compileError"))) = true := by decide

set_option maxRecDepth 20000 in
/-- `compileError` itself: one of two log calls (if/else on `file`) and the increment, all directly in
    the function body -/
theorem compileError_body :
    (logSites.filter (·.func == "compileError")).map (fun s => (s.callee, s.depth, s.lead, s.countInBlock)) =
      [("_lou_logMessage", 1, "if ( file )", true), ("_lou_logMessage", 1, "else", true)] ∧
    (countSites.filter (·.func == "compileError")).map (fun s => (s.depth, s.logInBlock)) = [(1, true)] := by decide

/-- where `errorCount` is reset: at the head of compileTable, at the head of compileString (the `fix:` for
    finding F7 — before it a failed compilation poisoned later lou_compileString calls) and in
    _lou_extParseDots: every entry point of the compiler starts from zero, so the outcome of a compilation
    does not depend on what was compiled before -/
theorem counter_resets :
    (refs.filter (·.kind == "reset")).map (fun r => (r.func, r.stmt)) =
      [("_lou_extParseDots", "errorCount = 0"), ("compileString", "errorCount = warningCount = 0"),
       ("compileTable", "errorCount = warningCount = fileCount = 0")] := by decide

/-- where it is read: the fallback and the return value of compileFile, the cleanup test of compileTable -/
theorem counter_reads :
    (refs.filter (·.kind == "read")).map (fun r => (r.func, r.stmt)) =
      [("_lou_extParseDots", "if ( errorCount )"),
       ("compileFile", "if ( ! errorCount ) compileError ( & file , \"Rule could not be compiled\" )"),
       ("compileFile", "return ! errorCount"),
       ("compileTable", "if ( ! errorCount )"),
       ("compileTable", "_lou_logMessage ( LOU_LOG_ERROR , \"%d errors found.\" , errorCount )")] := by decide

set_option maxRecDepth 20000 in
/-- the constants the lexer model hard-codes are those of the sources -/
theorem lexer_constants :
    Lexer.MAXSTRING = MAXSTRING ∧ Lexer.QUOTESUB = QUOTESUB ∧ Lexer.ENDSEGMENT = LOU_ENDSEGMENT ∧
    Lexer.DOTSBIT = LOU_DOTS ∧ CHARSIZE = 2 ∧
    ((List.range 9).map (fun i => Lexer.dotBit? (49 + i)) ++ (List.range 6).map (fun i => Lexer.dotBit? (97 + i))) = dotBits.map some ∧
    (List.range 6).map (fun i => Lexer.dotBit? (65 + i)) = (dotBits.drop 9).map some ∧
    first0Bit = [0x80, 0xC0, 0xE0, 0xF0, 0xF8, 0xFC, 0xFE] ∧
    (List.range 256).all (fun ch => 128 ≤ ch → Lexer.numBytes ch =
      ((List.range 7).filter (fun n => 0 < n ∧ first0Bit.getD n 0 ≤ ch)).foldl max 0) := by decide

end Sites

/-! ## compileTable: the outcome -/

theorem compileFiles_stop (fs : List FileOut) (ec lg : Nat) :
    (compileFiles fs ec lg).2.2 = true → (compileFiles fs ec lg).1 ≠ 0 := by
  induction fs generalizing ec lg with
  | nil => simp [compileFiles]
  | cons f r ih =>
    rw [compileFiles]
    by_cases h : ec + f.errs ≠ 0
    · rw [if_pos h]; intro _; exact h
    · rw [if_neg h]; exact ih _ _

theorem not_early {i : CTIn} (hr : Requested i) :
    ¬((i.wantT = true ∧ i.tl = none) ∨ (i.wantD = true ∧ i.dl = none) ∨ (¬ i.wantT = true ∧ ¬ i.wantD = true)) := by
  obtain ⟨h1, h2, h3⟩ := hr
  intro h
  rcases h with ⟨a, b⟩ | ⟨a, b⟩ | ⟨a, b⟩
  · exact h1 a b
  · exact h2 a b
  · cases h3 with
    | inl h => exact a h
    | inr h => exact b h

/-- compileTable returns a table ↔ errorCount = 0 at cleanup; success hands out exactly the requested
    tables and frees nothing; failure hands out nothing, frees everything it allocated, and has logged -/
theorem compile_outcome (i : CTIn) (hr : Requested i) :
    ((compileTable i).ret = true ↔ (compileTable i).errorCount = 0) ∧
    ((compileTable i).ret = true → (compileTable i).tbl = (if i.wantT then some tblT else none) ∧
      (compileTable i).dsp = (if i.wantD then some tblD else none) ∧ (compileTable i).freed = []) ∧
    ((compileTable i).ret = false → (compileTable i).tbl = none ∧ (compileTable i).dsp = none ∧
      (compileTable i).freed = (compileTable i).allocated ∧ 1 ≤ (compileTable i).errLogs) := by
  simp only [compileTable, if_neg (not_early hr)]
  by_cases he : (compileBody i).1 = 0
  · simp [he]
  · simp [he]

/-- the unrestricted statement is false: with a table pointer but no list compileTable fails silently -/
theorem early_return_is_silent :
    compileTable ⟨true, false, none, none, none, none, none, 1, ⟨0, 0⟩⟩ = ⟨false, none, none, 0, 0, [], []⟩ := by decide

/-- what `error_sites` says about one file, as a hypothesis on the abstraction -/
def Accounted (f : FileOut) : Prop := (f.errs = 0 → f.logs = 0) ∧ (f.errs ≠ 0 → 1 ≤ f.logs)

theorem compileFiles_logs (fs : List FileOut) (h : ∀ f ∈ fs, Accounted f) (ec lg : Nat) :
    (ec = 0 → lg = 0) → ((compileFiles fs ec lg).1 = 0 → (compileFiles fs ec lg).2.1 = 0) := by
  induction fs generalizing ec lg with
  | nil => intro h0; simpa [compileFiles] using h0
  | cons f r ih =>
    intro h0
    rw [compileFiles]
    by_cases hc : ec + f.errs ≠ 0
    · rw [if_pos hc]; intro h'; exact absurd h' hc
    · rw [if_neg hc]
      have hz : ec = 0 ∧ f.errs = 0 := by omega
      have hf := (h f (by simp)).1 hz.2
      exact ih (fun g hg => h g (by simp [hg])) _ _ (fun _ => by rw [h0 hz.1, hf])

theorem compileBody_logs (i : CTIn) (hp : Accounted i.pre)
    (hT : ∀ fs, i.resolveT = some fs → ∀ f ∈ fs, Accounted f)
    (hD : ∀ fs, i.resolveD = some fs → ∀ f ∈ fs, Accounted f)
    (hB : ∀ fs, i.resolveBoth = some fs → ∀ f ∈ fs, Accounted f) :
    (compileBody i).1 = 0 → (compileBody i).2 = 0 := by
  have hp0 : i.pre.errs = 0 → i.pre.logs = 0 := hp.1
  unfold compileBody
  by_cases hsame : i.wantD = true ∧ i.wantT = true ∧ i.tl = i.dl
  · rw [if_pos hsame]
    cases hb : i.resolveBoth with
    | none => simp
    | some fs => exact compileFiles_logs fs (hB fs hb) _ _ hp0
  · rw [if_neg hsame]
    by_cases hwd : i.wantD = true
    · simp only [hwd, if_true]
      cases hd : i.resolveD with
      | none => simp
      | some fd =>
        have hdl := compileFiles_logs fd (hD fd hd) i.pre.errs i.pre.logs hp0
        have hst := compileFiles_stop fd i.pre.errs i.pre.logs
        simp only
        cases hs : (compileFiles fd i.pre.errs i.pre.logs).2.2 with
        | true => simp only [if_true]; exact hdl
        | false =>
          simp only [Bool.false_eq_true, if_false]
          by_cases hwt : i.wantT = true
          · simp only [hwt, if_true]
            cases ht : i.resolveT with
            | none => simp
            | some ft => exact compileFiles_logs ft (hT ft ht) _ _ hdl
          · simp only [hwt, Bool.false_eq_true, if_false]; exact hdl
    · simp only [hwd, Bool.false_eq_true, if_false]
      by_cases hwt : i.wantT = true
      · simp only [hwt, if_true]
        cases ht : i.resolveT with
        | none => simp
        | some ft => exact compileFiles_logs ft (hT ft ht) _ _ hp0
      · simp only [hwt, Bool.false_eq_true, if_false]; exact hp0

/-- success ⇒ no error-level message was delivered (given that files are accounted as `error_sites` says) -/
theorem success_without_error_log (i : CTIn) (hr : Requested i) (hp : Accounted i.pre)
    (hT : ∀ fs, i.resolveT = some fs → ∀ f ∈ fs, Accounted f)
    (hD : ∀ fs, i.resolveD = some fs → ∀ f ∈ fs, Accounted f)
    (hB : ∀ fs, i.resolveBoth = some fs → ∀ f ∈ fs, Accounted f) :
    (compileTable i).ret = true → (compileTable i).errLogs = 0 := by
  have := compileBody_logs i hp hT hD hB
  simp only [compileTable, if_neg (not_early hr)]
  by_cases he : (compileBody i).1 = 0
  · simp [he, this he]
  · simp [he]

/-- failure ⇒ at least one error-level message (the cleanup's own "%d errors found." if nothing else) -/
theorem failure_logged (i : CTIn) (hr : Requested i) : (compileTable i).ret = false → 1 ≤ (compileTable i).errLogs :=
  fun h => ((compile_outcome i hr).2.2 h).2.2.2

/-! ## the cache -/

theorem moveFront_absent (k : String) (c : Chain) (h : k ∉ keys c) : moveFront k c = c := by
  unfold moveFront
  cases hf : c.find? (·.1 = k) with
  | none => rfl
  | some e =>
    exfalso
    have hm : e ∈ c := List.mem_of_find?_eq_some hf
    have hk : e.1 = k := by simpa using List.find?_some hf
    exact h (by rw [← hk]; exact List.mem_map_of_mem hm)

theorem find_absent (k : String) (c : Chain) (h : k ∉ keys c) : find k c = none := by
  unfold find
  cases hf : c.find? (·.1 = k) with
  | none => rfl
  | some e =>
    exfalso
    have hm : e ∈ c := List.mem_of_find?_eq_some hf
    have hk : e.1 = k := by simpa using List.find?_some hf
    exact h (by rw [← hk]; exact List.mem_map_of_mem hm)

/-- the lookups only reorder a chain (move-to-front): same entries -/
theorem moveFront_perm (k : String) : ∀ (c : Chain), (moveFront k c).Perm c := by
  intro c
  induction c with
  | nil => exact List.Perm.refl _
  | cons e r ih =>
    unfold moveFront at ih ⊢
    by_cases he : e.1 = k
    · simp [List.find?_cons, List.eraseP_cons, he]
    · simp only [List.find?_cons, List.eraseP_cons, he, decide_false, Bool.false_eq_true, if_false]
      cases hf : r.find? (·.1 = k) with
      | none => exact List.Perm.refl _
      | some x =>
        rw [hf] at ih
        simp only at ih ⊢
        exact (List.Perm.swap e x _).trans (ih.cons e)

/-- a failed compilation inserts nothing: the chains are what the two lookups left -/
theorem failed_compile_no_insert (compile : Option String → Option String → Bool → Bool → CompileRes)
    (c : Chains) (tl dl : Option String) (hfail : ∀ nT nD, (compile tl dl nT nD).ok = false) :
    (getTable compile c tl dl).chains =
      ⟨match tl with | none => c.t | some k => moveFront k c.t, match dl with | none => c.d | some k => moveFront k c.d⟩ := by
  unfold getTable
  cases tl <;> cases dl <;> simp only [hfail] <;> split <;> simp

/-- a failed compilation of lists that are in neither chain leaves both chains exactly as they were,
    returns no table, and has logged; nothing of the rejected list can be found afterwards -/
theorem failed_compile_inert (compile : Option String → Option String → Bool → Bool → CompileRes)
    (c : Chains) (kt kd : String) (hfail : ∀ nT nD, (compile (some kt) (some kd) nT nD).ok = false)
    (hT : kt ∉ keys c.t) (hD : kd ∉ keys c.d) :
    let o := getTable compile c (some kt) (some kd)
    o.chains = c ∧ o.tbl = none ∧ o.dsp = none ∧ o.compiled = true ∧ 1 ≤ o.errLogs := by
  simp only [getTable, find_absent kt c.t hT, find_absent kd c.d hD, moveFront_absent kt c.t hT,
    moveFront_absent kd c.d hD, hfail]
  simp

/-- the rejected list is in neither chain afterwards … -/
theorem rejected_not_cached (compile : Option String → Option String → Bool → Bool → CompileRes)
    (c : Chains) (kt kd : String) (hfail : ∀ nT nD, (compile (some kt) (some kd) nT nD).ok = false)
    (hT : kt ∉ keys c.t) (hD : kd ∉ keys c.d) :
    kt ∉ keys (getTable compile c (some kt) (some kd)).chains.t ∧ kd ∉ keys (getTable compile c (some kt) (some kd)).chains.d := by
  have := failed_compile_inert compile c kt kd hfail hT hD
  simp only at this
  rw [this.1]
  exact ⟨hT, hD⟩

/-- … so a later lookup compiles it again and fails again (never handed out) -/
theorem rejected_again (compile : Option String → Option String → Bool → Bool → CompileRes)
    (c : Chains) (kt kd : String) (hfail : ∀ nT nD, (compile (some kt) (some kd) nT nD).ok = false)
    (hT : kt ∉ keys c.t) (hD : kd ∉ keys c.d) :
    let c' := (getTable compile c (some kt) (some kd)).chains
    (getTable compile c' (some kt) (some kd)).tbl = none ∧ (getTable compile c' (some kt) (some kd)).compiled = true := by
  have h1 := failed_compile_inert compile c kt kd hfail hT hD
  simp only at h1 ⊢
  rw [h1.1]
  exact ⟨h1.2.1, h1.2.2.2.1⟩

/-- in every case the entries of both chains are preserved by a failed compilation (other tables stay) -/
theorem failed_compile_keeps_entries (compile : Option String → Option String → Bool → Bool → CompileRes)
    (c : Chains) (tl dl : Option String) (hfail : ∀ nT nD, (compile tl dl nT nD).ok = false) :
    (getTable compile c tl dl).chains.t.Perm c.t ∧ (getTable compile c tl dl).chains.d.Perm c.d := by
  rw [failed_compile_no_insert compile c tl dl hfail]
  constructor
  · cases tl with
    | none => exact List.Perm.refl _
    | some k => exact moveFront_perm k c.t
  · cases dl with
    | none => exact List.Perm.refl _
    | some k => exact moveFront_perm k c.d

/-- getTable asks compileTable only for tables whose list it has (the `Requested` precondition) -/
theorem getTable_requests (c : Chains) (tl dl : Option String) :
    let needT := tl.isSome && (match tl with | none => none | some k => find k c.t).isNone
    let needD := dl.isSome && (match dl with | none => none | some k => find k c.d).isNone
    (needT = true → tl ≠ none) ∧ (needD = true → dl ≠ none) := by
  cases tl <;> cases dl <;> simp

/-- … and for an empty/NULL list it does not call it at all: NULL is returned without any message -/
theorem empty_list_is_silent (compile : Option String → Option String → Bool → Bool → CompileRes) (c : Chains) :
    getTable compile c none none = ⟨none, none, c, 0, false⟩ := by
  simp [getTable]

/-- a successful compilation is inserted at the head and found by the next lookup without compiling -/
theorem success_cached (compile : Option String → Option String → Bool → Bool → CompileRes)
    (c : Chains) (k : String) (v w : Tbl) (hok : compile (some k) (some k) true true = ⟨true, some v, some w, 0⟩)
    (hT : k ∉ keys c.t) (hD : k ∉ keys c.d) :
    let o := getTable compile c (some k) (some k)
    o.tbl = some v ∧ o.dsp = some w ∧ (getTable compile o.chains (some k) (some k)).compiled = false ∧
    (getTable compile o.chains (some k) (some k)).tbl = some v := by
  have e : getTable compile c (some k) (some k) = ⟨some v, some w, ⟨(k, v) :: c.t, (k, w) :: c.d⟩, 0, true⟩ := by
    simp only [getTable, find_absent k c.t hT, find_absent k c.d hD, moveFront_absent k c.t hT, moveFront_absent k c.d hD]
    simp [hok]
  simp only [e]
  simp [getTable, find, moveFront]

/-! ## lexer bounds -/

open Lou.Lexer in
theorem foldlM_dots_len : ∀ (l : List Nat) (s s' : DState), l.foldlM dotsStep s = .ok s' →
    s'.cells.length + (if s'.cur.isSome then 1 else 0) ≤ s.cells.length + (if s.cur.isSome then 1 else 0) + l.length := by
  intro l
  induction l with
  | nil => intro s s' h; simp [List.foldlM, pure, Except.pure] at h; subst h; simp
  | cons c l ih =>
    intro s s' h
    rw [foldlM_cons_dots] at h
    cases hs : dotsStep s c with
    | error e => rw [hs] at h; simp [bind, Except.bind] at h
    | ok s1 =>
      rw [hs] at h
      have h1 := ih s1 s' h
      have h2 : s1.cells.length + (if s1.cur.isSome then 1 else 0) ≤ s.cells.length + (if s.cur.isSome then 1 else 0) + 1 := by
        obtain ⟨cells, cur⟩ := s
        unfold dotsStep at hs
        cases hd : dotBit? c with
        | some d =>
          simp only [hd] at hs
          cases cur with
          | none => injection hs with hs; subst hs; simp
          | some cell =>
            simp only at hs
            split at hs
            · cases hs
            · split at hs
              · cases hs
              · injection hs with hs; subst hs; simp
        | none =>
          simp only [hd] at hs
          split at hs
          · cases cur with
            | none => injection hs with hs; subst hs; simp
            | some cell => cases hs
          · split at hs
            · cases cur with
              | none => cases hs
              | some cell => injection hs with hs; subst hs; simp
            · cases hs
      simp only [List.length_cons]
      omega

open Lou.Lexer in
/-- parseDots yields at most as many cells as the token has characters -/
theorem parseDots_bound (tok out : List Nat) (h : parseDots tok = .ok out) : out.length ≤ tok.length := by
  unfold parseDots at h
  cases hf : tok.foldlM dotsStep ⟨[], none⟩ with
  | error e => rw [hf] at h; simp [bind, Except.bind] at h
  | ok s' =>
    rw [hf] at h
    have := foldlM_dots_len tok _ s' hf
    simp only [bind, Except.bind, dotsFinish] at h
    cases hc : s'.cur with
    | none => rw [hc] at h; cases h
    | some cell =>
      rw [hc] at h
      injection h with h
      rw [hc] at this
      simp at this
      rw [← h]; simp; omega

open Lou.Lexer in
theorem extWiden_bound (bs : List Nat) : (extWiden bs).length ≤ MAXSTRING - 1 := by
  unfold extWiden
  simp only [List.length_map, List.length_take]
  omega

open Lou.Lexer in
/-- no write past a `CharsString` (capacity MAXSTRING) or `FileInfo.line` in the reader:
    (1) every line of every file has ≤ MAXSTRING-1 characters (its terminator is written at index ≤ MAXSTRING-1);
    (2) every token of such a line has < MAXSTRING characters (getToken's terminator stays inside; the
        `overflow`/`tooLong` outcomes of the model are unreachable);
    (3) parseChars writes ≤ MAXSTRING-1 characters whatever the token (any length, any content), and the
        length it reports never exceeds what it wrote;
    (4) parseDots yields ≤ |token| ≤ MAXSTRING-1 cells;
    (5) _lou_extParseChars / _lou_extParseDots look at ≤ MAXSTRING-1 bytes of their argument. -/
theorem lexer_bounds :
    (∀ bs : List Nat, ∀ l ∈ (fileLines bs).1, l.length ≤ MAXSTRING - 1) ∧
    (∀ l : List Nat, l.length < MAXSTRING →
      match getToken l with
      | .none => True
      | .tok t r => t.length < MAXSTRING ∧ r.length < l.length
      | _ => False) ∧
    (∀ (tok : List Nat) (term : Nat), (parseChars tok term).chars.length ≤ MAXSTRING - 1 ∧
      (parseChars tok term).length ≤ (parseChars tok term).chars.length) ∧
    (∀ tok out : List Nat, parseDots tok = .ok out → out.length ≤ tok.length) ∧
    (∀ bs : List Nat, (extWiden bs).length ≤ MAXSTRING - 1) := by
  refine ⟨C16.line_bound, ?_, parseChars_bound, parseDots_bound, extWiden_bound⟩
  intro l hl
  have := Lou.Lexer.getToken_tokens l hl
  cases hg : getToken l with
  | none => trivial
  | tooLong => rw [hg] at this; exact this
  | overflow t => rw [hg] at this; exact this
  | tok t r => rw [hg] at this; exact ⟨this.2.1, this.2.2.2⟩

/-- Q8 is real: a line of MAXSTRING non-blank characters (which the reader never produces) makes getToken
    write its terminator one element past the CharsString -/
theorem getToken_guard_is_off_by_one :
    Lou.Lexer.getToken (List.replicate Lou.Lexer.MAXSTRING 97) = .overflow (List.replicate Lou.Lexer.MAXSTRING 97) := by
  decide +kernel

/-- reading terminates (shared with C16) -/
theorem getALine_progress (bs : List Nat) (h : Lou.Lexer.Hdr) (hw : h.wf) :
    match Lou.Lexer.getALine bs h with
    | (ret, _, bs', h') =>
      h'.wf ∧ Lou.Lexer.mu bs' h' ≤ Lou.Lexer.mu bs h ∧ (ret = true → Lou.Lexer.mu bs' h' < Lou.Lexer.mu bs h) ∧
      (ret = false → Lou.Lexer.remaining bs' h' = []) := C16.getALine_progress bs h hw

theorem line_count (bs : List Nat) : (Lou.Lexer.fileLines bs).1.length ≤ bs.length + 1 :=
  Nat.le_succ_of_le (C16.line_count bs)

/-! ### non-vacuity -/

example : Requested ⟨true, true, some "a.ctb", some "a.ctb", none, none, some [⟨0, 0⟩], 1, ⟨0, 0⟩⟩ := by
  refine ⟨fun _ => by simp, fun _ => by simp, Or.inl rfl⟩
example : compileTable ⟨true, true, some "a.ctb", some "a.ctb", none, none, some [⟨0, 0⟩, ⟨0, 0⟩], 1, ⟨0, 0⟩⟩
    = ⟨true, some tblT, some tblD, 0, 0, [tblT, tblD], []⟩ := by decide
example : compileTable ⟨true, true, some "a.ctb", some "a.ctb", none, none, some [⟨0, 0⟩, ⟨2, 2⟩, ⟨5, 5⟩], 1, ⟨0, 0⟩⟩
    = ⟨false, none, none, 2, 3, [tblT, tblD], [tblT, tblD]⟩ := by decide
example : compileTable ⟨true, true, some "a.ctb", some "b.dis", some [⟨0, 0⟩], none, none, 1, ⟨0, 0⟩⟩
    = ⟨false, none, none, 1, 2, [tblT, tblD], [tblT, tblD]⟩ := by decide
example : (getTable (fun _ _ _ _ => ⟨false, none, none, 3⟩) ⟨[("g.ctb", 7)], [("g.ctb", 8)]⟩ (some "m.ctb") (some "m.ctb")) =
    ⟨none, none, ⟨[("g.ctb", 7)], [("g.ctb", 8)]⟩, 4, true⟩ := by decide

end Lou.C13
