/-
  C05 — `select_refines`: on a well-formed table the chain walk of `for_selectRule` (stage 0,
  multi-character rules) returns the BEST applicable rule of the whole table in the documented
  order — longest string first, rules other than `always` before `always`, then definition
  order — and returns nothing only when no forward multi-character rule of the table applies.

  "Applicable" is the conjunction the code tests: the string fits, `validMatch`, the opcode
  condition.  Well-formedness (`FwdWF`) is what the compiler establishes (C05Compile / C12):
  resolved indices, sorted chains, every rule in the bucket of the raw hash of its first two
  characters, distinct bucket keys, and `FoldFixed` — the first two characters of a rule are their
  own case-folded form.  `FoldFixed` is forced by the code: rules are bucketed by the RAW hash but
  looked up by the FOLDED hash of the input, so a rule whose first two characters are not
  fold-fixed sits in a bucket the lookup never visits.
-/
import LouModel.Forward
import LouModel.Compile
import LouProofs.Lemmas.Chain

namespace Lou.C05
open Lou Lou.Gen Lou.Chain Lou.Compile

/-- the test `for_selectRule` applies to one candidate of a multi-character chain -/
def applicable (t : Table) (mode : Nat) (dc : Bool) (input : List Nat) (pos before prevOp : Nat) (r : Rule) : Bool :=
  (r.chars.length ≤ input.length - pos && Fwd.validMatch t input pos r) &&
  Fwd.opcodeAccepts r.opcode mode dc before (Fwd.afterAttrs t input pos r.chars.length) prevOp

def toSel (r : Rule) : Fwd.Sel := { opcode := r.opcode, rule := some r, charslen := r.chars.length }

/-- the chain walk is `find?` on the resolved chain -/
theorem walkChain_eq_find (t : Table) (mode : Nat) (dc : Bool) (input : List Nat) (pos before prevOp : Nat) :
    ∀ (chain : List Nat), (∀ i ∈ chain, ∃ r, t.rule? i = some r ∧ r.idx = i) →
      Fwd.walkChain t mode dc input pos (input.length - pos) before prevOp false chain =
        ((chain.filterMap t.rule?).find? (applicable t mode dc input pos before prevOp)).map toSel := by
  intro chain
  induction chain with
  | nil => intro _; rfl
  | cons i rest ih =>
    intro hres
    obtain ⟨r, hr, _⟩ := hres i (List.mem_cons_self ..)
    have ih' := ih (fun j hj => hres j (List.mem_cons_of_mem _ hj))
    unfold Fwd.walkChain
    simp only [hr, List.filterMap_cons, List.find?_cons]
    by_cases ha : applicable t mode dc input pos before prevOp r = true
    · have ha' := ha
      unfold applicable at ha'
      simp only [Bool.false_or] at *
      simp [ha, ha', toSel]
    · have ha0 : applicable t mode dc input pos before prevOp r = false := by simpa using ha
      have ha' := ha0
      unfold applicable at ha'
      simp only [Bool.false_or]
      rw [ha0]
      simp only [ha', Bool.false_eq_true, if_false]
      exact ih'

/-- well-formedness of the forward multi-character part of a table -/
structure FwdWF (t : Table) : Prop where
  res : ∀ b ∈ t.forB, ∀ i ∈ b.2, ∃ r, t.rule? i = some r ∧ r.idx = i
  sorted : ∀ b ∈ t.forB, (b.2.filterMap t.rule?).Pairwise le
  bucket : ∀ b ∈ t.forB, ∀ i ∈ b.2, ∀ r, t.rule? i = some r →
    2 ≤ r.chars.length ∧ rawHash (r.chars.getD 0 0) (r.chars.getD 1 0) = b.1
  keys : ∀ b₁ ∈ t.forB, ∀ b₂ ∈ t.forB, b₁.1 = b₂.1 → b₁ = b₂
  foldFixed : ∀ b ∈ t.forB, ∀ i ∈ b.2, ∀ r, t.rule? i = some r →
    Fwd.toLower t (t.getChar (r.chars.getD 0 0)) = r.chars.getD 0 0 ∧
    Fwd.toLower t (t.getChar (r.chars.getD 1 0)) = r.chars.getD 1 0

/-- a forward multi-character rule of the table: a member of some bucket chain -/
def IsFwdMulti (t : Table) (r : Rule) : Prop := ∃ b ∈ t.forB, r.idx ∈ b.2 ∧ t.rule? r.idx = some r

/-- what the character loop of `validMatch` establishes for every position of the rule string -/
theorem go_spec (t : Table) (input : List Nat) (pos n : Nat) (hn : 2 ≤ n) :
    ∀ (rc : List Nat) (k prevAttr : Nat), Fwd.validMatch.go t input pos n k rc prevAttr = true →
      ∀ (j : Nat) (hj : j < rc.length),
        Fwd.toLower t (t.getChar (Fwd.inAt input (k + j))) = Fwd.toLower t (t.getChar rc[j]) := by
  intro rc
  induction rc with
  | nil => intro k p _ j hj; simp at hj
  | cons rch rest ih =>
    intro k prevAttr hv j hj
    unfold Fwd.validMatch.go at hv
    dsimp only at hv
    by_cases he : (Fwd.inAt input k == LOU_ENDSEGMENT) = true
    · simp only [he, if_true, Bool.and_eq_true, beq_iff_eq] at hv
      omega
    · simp only [he, Bool.false_eq_true, if_false] at hv
      by_cases hl : (Fwd.toLower t (t.getChar (Fwd.inAt input k)) != Fwd.toLower t (t.getChar rch)) = true
      · simp [hl] at hv
      · simp only [hl, Bool.false_eq_true, if_false] at hv
        have key : ∃ pa, Fwd.validMatch.go t input pos n (k + 1) rest pa = true := by
          by_cases hkp : (k == pos) = true
          · simp only [hkp, if_true] at hv
            split at hv
            · simp at hv
            · exact ⟨_, hv⟩
          · simp only [hkp, Bool.false_eq_true, if_false] at hv
            split at hv
            · simp at hv
            · exact ⟨_, hv⟩
        obtain ⟨pa, hgo⟩ := key
        cases j with
        | zero => simpa using hl
        | succ j =>
          have := ih (k + 1) pa hgo j (by simpa using hj)
          simpa [Nat.add_assoc, Nat.add_comm 1 j] using this

/-- what `validMatch` says about the first two characters -/
theorem validMatch_first_two (t : Table) (input : List Nat) (pos : Nat) (r : Rule)
    (h2 : 2 ≤ r.chars.length) (hv : Fwd.validMatch t input pos r = true) :
    Fwd.toLower t (t.getChar (Fwd.inAt input pos)) = Fwd.toLower t (t.getChar (r.chars.getD 0 0)) ∧
    Fwd.toLower t (t.getChar (Fwd.inAt input (pos + 1))) = Fwd.toLower t (t.getChar (r.chars.getD 1 0)) := by
  unfold Fwd.validMatch at hv
  have hn : (r.chars.length == 0) = false := by rw [beq_eq_false_iff_ne]; omega
  simp only [hn, Bool.false_eq_true, if_false] at hv
  have g0 := go_spec t input pos r.chars.length h2 r.chars pos 0 hv 0 (by omega)
  have g1 := go_spec t input pos r.chars.length h2 r.chars pos 0 hv 1 (by omega)
  have e0 : r.chars.getD 0 0 = r.chars[0]'(by omega) := by
    rw [List.getD_eq_getElem?_getD, List.getElem?_eq_getElem (by omega)]; rfl
  have e1 : r.chars.getD 1 0 = r.chars[1]'(by omega) := by
    rw [List.getD_eq_getElem?_getD, List.getElem?_eq_getElem (by omega)]; rfl
  rw [e0, e1]
  exact ⟨by simpa using g0, g1⟩

/-- the bucket the lookup visits, when it exists, is THE bucket with that key -/
theorem forBucket_of_mem (t : Table) (h : FwdWF t) (b : Nat × List Nat) (hb : b ∈ t.forB) :
    t.forBucket b.1 = b.2 := by
  unfold Table.forBucket
  cases hf : t.forB.find? (fun x => x.1 == b.1) with
  | none =>
    have := List.find?_eq_none.mp hf b hb
    simp at this
  | some b' =>
    have hb' : b' ∈ t.forB := List.mem_of_find?_eq_some hf
    have hk : b'.1 = b.1 := by simpa using List.find?_some hf
    rw [h.keys b' hb' b hb hk]; rfl

theorem forBucket_res (t : Table) (h : FwdWF t) (k : Nat) :
    (∀ i ∈ t.forBucket k, ∃ r, t.rule? i = some r ∧ r.idx = i) ∧ ((t.forBucket k).filterMap t.rule?).Pairwise le := by
  unfold Table.forBucket
  cases hf : t.forB.find? (fun x => x.1 == k) with
  | none => simp
  | some b =>
    have hb : b ∈ t.forB := List.mem_of_find?_eq_some hf
    simp only [Option.map_some, Option.getD_some]
    exact ⟨h.res b hb, h.sorted b hb⟩

/-- **select_refines** (stage 0 of `for_selectRule`): with at least two characters left,
    * if the walk selects `r`, then `r` is applicable and every applicable forward multi-character
      rule of the table is `r` itself or comes after `r` in the documented order;
    * if the walk selects nothing, no forward multi-character rule of the table is applicable. -/
theorem select_refines (t : Table) (h : FwdWF t) (mode : Nat) (dc : Bool) (input : List Nat)
    (pos before prevOp : Nat) (walked : Option Fwd.Sel)
    (hwdef : walked = Fwd.walkChain t mode dc input pos (input.length - pos) before prevOp false
      (t.forBucket (Fwd.stringHashFolded t (Fwd.inAt input pos) (Fwd.inAt input (pos + 1))))) :
    (∀ s, walked = some s → ∃ r, s = toSel r ∧ IsFwdMulti t r ∧
        applicable t mode dc input pos before prevOp r = true ∧
        ∀ x, IsFwdMulti t x → applicable t mode dc input pos before prevOp x = true → x = r ∨ le r x) ∧
    (walked = none → ∀ x, IsFwdMulti t x → applicable t mode dc input pos before prevOp x = false) := by
  generalize hk : Fwd.stringHashFolded t (Fwd.inAt input pos) (Fwd.inAt input (pos + 1)) = k at hwdef
  obtain ⟨hres, hsorted⟩ := forBucket_res t h k
  have hw : walked = (((t.forBucket k).filterMap t.rule?).find? (applicable t mode dc input pos before prevOp)).map toSel := by
    rw [hwdef]; exact walkChain_eq_find t mode dc input pos before prevOp _ hres
  -- completeness: an applicable rule of the table lies in the bucket that is walked
  have hcomplete : ∀ x, IsFwdMulti t x → applicable t mode dc input pos before prevOp x = true →
      x ∈ (t.forBucket k).filterMap t.rule? := by
    intro x ⟨b, hb, hxi, hxr⟩ hax
    obtain ⟨hlen, hhash⟩ := h.bucket b hb x.idx hxi x hxr
    obtain ⟨hf0, hf1⟩ := h.foldFixed b hb x.idx hxi x hxr
    unfold applicable at hax
    simp only [Bool.and_eq_true, decide_eq_true_eq] at hax
    obtain ⟨m0, m1⟩ := validMatch_first_two t input pos x hlen hax.1.2
    have hkey : k = b.1 := by
      rw [← hk, ← hhash]
      unfold Fwd.stringHashFolded rawHash
      rw [m0, m1, hf0, hf1]
    rw [hkey, forBucket_of_mem t h b hb]
    exact List.mem_filterMap.mpr ⟨x.idx, hxi, hxr⟩
  constructor
  · intro s hs
    rw [hw] at hs
    cases hf : ((t.forBucket k).filterMap t.rule?).find? (applicable t mode dc input pos before prevOp) with
    | none => rw [hf] at hs; cases hs
    | some r =>
      rw [hf] at hs
      simp only [Option.map_some, Option.some.injEq] at hs
      have hmem := List.mem_of_find?_eq_some hf
      obtain ⟨i, hi, hir⟩ := List.mem_filterMap.mp hmem
      obtain ⟨r', hr', hidx⟩ := hres i hi
      rw [hr'] at hir; cases hir
      -- r is a rule of the table: find the bucket record
      have hbk : IsFwdMulti t r := by
        unfold Table.forBucket at hi
        cases hfb : t.forB.find? (fun x => x.1 == k) with
        | none => rw [hfb] at hi; simp at hi
        | some b =>
          rw [hfb] at hi
          simp only [Option.map_some, Option.getD_some] at hi
          exact ⟨b, List.mem_of_find?_eq_some hfb, by rw [hidx]; exact hi, by rw [hidx]; exact hr'⟩
      refine ⟨r, hs.symm, hbk, by simpa using List.find?_some hf, ?_⟩
      intro x hx hax
      exact find_first_le _ _ hsorted r hf x (hcomplete x hx hax) hax
  · intro hnone x hx
    rw [hw] at hnone
    cases hf : ((t.forBucket k).filterMap t.rule?).find? (applicable t mode dc input pos before prevOp) with
    | some r => rw [hf] at hnone; cases hnone
    | none =>
      by_cases hax : applicable t mode dc input pos before prevOp x = true
      · have := List.find?_eq_none.mp hf x (hcomplete x hx hax)
        simp [hax] at this
      · simpa using hax

end Lou.C05
