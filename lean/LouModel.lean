import LouModel.Basic
import LouModel.PosMap
import LouModel.Driver
import LouModel.Proto
import LouModel.Hyph
import LouModel.HyphProto
