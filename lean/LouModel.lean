import LouModel.Basic
import LouModel.PosMap
import LouModel.Driver
import LouModel.Proto
import LouModel.Resolve
import LouModel.Log
import LouModel.Gen.LogSites
