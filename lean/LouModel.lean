import LouModel.Basic
import LouModel.PosMap
import LouModel.Driver
import LouModel.Proto
import LouModel.Gen.MetaConsts
import LouModel.Meta
