import LouModel
import LouProofs.Lemmas.PosMap
import LouProofs.C07
