import LouModel
import LouProofs.Lemmas.PosMap
import LouProofs.C07
import LouProofs.C19
import LouProofs.C20
