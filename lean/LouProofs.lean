import LouModel
import LouProofs.Lemmas.PosMap
import LouProofs.C07
import LouProofs.Lemmas.Meta
import LouProofs.Lemmas.MetaScore
import LouProofs.C18
