import LouModel
import LouProofs.Lemmas.PosMap
import LouProofs.C07
import LouProofs.Contract
import LouProofs.C04
import LouProofs.C01Alloc
import LouProofs.C01
import LouProofs.C02
