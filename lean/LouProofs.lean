import LouModel
import LouProofs.Lemmas.PosMap
import LouProofs.C07
import LouProofs.Lemmas.Hyph
import LouProofs.Lemmas.HyphWalk
import LouProofs.Lemmas.HyphCompile
import LouProofs.C17
import LouProofs.Lemmas.HyphWrap
