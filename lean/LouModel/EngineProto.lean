/-
  EngineProto.lean — protocol operations of the Layer B engine models.  They run on tables
  registered with `LOADTABLE <name> <DUMP body>` (the dump of the real compiler) or produced by
  the compile model.
    MFWD <name> <mode> <outcap> <cursor|-> <in>   → `P <out> <map> <realInlen> <cpos> <cstat> rules=…`
                                                     (what hook H4 records for the main pass) or UNSUPPORTED <reason>
-/
import LouModel.Table
import LouModel.Forward

namespace Lou.EngineProto
open Lou

def showRule (r : Option Rule) : String :=
  match r with
  | some r => s!"{r.opcode}:{showWide r.chars}:{showWide r.dots}"
  | none => s!"{Gen.CTO_None}:*:-"

def showRules (l : List (Option Rule)) : String :=
  if l.isEmpty then "." else ",".intercalate (l.map showRule)

def handle? (reg : List (String × Table)) (toks : List String) : Option String :=
  match toks with
  | ["MFWD", name, mode, cap, cursor, inh] =>
    some <| (do
      let t ← (reg.find? (fun (e : String × Table) => e.1 == name)).map (fun (e : String × Table) => e.2)
      let mode ← mode.toNat?
      let cap ← cap.toNat?
      let input ← parseWide inh
      let cur : Option Int ← (if cursor == "-" then some none else cursor.toInt?.map some)
      match Fwd.unsupported t with
      | some why => pure s!"UNSUPPORTED {why}"
      | none =>
        if hasBit mode mCompbrlAtCursor || hasBit mode mCompbrlLeftCursor then pure "UNSUPPORTED compbrl mode" else
        let (cp, cs) : Int × Int := match cur with
          | some c => if c ≥ 0 then (c, 0) else (-1, 1)
          | none => (-1, 1)
        let input := input.takeWhile (· != 0)
        let r := Fwd.translate t mode input cap cp cs
        pure s!"P {showWide r.out} {showInts r.map} {r.realInlen} {r.cpos} {r.cstat} rules={showRules r.applied}").getD "BADOP"
  | _ => none

end Lou.EngineProto
