/-
  EngineProto.lean — protocol operations of the Layer B engine models.  They run on tables
  registered with `LOADTABLE <name> <DUMP body>` (the dump of the real compiler) or produced by
  the compile model.
    MFWD <name> <mode> <outcap> <cursor|-> <in>   → `P <out> <map> <realInlen> <cpos> <cstat> rules=…`
                                                     (what hook H4 records for the main pass) or UNSUPPORTED <reason>
-/
import LouModel.Table
import LouModel.Pass
import LouModel.Forward
import LouModel.ForwardCtx
import LouModel.Compile
import LouModel.Backward
import LouModel.BackwardCtx
import LouModel.OneToOne
import LouModel.Proto
import LouModel.Engine

namespace Lou.EngineProto
open Lou

def showRule (r : Option Rule) : String :=
  match r with
  | some r => s!"{r.opcode}:{showWide r.chars}:{showWide r.dots}"
  | none => s!"{Gen.CTO_None}:*:-"

def showRules (l : List (Option Rule)) : String :=
  if l.isEmpty then "." else ",".intercalate (l.map showRule)

def showOpt (o : Option Nat) : String := match o with | some n => toString n | none => "-1"
def showChain (l : List Nat) : String := if l.isEmpty then "." else ",".intercalate (l.map toString)
def hexs (n : Nat) : String := String.ofList (Nat.toDigits 16 n)

def sortBy {α : Type} (key : α → Nat) (l : List α) : List α :=
  (l.toArray.qsort (fun a b => key a < key b)).toList

/-- canonical rendering of a logical table: the harness DUMP format with the character / cell
    records sorted by value and the buckets by hash (bucket-internal order of records has no meaning) -/
def showTable (t : Table) : String :=
  let b (x : Bool) : String := if x then "1" else "0"
  let hd := s!"T {t.numPasses} {b t.corrections} {b t.finalized} {b t.usesSequences} {b t.usesNumericMode} {b t.capsNoCont} {b t.syllables} {showOpt t.undefined} {showOpt t.letterSign} {showOpt t.numberSign} {showOpt t.noContractSign} {showOpt t.noNumberSign} {showOpt t.begComp} {showOpt t.endComp} {b t.hyph} {t.ruleCounter}"
  -- like the harness, list only rules that are referenced from some chain, record or header slot
  let opt (o : Option Nat) : List Nat := match o with | some n => [n] | none => []
  let refs : List Nat :=
    (t.chars.map fun c => c.chain ++ opt c.defRule ++ opt c.compRule).flatten ++
    (t.dots.map fun d => d.chain ++ opt d.defRule).flatten ++
    (t.forB.map (·.2)).flatten ++ (t.backB.map (·.2)).flatten ++ (t.forPass.map (·.2)).flatten ++
    (t.backPass.map (·.2)).flatten ++ (t.emph.map (·.2.2)) ++
    opt t.undefined ++ opt t.letterSign ++ opt t.numberSign ++ opt t.noContractSign ++ opt t.noNumberSign ++
    opt t.begComp ++ opt t.endComp
  let rs := ((sortBy (·.idx) t.rules).filter fun r => refs.contains r.idx).map fun r =>
    s!" | R {r.idx} {r.opcode} {showWide r.chars} {showWide r.dots} {hexs r.after} {hexs r.before} {b r.nocross} {b r.hasPatterns}"
  let es := (sortBy (fun e => e.1 * 16 + e.2.1) t.emph).map fun e => s!" | E {e.1} {e.2.1} {e.2.2}"
  let cs := (sortBy (·.value) t.chars).map fun c =>
    s!" | C {hex4 c.value} {hexs c.attrs} {hexs c.mode} {showOpt c.defRule} {showOpt c.compRule} {match c.base with | some v => hex4 v | none => "-"} {showChain c.chain}"
  let ds := (sortBy (·.value) t.dots).map fun d =>
    s!" | D {hex4 d.value} {hexs d.attrs} {showOpt d.defRule} {showChain d.chain}"
  let fs := (sortBy (·.1) t.forB).filter (fun x => !x.2.isEmpty) |>.map fun x => s!" | F {x.1} {showChain x.2}"
  let bs := (sortBy (·.1) t.backB).filter (fun x => !x.2.isEmpty) |>.map fun x => s!" | B {x.1} {showChain x.2}"
  let fp := (sortBy (·.1) t.forPass).filter (fun x => !x.2.isEmpty) |>.map fun x => s!" | FP {x.1} {showChain x.2}"
  let bp := (sortBy (·.1) t.backPass).filter (fun x => !x.2.isEmpty) |>.map fun x => s!" | BP {x.1} {showChain x.2}"
  hd ++ String.join (rs ++ es ++ cs ++ ds ++ fs ++ bs ++ fp ++ bp)

/-- `opcode:chars:dots:flags` (flags: b = noback, f = nofor, - = none) -/
def parseEntry (s : String) : Option Compile.Entry :=
  match s.splitOn ":" with
  | [op, ch, ds, fl] => do
    let op ← op.toNat?
    let ch ← parseWide ch
    let ds ← parseWide ds
    pure { opcode := op, chars := ch, dots := ds, noback := fl.contains 'b', nofor := fl.contains 'f' }
  | _ => none

def handle? (reg : List (String × Table)) (toks : List String) : Option String :=
  match toks with
  | ["MFWD", name, mode, cap, cursor, inh] =>
    some <| (do
      let t ← (reg.find? (fun (e : String × Table) => e.1 == name)).map (fun (e : String × Table) => e.2)
      let mode ← mode.toNat?
      let cap ← cap.toNat?
      let input ← parseWide inh
      let cur : Option Int ← (if cursor == "-" then some none else cursor.toInt?.map some)
      match Fwd.unsupported t with
      | some why =>
        -- outside F0: the main pass with context rules (ForwardCtx.lean), as a stage of any table
        match FwdC.unsupportedC t with
        | some _ => pure s!"UNSUPPORTED {why}"
        | none =>
          if hasBit mode mCompbrlAtCursor || hasBit mode mCompbrlLeftCursor then pure "UNSUPPORTED compbrl mode" else
          let (cp, cs) : Int × Int := match cur with
            | some c => if c ≥ 0 then (c, 0) else (-1, 1)
            | none => (-1, 1)
          match FwdC.translateC t mode (input.takeWhile (· != 0)) cap cp cs with
          | .done r => pure s!"P {showWide r.out} {showInts r.map} {r.realInlen} {r.cpos} {r.cstat} rules={showRules r.applied}"
          | .fuel => pure "FUEL"
          | .unsupported => pure "UNSUPPORTED instruction outside the fragment"
      | none =>
        if hasBit mode mCompbrlAtCursor || hasBit mode mCompbrlLeftCursor then pure "UNSUPPORTED compbrl mode" else
        let (cp, cs) : Int × Int := match cur with
          | some c => if c ≥ 0 then (c, 0) else (-1, 1)
          | none => (-1, 1)
        let input := input.takeWhile (· != 0)
        let r := Fwd.translate t mode input cap cp cs
        pure s!"P {showWide r.out} {showInts r.map} {r.realInlen} {r.cpos} {r.cstat} rules={showRules r.applied}").getD "BADOP"
  | ["MONETOONE", name] =>
    some <| match reg.find? (fun (e : String × Table) => e.1 == name) with
      | some e => if OneToOne.isOneToOne e.2 then "O2O 1" else "O2O 0"
      | none => "BADOP"
  | ["MBWD", name, mode, cap, cursor, inh] =>
    some <| (do
      let t ← (reg.find? (fun (e : String × Table) => e.1 == name)).map (fun (e : String × Table) => e.2)
      let mode ← mode.toNat?
      let cap ← cap.toNat?
      let input ← parseWide inh
      let cur : Option Int ← (if cursor == "-" then some none else cursor.toInt?.map some)
      match Back.unsupported t with
      | some why =>
        -- outside B0: the backward main pass with context rules (BackwardCtx.lean), as a stage of any table
        match BackC.unsupportedC t with
        | some _ => pure s!"UNSUPPORTED {why}"
        | none =>
          match BackC.translateC t mode (input.takeWhile (· != 0)) cap (cur.getD (-1)) with
          | .done r =>
            let ms := if r.map.isEmpty then "." else ",".intercalate (r.map.map fun (o : Option Int) => match o with | some v => toString v | none => "?")
            pure s!"P {showWide r.out} {ms} {r.realInlen} {r.cpos} {r.cstat} rules={showRules r.applied}"
          | .fuel => pure "FUEL"
          | .failed => pure "FAILED"
          | .unsupported => pure "UNSUPPORTED instruction outside the fragment"
      | none =>
        let input := input.takeWhile (· != 0)
        let r := Back.translate t mode input cap (cur.getD (-1))
        let ms := if r.map.isEmpty then "." else ",".intercalate (r.map.map fun (o : Option Int) => match o with | some v => toString v | none => "?")
        pure s!"P {showWide r.out} {ms} {r.realInlen} {r.cpos} {r.cstat} rules={showRules r.applied}").getD "BADOP"
  | ["MPASS", name, dir, pass, cap, inh] =>
    some <| (do
      let t ← (reg.find? (fun (e : String × Table) => e.1 == name)).map (fun (e : String × Table) => e.2)
      let pass ← pass.toNat?
      let cap ← cap.toNat?
      let input ← parseWide inh
      let r := if dir == "b" then Pass.backStage t pass input cap else Pass.fwdStage t pass input cap
      match r with
      | .unsupported => pure "UNSUPPORTED instruction outside the literal fragment"
      | .fuel => pure "FUEL"
      | .done o =>
        let ms := if o.map.isEmpty then "." else ",".intercalate (o.map.map fun (v : Int) => if v == Pass.unset then "?" else toString v)
        pure s!"P {showWide o.out} {ms} {o.realInlen} rules={",".intercalate (o.applied.map toString)}").getD "BADOP"
  | ["MCALL", dir, name, mode, outcap, cursor, argmask, inh, tfh, disp] =>
    -- the whole call from the model alone: same answer format as TRACE (Proto.lean)
    some <| (do
      let t ← (reg.find? (fun (e : String × Table) => e.1 == name)).map (fun (e : String × Table) => e.2)
      let mode ← mode.toNat?
      let outcap ← outcap.toNat?
      let argmask ← argmask.toNat?
      let inb ← parseWide inh
      let tf ← if tfh == "-" then some [] else parseWide tfh
      let pairs ← Proto.parsePairs disp
      let cur : Option Int ← (if cursor == "-" then some none else cursor.toInt?.map some)
      let a : Drv.Args := {
        inbuf := inb, outlen := outcap, mode := mode,
        typeform := if hasBit argmask 1 then some tf else none,
        spacing := if hasBit argmask 2 then some [] else none,
        wantOutputPos := hasBit argmask 4, wantInputPos := hasBit argmask 8,
        cursor := if hasBit argmask 16 then cur else none }
      let r := if dir == "F" then Engine.callFwd t (Proto.lookupFn pairs 0) a else Engine.callBack t (Proto.lookupFn pairs 0) a
      match r with
      | .error why => pure s!"UNSUPPORTED {why}"
      | .ok (res, h) =>
        let ins := String.join (h.map fun (x : Drv.PassIn × Drv.PassOut) => s!" | I {x.1.passNo} {showWide x.1.chars} {x.1.maxlen}")
        pure (Proto.showResult res (dir == "F") ++ ins ++ s!" | N {h.length} EOK=1 NN=1 F=")).getD "BADOP"
  | ["MPASSCHK", name] =>
    some <| match reg.find? (fun (e : String × Table) => e.1 == name) with
      | some e => match Pass.passTableOK e.2 with
        | [] => "PK ok"
        | bad => "PK " ++ " ".intercalate bad
      | none => "BADOP"
  | _ => none

end Lou.EngineProto
