/-
  ImageProto.lean — protocol operations of C12 / C15.
    MCHECKTABLE <DUMP body> [|| L <value>:<linked>,…]     → `CK ok` | `CK <n> <violation> …`
    MCHECKIMAGE <one part of RAWDUMP> || O <off> <size> …  → `CK ok` | `CK <n> <violation> …`
    MARENA <headerSize> <startTableSize> <size | r<size>>*  → `AR <offset>:<tableSize> …`  (one entry per allocation;
                                                              `r<size>` = a reservation, i.e. a call with offset == NULL)
    MADDSEQ <k> <entry>*    (C15) the first k entries are compiled (`compileUnfinalised`), the others are added one by one with
                            `compileString`                  → `AS <return values as 0/1, or .> | <canonical logical table>` | `AS null`
    MADDFINAL <k> <entry>*  the same after finalisation (`compile`) → `AF <return values> same|changed`
-/
import LouModel.Image
import LouModel.EngineProto

namespace Lou.ImageProto
open Lou Lou.Image

/-! ### a DUMP parser that does not append at the end of lists (shipped tables have 40 000 rules) -/

structure Acc where
  rules : List Rule := []
  chars : List CharRec := []
  dots : List DotsRec := []
  forB : List (Nat × List Nat) := []
  backB : List (Nat × List Nat) := []
  forPass : List (Nat × List Nat) := []
  backPass : List (Nat × List Nat) := []
  emph : List (Nat × Nat × Nat) := []

def accRec (a : Acc) (toks : List String) : Option Acc :=
  match toks with
  | ["R", i, op, ch, ds, af, be, nc, hp] => do
    let i ← i.toNat?
    let op ← op.toNat?
    let ch ← parseWide ch
    let ds ← parseWide ds
    let af ← hexN? af
    let be ← hexN? be
    pure { a with rules := { idx := i, opcode := op, chars := ch, dots := ds, after := af, before := be,
                              nocross := nc != "0", hasPatterns := hp != "0" } :: a.rules }
  | ["E", c, s, v] =>
    if v.startsWith "n" then some a else do
      pure { a with emph := (← c.toNat?, ← s.toNat?, ← v.toNat?) :: a.emph }
  | ["C", v, att, md, df, cp, bs, chn] => do
    let v ← hexN? v
    let att ← hexN? att
    let md ← hexN? md
    let df ← optIdx df
    let cp ← optIdx cp
    let bs ← if bs == "-" then some none else (hexN? bs).map some
    let chn ← parseChain chn
    pure { a with chars := { value := v, attrs := att, mode := md, defRule := df, compRule := cp, base := bs, chain := chn } :: a.chars }
  | ["D", v, att, df, chn] => do
    let v ← hexN? v
    let att ← hexN? att
    let df ← optIdx df
    let chn ← parseChain chn
    pure { a with dots := { value := v, attrs := att, defRule := df, chain := chn } :: a.dots }
  | ["F", h, chn] => do pure { a with forB := (← h.toNat?, ← parseChain chn) :: a.forB }
  | ["B", h, chn] => do pure { a with backB := (← h.toNat?, ← parseChain chn) :: a.backB }
  | ["FP", h, chn] => do pure { a with forPass := (← h.toNat?, ← parseChain chn) :: a.forPass }
  | ["BP", h, chn] => do pure { a with backPass := (← h.toNat?, ← parseChain chn) :: a.backPass }
  | _ => none

def parseDumpFast (line : String) : Option Table :=
  match line.splitOn " | " with
  | [] => none
  | hd :: recs =>
    match (hd.splitOn " ").filter (· != "") with
    | ["T", np, co, fi, us, un, cn, sy, ud, ls, ns, nc, nn, bc, ec, hy, rc] => do
      let a ← recs.foldlM (fun a r => accRec a ((r.splitOn " ").filter (· != ""))) ({} : Acc)
      pure {
        numPasses := ← np.toNat?, corrections := co != "0", finalized := fi != "0", usesSequences := us != "0",
        usesNumericMode := un != "0", capsNoCont := cn != "0", syllables := sy != "0",
        undefined := ← optIdx ud, letterSign := ← optIdx ls, numberSign := ← optIdx ns, noContractSign := ← optIdx nc,
        noNumberSign := ← optIdx nn, begComp := ← optIdx bc, endComp := ← optIdx ec, hyph := hy != "0",
        ruleCounter := ← rc.toNat?,
        rules := a.rules.reverse, chars := a.chars.reverse, dots := a.dots.reverse, forB := a.forB.reverse,
        backB := a.backB.reverse, forPass := a.forPass.reverse, backPass := a.backPass.reverse, emph := a.emph.reverse }
    | _ => none

def parseLinked (s : String) : Option (List (Nat × Nat)) :=
  match (s.splitOn " ").filter (· != "") with
  | ["L", "."] => some []
  | ["L", body] => (body.splitOn ",").mapM fun p =>
      match p.splitOn ":" with
      | [a, b] => do pure (← hexN? a, ← hexN? b)
      | _ => none
  | [] => some []
  | _ => none

def showCK (vs : List String) : String :=
  if vs.isEmpty then "CK ok" else s!"CK {vs.length} " ++ " ".intercalate (vs.take 12)

/-! ### raw image -/

def parseRaw (part : String) : Option RawImage :=
  match part.splitOn " | " with
  | [] => none
  | hd :: recs =>
    match (hd.splitOn " ").filter (· != "") with
    | "RAW" :: _ :: hs :: used :: size :: _ => do
      let (refs, anoms) ← recs.foldlM (fun (acc : List Ref × List String) r =>
        match (r.splitOn " ").filter (· != "") with
        | ["r", kind, off, need, opc, ex, via] => do
          let k ← Kind.ofName? kind
          pure ({ kind := k, off := ← off.toNat?, need := (need.toInt?.getD 0).toNat, opcode := (opc.toInt?.getD 0).toNat,
                  expect := ← ex.toNat?, via := via } :: acc.1, acc.2)
        | "X" :: rest => pure (acc.1, ":".intercalate rest :: acc.2)
        | "L" :: _ => pure acc
        | _ => none) (([], []) : List Ref × List String)
      pure { headerSize := ← hs.toNat?, bytesUsed := ← used.toNat?, tableSize := ← size.toNat?,
             refs := refs.reverse, anomalies := anoms.reverse }
    | _ => none

def parseObjs : List String → Option (List Obj)
  | [] => some []
  | off :: size :: rest => do
    let o : Obj := { off := ← off.toNat?, size := ← size.toNat? }
    let l ← parseObjs rest
    pure (o :: l)
  | _ => none

def parseEv (s : String) : Option Ev :=
  if s.startsWith "r" then (s.drop 1).toNat?.map Ev.reserve else s.toNat?.map Ev.alloc

/-- offsets (with the table size after the call) the model allocator hands out -/
def arenaTrace (a : Arena) : List Ev → List String
  | [] => []
  | .reserve s :: rest => arenaTrace (a.reserve s) rest
  | .alloc s :: rest =>
    let (a', off) := a.alloc s
    s!"{off}:{a'.tableSize}" :: arenaTrace a' rest

/-- `lou_compileString` for each rule in turn (the executable twin of `Lou.C15.addSeq`) -/
def addSeq (t : Table) : List Compile.Entry → Table × List Bool
  | [] => (t, [])
  | e :: es =>
    let r := Compile.compileString t e
    let rest := addSeq r.2 es
    (rest.1, r.1 :: rest.2)

def showFlags (l : List Bool) : String := if l.isEmpty then "." else String.ofList (l.map fun b => if b then '1' else '0')

def handle? (toks : List String) : Option String :=
  match toks with
  | "MADDSEQ" :: k :: ents =>
    some <| (do
      let k ← k.toNat?
      let es ← ents.mapM EngineProto.parseEntry
      match Compile.compileUnfinalised (es.take k) with
      | none => pure "AS null"
      | some t =>
        let r := addSeq t (es.drop k)
        pure s!"AS {showFlags r.2} | {EngineProto.showTable r.1}").getD "BADOP"
  | "MADDFINAL" :: k :: ents =>
    some <| (do
      let k ← k.toNat?
      let es ← ents.mapM EngineProto.parseEntry
      match Compile.compile (es.take k) with
      | none => pure "AF null"
      | some t =>
        let r := addSeq t (es.drop k)
        pure s!"AF {showFlags r.2} {if EngineProto.showTable r.1 == EngineProto.showTable t then "same" else "changed"}").getD "BADOP"
  | "MCHECKTABLE" :: rest =>
    let body := " ".intercalate rest
    if (body.splitOn ",LOOP").length > 1 then some "CK 1 chain:loop" else
    some <| (do
      let parts := body.splitOn " || "
      let t ← parseDumpFast (parts.getD 0 "")
      let linked ← parseLinked (parts.getD 1 "")
      pure (showCK (checkTable t linked))).getD "BADOP"
  | "MCHECKIMAGE" :: rest =>
    let body := " ".intercalate rest
    some <| (do
      let parts := body.splitOn " || "
      let img ← parseRaw (parts.getD 0 "")
      let objs ← match ((parts.getD 1 "").splitOn " ").filter (· != "") with
        | "O" :: l => parseObjs l
        | _ => none
      pure (showCK (checkImage { img with objs := objs }))).getD "BADOP"
  | "MARENA" :: hs :: start :: evs =>
    some <| (do
      let hs ← hs.toNat?
      let start ← start.toNat?
      let evs ← evs.mapM parseEv
      let tr := arenaTrace (Arena.init hs start) evs
      pure ("AR " ++ (if tr.isEmpty then "." else " ".intercalate tr))).getD "BADOP"
  | _ => none

end Lou.ImageProto
