/-
  OneToOne.lean — the structural bijectivity test of property C11, on the logical table:
  every character of the table has exactly one rule, a single-cell definition; every cell has
  exactly one rule, the definition of a single character; the two directions agree; there are no
  multi-character / multi-cell rules, no indicators, no multipass rules.
-/
import LouModel.Table
import LouModel.Forward
import LouModel.Backward

namespace Lou.OneToOne
open Lou Lou.Gen

def isDefOp (op : Nat) : Bool := CTO_Space ≤ op && op < CTO_UpLow && op != CTO_Grouping

/-- the character record is "one definition rule with one cell" -/
def charOK (t : Table) (c : CharRec) : Bool :=
  match c.chain with
  | [i] =>
    (match t.rule? i with
     | some r => isDefOp r.opcode && r.chars == [c.value] && r.dots.length == 1 && c.defRule == some i &&
                 c.base.isNone && c.compRule.isNone && c.mode == 0 &&
                 -- the cell points back
                 (match r.dots with
                  | [d] => (match t.dots? d with
                            | some dr => dr.chain == [i] && dr.defRule == some i
                            | none => false)
                  | _ => false)
     | none => false)
  | _ => false

def dotsOK (t : Table) (d : DotsRec) : Bool :=
  match d.chain with
  | [i] =>
    (match t.rule? i with
     | some r => isDefOp r.opcode && r.dots == [d.value] && r.chars.length == 1 && d.defRule == some i &&
                 (match r.chars with
                  | [c] => (match t.char? c with
                            | some cr => cr.chain == [i]
                            | none => false)
                  | _ => false)
     | none => false)
  | _ => false

/-- the structural test -/
def isOneToOne (t : Table) : Bool :=
  t.numPasses == 1 && !t.corrections && t.forB.all (·.2.isEmpty) && t.backB.all (·.2.isEmpty) &&
  t.forPass.all (·.2.isEmpty) && t.backPass.all (·.2.isEmpty) && t.emph.isEmpty &&
  t.numberSign.isNone && t.letterSign.isNone && t.noContractSign.isNone && t.noNumberSign.isNone &&
  t.undefined.isNone && !t.usesSequences && !t.usesNumericMode && !t.syllables &&
  t.chars.all (charOK t) && t.dots.all (dotsOK t) &&
  t.rules.all (fun r => isDefOp r.opcode && r.after == 0 && r.before == 0 && !r.nocross && !r.hasPatterns)

end Lou.OneToOne
