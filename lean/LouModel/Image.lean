/-
  Image.lean — C12: the compiled table image.

  * `Arena`: the bump allocator `allocateSpaceInTranslationTable` / `allocateSpaceInDisplayTable`
    (compileTranslationTable.c:429-499) as a state machine.  Offsets are `TranslationTableOffset`
    units (8 bytes).  Coordinates: the allocator's own — the object with offset `off` occupies
    `[headerSize + 8*off, headerSize + 8*off + ceil8 size)` and everything handed out lies in
    `[headerSize + 8, bytesUsed)`.  (In memory `ruleArea[0]` is the last 8 bytes of the header, so
    real addresses are these minus 8; disjointness and bounds do not depend on that shift.)
  * `RawImage`: header numbers + the allocated objects (hook H3, allocation order) + every stored
    reference with the kind and size its layout needs (harness op RAWDUMP), and `checkImage`.
  * `checkTable`: the clauses of C12 that are about rules, decided on the logical table (`DUMP`).

  The checkers return the list of violations; `LouProofs/C12.lean` proves `[]` ⇒ the readable
  `Prop`s `ImageConsistent` / `TableConsistent`.
-/
import LouModel.Table
import LouModel.Compile

namespace Lou.Image
open Lou Lou.Gen Lou.Compile

/-! ## the allocator -/

def ceil8 (n : Nat) : Nat := (n + 7) / 8 * 8

structure Obj where
  off : Nat      -- TranslationTableOffset units (8 bytes from ruleArea)
  size : Nat     -- bytes requested
  deriving Repr, DecidableEq, Inhabited

structure Arena where
  headerSize : Nat
  tableSize : Nat
  bytesUsed : Nat
  objs : List Obj := []     -- most recent allocation first
  deriving Repr, Inhabited

/-- `allocateTranslationTable` (501-518): `bytesUsed = sizeof(header) + OFFSETSIZE` "so no offset is ever zero" -/
def Arena.init (headerSize startSize : Nat) : Arena :=
  { headerSize := headerSize, tableSize := startSize, bytesUsed := headerSize + 8 }

/-- the growth step (432-453); also what a call with `offset == NULL` does (compileHyphenation's
    `allocateSpaceInTranslationTable(file, NULL, 250000, table)`) -/
def Arena.reserve (a : Arena) (size : Nat) : Arena :=
  let need := a.bytesUsed + ceil8 size
  if need > a.tableSize then { a with tableSize := need + need / 8 } else a

/-- one allocation: the new state and the offset handed out -/
def Arena.alloc (a : Arena) (size : Nat) : Arena × Nat :=
  let a := a.reserve size
  let off := (a.bytesUsed - a.headerSize) / 8
  ({ a with bytesUsed := a.bytesUsed + ceil8 size, objs := { off := off, size := size } :: a.objs }, off)

inductive Ev where
  | alloc (size : Nat)
  | reserve (size : Nat)
  deriving Repr, DecidableEq

def Arena.step (a : Arena) : Ev → Arena
  | .alloc s => (a.alloc s).1
  | .reserve s => a.reserve s

def Arena.run (a : Arena) (evs : List Ev) : Arena := evs.foldl Arena.step a

/-- first byte / one past the last byte of an object, allocator coordinates -/
def Obj.start (hs : Nat) (o : Obj) : Nat := hs + 8 * o.off
def Obj.stop (hs : Nat) (o : Obj) : Nat := hs + 8 * o.off + ceil8 o.size

/-! ## a verified index: key ↦ value through an array -/

def Index.build {α : Type} (n : Nat) (l : List (Nat × α)) : Array (Option (Nat × α)) :=
  l.foldl (fun a kv => a.setIfInBounds kv.1 (some kv)) (Array.replicate n none)

def Index.get {α : Type} (a : Array (Option (Nat × α))) (k : Nat) : Option α :=
  match a[k]? with
  | some (some kv) => if kv.1 == k then some kv.2 else none
  | _ => none

/-! ## raw image -/

inductive Kind where
  | rule | char | dots | pattern | hstates | htrans | hpattern | cdmap
  deriving Repr, DecidableEq, Inhabited

def Kind.name : Kind → String
  | .rule => "rule" | .char => "char" | .dots => "dots" | .pattern => "pattern" | .hstates => "hstates"
  | .htrans => "htrans" | .hpattern => "hpattern" | .cdmap => "cdmap"

def Kind.ofName? : String → Option Kind
  | "rule" => some .rule | "char" => some .char | "dots" => some .dots | "pattern" => some .pattern
  | "hstates" => some .hstates | "htrans" => some .htrans | "hpattern" => some .hpattern | "cdmap" => some .cdmap
  | _ => none

/-- one stored reference: the offset found in a field of the image, the kind of object the field is
    declared to designate, the bytes that object's layout needs (from its own contents), for rules
    the opcode found there, and what the referring field expects (0 anything, 1 a `grouping` rule,
    2 a swap rule, 1000 + n a rule of opcode n) -/
structure Ref where
  kind : Kind
  off : Nat
  need : Nat
  opcode : Nat := 0
  expect : Nat := 0
  via : String := ""
  deriving Repr, Inhabited

structure RawImage where
  headerSize : Nat
  bytesUsed : Nat
  tableSize : Nat
  objs : List Obj := []
  refs : List Ref := []
  anomalies : List String := []
  deriving Repr, Inhabited

/-- objects in allocation order: each starts at or after `lo`, ends inside the used part, the next
    one starts at or after its end -/
def objsOK (hs used : Nat) : Nat → List Obj → Bool
  | _, [] => true
  | lo, o :: rest => decide (lo ≤ o.start hs) && decide (o.stop hs ≤ used) && objsOK hs used (o.stop hs) rest

def expectOK (r : Ref) : Bool :=
  if r.expect == 1 then r.opcode == CTO_Grouping
  else if r.expect == 2 then r.opcode == CTO_SwapCc || r.opcode == CTO_SwapCd || r.opcode == CTO_SwapDd
  else if r.expect ≥ 1000 then r.opcode + 1000 == r.expect    -- an indicator slot: exactly the opcode the slot is for
  else true

/-- classification of one reference against the object index: `none` = fine -/
def refProblem (ix : Array (Option (Nat × Nat))) (r : Ref) : Option String :=
  if r.off == 0 then some "zero" else
  match Index.get ix r.off with
  | none => some "notobject"
  | some size => if r.need ≤ size then (if expectOK r then none else some "wrongkind") else some "short"

def viaClass (via : String) : String × String :=
  match via.splitOn ":" with
  | ["passref", what] => ("passref", what)
  | _ => ("ref", via)

def refMessage (r : Ref) (problem : String) : String :=
  let (cls, what) := viaClass r.via
  if cls == "passref" then s!"passref:{problem}:{what}:off={r.off}:need={r.need}:opcode={r.opcode}"
  else s!"ref:{problem}:{r.kind.name}:{what}:off={r.off}:need={r.need}"

def firstBadObj (hs used : Nat) : Nat → List Obj → String
  | _, [] => "objects:?"
  | lo, o :: rest =>
    if o.off == 0 then s!"objects:offset-zero:off={o.off}:size={o.size}"
    else if !(decide (lo ≤ o.start hs)) then s!"objects:overlap:off={o.off}:size={o.size}:previous-end={lo}"
    else if !(decide (o.stop hs ≤ used)) then s!"objects:outside-used:off={o.off}:size={o.size}:used={used}"
    else firstBadObj hs used (o.stop hs) rest

def indexSize (img : RawImage) : Nat := (img.bytesUsed - img.headerSize) / 8 + 2

def objIndex (img : RawImage) : Array (Option (Nat × Nat)) :=
  Index.build (indexSize img) (img.objs.map fun o => (o.off, o.size))

def kindIndex (img : RawImage) : Array (Option (Nat × Kind)) :=
  Index.build (indexSize img) (img.refs.map fun r => (r.off, r.kind))

def kindProblem (kx : Array (Option (Nat × Kind))) (r : Ref) : Bool :=
  r.off != 0 && Index.get kx r.off != some r.kind

/-- **the raw-image checker**: the list of violations (empty = consistent) -/
def checkImage (img : RawImage) : List String :=
  let ox := objIndex img
  let kx := kindIndex img
  (if img.bytesUsed ≤ img.tableSize then [] else [s!"image:used-exceeds-size:{img.bytesUsed}:{img.tableSize}"]) ++
  (if img.headerSize % 8 == 0 then [] else [s!"image:header-unaligned:{img.headerSize}"]) ++
  (if objsOK img.headerSize img.bytesUsed (img.headerSize + 8) img.objs then []
   else [firstBadObj img.headerSize img.bytesUsed (img.headerSize + 8) img.objs]) ++
  (img.refs.filterMap fun r => (refProblem ox r).map (refMessage r)) ++
  ((img.refs.filter (kindProblem kx)).map fun r => s!"ref:twokinds:{r.kind.name}:{r.via}:off={r.off}") ++
  (img.anomalies.map fun a => "anomaly:" ++ a)

/-! ## the logical table: clauses about rules -/

def isPassOpcode (op : Nat) : Bool := CTO_Context ≤ op && op ≤ CTO_Pass4

/-- the cells a rule is filed under in the backward direction (addRule, 1076-1082) -/
def backCells (r : Rule) : List Nat := if r.opcode == CTO_Context then r.chars else r.dots

def clearBit (x b : Nat) : Nat := x ^^^ (x &&& b)

/-- walk of the `linked` list in `toLowercase` (utils.c:111-137) -/
def lowerWalk (t : Table) (linked : List (Nat × Nat)) (want : Nat) : Nat → Nat → Option Nat
  | 0, _ => none
  | fuel + 1, v =>
    match t.char? v with
    | none => none
    | some c =>
      if c.mode &&& want == want then some c.value
      else match linked.find? (·.1 == v) with
        | some (_, nxt) => lowerWalk t linked want fuel nxt
        | none => none

/-- `toLowercase` (utils.c:111-137): the value used for hashing input and `context` rules -/
def toLowercase (t : Table) (linked : List (Nat × Nat)) (c : Nat) : Nat :=
  match t.char? c with
  | none => c
  | some cr =>
    if cr.mode &&& CTC_UpperCase != 0 then
      let start := match cr.base with | some b => b | none => cr.value
      (lowerWalk t linked (clearBit cr.mode CTC_UpperCase) (t.chars.length + 1) start).getD cr.value
    else cr.value

def foldedHash (t : Table) (linked : List (Nat × Nat)) (a b : Nat) : Nat :=
  (toLowercase t linked a * 256 + toLowercase t linked b) % HASHNUM

/-- the bucket the forward lookups visit for a rule: `context` rules are re-filed under the
    case-folded hash by `finalizeTable` (4529-4564); everything else stays under the raw hash -/
def fwdHash (t : Table) (linked : List (Nat × Nat)) (r : Rule) : Nat :=
  if r.opcode == CTO_Context && t.finalized then foldedHash t linked (r.chars.getD 0 0) (r.chars.getD 1 0)
  else rawHash (r.chars.getD 0 0) (r.chars.getD 1 0)

def backHash (r : Rule) : Nat := rawHash ((backCells r).getD 0 0) ((backCells r).getD 1 0)

/-- `a` may stand before `b` in a character's chain: non-definition rules (definition order) before
    definition rules (definition order) -/
def charLeB (a b : Rule) : Bool :=
  (!isDefOpcode a.opcode && isDefOpcode b.opcode) ||
  (isDefOpcode a.opcode == isDefOpcode b.opcode && decide (a.idx < b.idx))

/-- pass chains: decreasing length of the leading literal, definition order among equals -/
def passLeB (a b : Rule) : Bool :=
  decide (a.chars.length > b.chars.length) || (a.chars.length == b.chars.length && decide (a.idx < b.idx))

/-- forward multi-character chains (= `Lou.Chain.le`, as a Bool) -/
def fwdLeB (a b : Rule) : Bool :=
  let cls (r : Rule) : Nat := if r.opcode == CTO_Always then 1 else 0
  decide (a.chars.length > b.chars.length) ||
  (a.chars.length == b.chars.length && (decide (cls a < cls b) || (cls a == cls b && decide (a.idx < b.idx))))

def pairwiseB {α : Type} (le : α → α → Bool) : List α → Bool
  | [] => true
  | a :: l => l.all (le a) && pairwiseB le l

def nodupB : List Nat → Bool
  | [] => true
  | a :: l => !l.contains a && nodupB l

/-- strictly increasing rule indices, all below `hi` … `lo ≤ idx` of the first -/
def idxAscending : Nat → List Rule → Bool
  | _, [] => true
  | lo, r :: rest => decide (lo ≤ r.idx) && idxAscending (r.idx + 1) rest

def passOpcodeOf (p : Nat) : Nat :=
  if p == 0 then CTO_Correct else if p == 1 then CTO_Context else if p == 2 then CTO_Pass2
  else if p == 3 then CTO_Pass3 else CTO_Pass4

structure Ctx where
  t : Table
  linked : List (Nat × Nat)
  ix : Array (Option (Nat × Rule))

def ruleIndex (t : Table) : Array (Option (Nat × Rule)) :=
  Index.build t.ruleCounter (t.rules.map fun r => (r.idx, r))

def mkCtx (t : Table) (linked : List (Nat × Nat)) : Ctx := { t := t, linked := linked, ix := ruleIndex t }

def Ctx.res (cx : Ctx) (i : Nat) : Option Rule := Index.get cx.ix i

def optList (o : Option Nat) : List Nat := match o with | some i => [i] | none => []

/-- every rule index stored anywhere in the logical table, with the place it was found -/
def allRuleRefs (t : Table) : List (String × Nat) :=
  (t.chars.map fun c => (c.chain.map fun i => ("charchain", i)) ++ ((optList c.defRule).map fun i => ("chardef", i)) ++
      ((optList c.compRule).map fun i => ("charcomp", i))).flatten ++
  (t.dots.map fun d => (d.chain.map fun i => ("dotschain", i)) ++ ((optList d.defRule).map fun i => ("dotsdef", i))).flatten ++
  (t.forB.map fun b => b.2.map fun i => ("forbucket", i)).flatten ++
  (t.backB.map fun b => b.2.map fun i => ("backbucket", i)).flatten ++
  (t.forPass.map fun b => b.2.map fun i => ("forpass", i)).flatten ++
  (t.backPass.map fun b => b.2.map fun i => ("backpass", i)).flatten ++
  (t.emph.map fun e => ("emph", e.2.2)) ++
  ((optList t.undefined).map fun i => ("undefined", i)) ++ ((optList t.letterSign).map fun i => ("letsign", i)) ++
  ((optList t.numberSign).map fun i => ("numsign", i)) ++ ((optList t.noContractSign).map fun i => ("nocontractsign", i)) ++
  ((optList t.noNumberSign).map fun i => ("nonumsign", i)) ++ ((optList t.begComp).map fun i => ("begcomp", i)) ++
  ((optList t.endComp).map fun i => ("endcomp", i))

def allChains (t : Table) : List (String × List Nat) :=
  (t.chars.map fun c => (s!"charchain:{hex4 c.value}", c.chain)) ++
  (t.dots.map fun d => (s!"dotschain:{hex4 d.value}", d.chain)) ++
  (t.forB.map fun b => (s!"forbucket:{b.1}", b.2)) ++ (t.backB.map fun b => (s!"backbucket:{b.1}", b.2)) ++
  (t.forPass.map fun b => (s!"forpass:{b.1}", b.2)) ++ (t.backPass.map fun b => (s!"backpass:{b.1}", b.2))

def fwdMemberOK (cx : Ctx) (h : Nat) (r : Rule) : Bool :=
  decide (2 ≤ r.chars.length) && fwdHash cx.t cx.linked r == h

def backMemberOK (h : Nat) (r : Rule) : Bool :=
  decide (2 ≤ (backCells r).length) && backHash r == h && r.opcode != CTO_SwapCc

def charMemberOK (c : CharRec) (r : Rule) : Bool := r.chars == [c.value]

def dotsMemberOK (d : DotsRec) (r : Rule) : Bool :=
  backCells r == [d.value] && r.opcode != CTO_SwapCc && r.opcode != CTO_Repeated

def charDefOK (c : CharRec) (r : Rule) : Bool := isDefOpcode r.opcode && r.chars == [c.value]
def dotsDefOK (d : DotsRec) (r : Rule) : Bool := isDefOpcode r.opcode && r.dots == [d.value]
def charCompOK (c : CharRec) (r : Rule) : Bool :=
  (r.opcode == CTO_CompDots || r.opcode == CTO_Comp6) && r.chars == [c.value]

def passMemberOK (p : Nat) (r : Rule) : Bool :=
  r.opcode == passOpcodeOf p && (p != 1 || r.chars.isEmpty)

def resolved (cx : Ctx) (chain : List Nat) : List Rule := chain.filterMap cx.res

def optAll (cx : Ctx) (o : Option Nat) (p : Rule → Bool) : Bool :=
  match o with
  | none => true
  | some i => match cx.res i with | some r => p r | none => true

/-- the individual clauses, as Booleans (the `Prop`s are in LouProofs/C12.lean) -/
def cRulesSorted (t : Table) : Bool := idxAscending 0 t.rules
def cRulesBelowCounter (t : Table) : Bool := t.rules.all fun r => decide (r.idx < t.ruleCounter)

def Ctx.ok (cx : Ctx) (i : Nat) : Bool := (cx.res i).isSome
def Ctx.okOpt (cx : Ctx) (o : Option Nat) : Bool := match o with | none => true | some i => cx.ok i

def cResolve (cx : Ctx) : Bool :=
  (cx.t.chars.all fun c => c.chain.all cx.ok && cx.okOpt c.defRule && cx.okOpt c.compRule) &&
  (cx.t.dots.all fun d => d.chain.all cx.ok && cx.okOpt d.defRule) &&
  (cx.t.forB.all fun b => b.2.all cx.ok) && (cx.t.backB.all fun b => b.2.all cx.ok) &&
  (cx.t.forPass.all fun b => b.2.all cx.ok) && (cx.t.backPass.all fun b => b.2.all cx.ok) &&
  (cx.t.emph.all fun e => cx.ok e.2.2) &&
  cx.okOpt cx.t.undefined && cx.okOpt cx.t.letterSign && cx.okOpt cx.t.numberSign && cx.okOpt cx.t.noContractSign &&
  cx.okOpt cx.t.noNumberSign && cx.okOpt cx.t.begComp && cx.okOpt cx.t.endComp

def cNodup (t : Table) : Bool :=
  (t.chars.all fun c => nodupB c.chain) && (t.dots.all fun d => nodupB d.chain) &&
  (t.forB.all fun b => nodupB b.2) && (t.backB.all fun b => nodupB b.2) &&
  (t.forPass.all fun b => nodupB b.2) && (t.backPass.all fun b => nodupB b.2)

def cKeys (t : Table) : Bool :=
  nodupB (t.forB.map (·.1)) && nodupB (t.backB.map (·.1)) && nodupB (t.forPass.map (·.1)) && nodupB (t.backPass.map (·.1)) &&
  (t.forB.all fun b => decide (b.1 < HASHNUM)) && (t.backB.all fun b => decide (b.1 < HASHNUM)) &&
  (t.forPass.all fun b => decide (b.1 ≤ 4)) && (t.backPass.all fun b => decide (b.1 ≤ 4))
def cFwdMember (cx : Ctx) : Bool := cx.t.forB.all fun b => (resolved cx b.2).all (fwdMemberOK cx b.1)
def cBackMember (cx : Ctx) : Bool := cx.t.backB.all fun b => (resolved cx b.2).all (backMemberOK b.1)
def cCharMember (cx : Ctx) : Bool := cx.t.chars.all fun c => (resolved cx c.chain).all (charMemberOK c)
def cDotsMember (cx : Ctx) : Bool := cx.t.dots.all fun d => (resolved cx d.chain).all (dotsMemberOK d)
def cCharDef (cx : Ctx) : Bool := cx.t.chars.all fun c => optAll cx c.defRule (charDefOK c) && optAll cx c.compRule (charCompOK c)
def cDotsDef (cx : Ctx) : Bool := cx.t.dots.all fun d => optAll cx d.defRule (dotsDefOK d)
def cCharBase (t : Table) : Bool := t.chars.all fun c => match c.base with | none => true | some b => t.chars.any (·.value == b)
def cFwdOrder (cx : Ctx) : Bool := cx.t.forB.all fun b => pairwiseB fwdLeB (resolved cx b.2)
def cCharOrder (cx : Ctx) : Bool := cx.t.chars.all fun c => pairwiseB charLeB (resolved cx c.chain)
def cForPassMember (cx : Ctx) : Bool := cx.t.forPass.all fun b => (resolved cx b.2).all (passMemberOK b.1)
def cBackPassMember (cx : Ctx) : Bool := cx.t.backPass.all fun b => (resolved cx b.2).all (passMemberOK b.1)
def cForPassOrder (cx : Ctx) : Bool := cx.t.forPass.all fun b => pairwiseB passLeB (resolved cx b.2)
def cBackPassOrder (cx : Ctx) : Bool := cx.t.backPass.all fun b => pairwiseB passLeB (resolved cx b.2)
/-- every character and every cell of a character definition that is linked anywhere has its record in the
    character / cell buckets (compileCharDef files both before it adds the rule): a lookup of the cell finds it -/
def defFoundOK (t : Table) (r : Rule) : Bool :=
  !isDefOpcode r.opcode ||
    (r.chars.all (fun c => t.chars.any (·.value == c)) && r.dots.all (fun d => t.dots.any (·.value == d)))
def cDefFound (t : Table) : Bool := t.rules.all (defFoundOK t)

/-! diagnostics (strings only; not used by the proofs) -/

def firstBadPair {α : Type} (le : α → α → Bool) (sh : α → String) : List α → String
  | [] => "?"
  | a :: l => match l.find? (fun b => !le a b) with
    | some b => s!"{sh a},{sh b}"
    | none => firstBadPair le sh l

def diagList {α : Type} (tag : String) (l : List α) (bad : α → Option String) : List String :=
  match l.findSome? bad with
  | some m => [tag ++ ":" ++ m]
  | none => [tag]

def shRule (r : Rule) : String := s!"{r.idx}/{r.opcode}/{showWide r.chars}"

/-- a clause of the checker: nothing when it holds, a non-empty diagnostic when it does not -/
def clause (ok : Bool) (msg : Unit → List String) : List String :=
  if ok then [] else (msg ()).headD "?" :: (msg ()).tail

/-- **the logical-table checker**: the list of violated clauses (empty = consistent).
    `linked`: the `linked` field of the character records (value ↦ value), which DUMP does not print -/
def checkTable (t : Table) (linked : List (Nat × Nat)) : List String :=
  let cx := mkCtx t linked
  clause (cRulesSorted t) (fun _ => ["rules:index-order"]) ++
  clause (cRulesBelowCounter t) (fun _ => ["rules:index-beyond-counter"]) ++
  clause (cResolve cx) (fun _ => diagList "resolve" (allRuleRefs t) fun x => if (cx.res x.2).isSome then none else some s!"{x.1}:idx={x.2}") ++
  clause (cNodup t) (fun _ => diagList "chain:duplicate" (allChains t) fun c => if nodupB c.2 then none else some c.1) ++
  clause (cKeys t) (fun _ => ["bucket:keys"]) ++
  clause (cFwdMember cx) (fun _ => diagList "bucket:forward" t.forB fun b =>
      ((resolved cx b.2).find? fun r => !fwdMemberOK cx b.1 r).map fun r => s!"{if r.opcode == CTO_Context then "context" else "rule"}:bucket={b.1}:rule={shRule r}:expected={fwdHash t linked r}") ++
  clause (cBackMember cx) (fun _ => diagList "bucket:backward" t.backB fun b =>
      ((resolved cx b.2).find? fun r => !backMemberOK b.1 r).map fun r => s!"rule:bucket={b.1}:rule={shRule r}:expected={backHash r}") ++
  clause (cCharMember cx) (fun _ => diagList "member:charchain" t.chars fun c =>
      ((resolved cx c.chain).find? fun r => !charMemberOK c r).map fun r => s!"char={hex4 c.value}:rule={shRule r}") ++
  clause (cDotsMember cx) (fun _ => diagList "member:dotschain" t.dots fun d =>
      ((resolved cx d.chain).find? fun r => !dotsMemberOK d r).map fun r => s!"cell={hex4 d.value}:rule={shRule r}") ++
  clause (cCharDef cx) (fun _ => diagList "definitionrule:char" t.chars fun c =>
      if optAll cx c.defRule (charDefOK c) && optAll cx c.compRule (charCompOK c) then none else some s!"char={hex4 c.value}") ++
  clause (cDotsDef cx) (fun _ => diagList "definitionrule:dots" t.dots fun d =>
      if optAll cx d.defRule (dotsDefOK d) then none else some s!"cell={hex4 d.value}") ++
  clause (cCharBase t) (fun _ => ["resolve:basechar"]) ++
  clause (cFwdOrder cx) (fun _ => diagList "order:forward" t.forB fun b =>
      if pairwiseB fwdLeB (resolved cx b.2) then none
      else some s!"{if (resolved cx b.2).any (·.opcode == CTO_Context) then "context" else "rule"}:bucket={b.1}:{firstBadPair fwdLeB shRule (resolved cx b.2)}") ++
  clause (cCharOrder cx) (fun _ => diagList "order:charchain" t.chars fun c =>
      if pairwiseB charLeB (resolved cx c.chain) then none else some s!"char={hex4 c.value}:{firstBadPair charLeB shRule (resolved cx c.chain)}") ++
  clause (cForPassMember cx) (fun _ => ["member:passchain:forward"]) ++
  clause (cBackPassMember cx) (fun _ => ["member:passchain:backward"]) ++
  clause (cForPassOrder cx) (fun _ => diagList "order:passchain:forward" t.forPass fun b =>
      if pairwiseB passLeB (resolved cx b.2) then none else some s!"pass={b.1}:{firstBadPair passLeB shRule (resolved cx b.2)}") ++
  clause (cBackPassOrder cx) (fun _ => diagList "order:passchain:backward" t.backPass fun b =>
      if pairwiseB passLeB (resolved cx b.2) then none else some s!"pass={b.1}:{firstBadPair passLeB shRule (resolved cx b.2)}") ++
  clause (cDefFound t) (fun _ => diagList "definition:record-not-in-bucket" t.rules fun r =>
      if defFoundOK t r then none else some s!"rule={shRule r}:cells={showWide r.dots}")

end Lou.Image
