/-
  Backward.lean — the backward main pass (`backTranslateString`, lou_backTranslateString.c:1103-1320)
  with `back_selectRule` (611-848), `isEndWord`, `isBegWord`, `putchars`, `back_updatePositions`,
  `undefinedDots`, `putCharacter`, for the opcode fragment B0: character definitions, `always`, the
  word-position opcodes, `numsign`/`litdigit`, modes partialTrans and noUndefined.
  Tables using anything else make `unsupported` answer with a reason.
-/
import LouModel.Table
import LouModel.Forward

namespace Lou.Back
open Lou Lou.Gen

def opcodeOK (op : Nat) : Bool :=
  (CTO_Space ≤ op && op < CTO_UpLow && op != CTO_Grouping) || op == CTO_LitDigit ||
  op == CTO_Always || op == CTO_WholeWord || op == CTO_PartWord || op == CTO_LowWord ||
  op == CTO_SuffixableWord || op == CTO_PrefixableWord || op == CTO_BegWord || op == CTO_BegMidWord ||
  op == CTO_MidWord || op == CTO_MidEndWord || op == CTO_EndWord || op == CTO_NumberSign ||
  op == CTO_Undefined || op == CTO_Hyphen

def unsupported (t : Table) : Option String :=
  if t.numPasses != 1 || t.corrections then some "multipass" else
  if t.letterSign.isSome || t.noContractSign.isSome || t.noNumberSign.isSome then some "letsign/nocontractsign" else
  if !t.emph.isEmpty then some "emphasis/caps indicators" else
  if !t.backPass.isEmpty then some "context rules" else
  match t.rules.find? (fun r => !opcodeOK r.opcode || r.after != 0 || r.before != 0 || r.hasPatterns) with
  | some r => some s!"rule {r.idx} opcode {r.opcode}"
  | none => none

/-- translation context (the fields the fragment can change) -/
structure Ctx where
  itsANumber : Nat := 0
  itsALetter : Bool := false
  deriving Repr, DecidableEq

structure Out where
  chars : List Nat := []
  map : List (Option Int) := []      -- posMapping indexed by INPUT position; none = never written
  cpos : Int := -1
  cstat : Int := 0
  deriving Repr, DecidableEq

def setMap (m : List (Option Int)) (i : Nat) (v : Int) : List (Option Int) :=
  let m := if m.length ≤ i then m ++ List.replicate (i + 1 - m.length) none else m
  m.set i (some v)

/-- `back_updatePositions` + `putchars` (no capitalisation state in the fragment) -/
def updatePositions (outChars : List Nat) (inLength : Nat) (pos : Nat) (input : List Nat) (maxlen : Nat) (o : Out) : Option Out :=
  if o.chars.length + outChars.length > maxlen || pos + inLength > input.length then none else
  let (cp, cs) : Int × Int :=
    if o.cstat == 0 && o.cpos ≥ pos && o.cpos < pos + inLength then ((o.chars.length : Int) + outChars.length / 2, 1)
    else (o.cpos, o.cstat)
  let m := (List.range inLength).foldl (fun m k => setMap m (pos + k) o.chars.length) o.map
  -- putchars: `if (!count || …) return 0`
  if outChars.isEmpty then none
  else some { chars := o.chars ++ outChars, map := m, cpos := cp, cstat := cs }

/-- `_lou_unknownDots` -/
def unknownDots (d : Nat) : List Nat :=
  let body := dotMapping.filterMap fun (bit, ch) => if d &&& bit != 0 then some ch else none
  ['\\'.toNat] ++ (if body.isEmpty then ['0'.toNat] else body) ++ ['/'.toNat]

/-- `undefinedDots` (917-932) -/
def undefinedDots (d : Nat) (mode : Nat) (pos : Nat) (maxlen : Nat) (o : Out) : Option Out :=
  let o := { o with map := setMap o.map pos o.chars.length }
  if hasBit mode mNoUndefined then some o else
  let b := unknownDots d
  if o.chars.length + b.length > maxlen then none
  else some { o with chars := o.chars ++ b }

/-- `putCharacter` (934-947) -/
def putCharacter (t : Table) (mode : Nat) (d : Nat) (pos : Nat) (input : List Nat) (maxlen : Nat) (o : Out) : Option Out :=
  match (t.getDots d).defRule.bind t.rule? with
  | some r => updatePositions r.chars r.dots.length pos input maxlen o
  | none => undefinedDots d mode pos maxlen o

def inAt (input : List Nat) (i : Nat) : Nat := input.getD i 0

def beforeAttrs (t : Table) (o : Out) : Nat :=
  (t.getChar (match o.chars.getLast? with | some c => c | none => ' '.toNat)).attrs

def afterAttrs (t : Table) (input : List Nat) (pos length : Nat) : Nat :=
  (t.getDots (if pos + length < input.length then inAt input (pos + length) else ' '.toNat)).attrs

/-- `isEndWord` (440-471) -/
def isEndWord (t : Table) (mode : Nat) (input : List Nat) (pos dotslen : Nat) : Bool :=
  if hasBit mode mPartialTrans then false else
  let rec go (fuel k : Nat) : Bool :=
    match fuel with
    | 0 => true
    | fuel + 1 =>
      if k ≥ input.length then true else
      let d := t.getDots (inAt input k)
      if d.attrs &&& CTC_Space != 0 then true
      else if d.attrs &&& CTC_Letter != 0 then false
      else
        let rs := d.chain.filterMap t.rule?
        if rs.any (·.opcode == CTO_Hyphen) &&
           -- the C returns 1 at the first Hyphen rule it meets while scanning; TranslationFound set by
           -- earlier rules of the chain does not matter for that return
           true then true
        else
          let tf := rs.any fun r => r.chars.length > 1 && r.opcode != CTO_BegWord && r.opcode != CTO_MidWord
          let pp := rs.any (·.opcode == CTO_PostPunc)
          if tf && !pp then false else go fuel (k + 1)
  go (input.length + 1) (pos + dotslen)

/-- the opcode switch of `back_selectRule` for the fragment -/
def opcodeAccepts (t : Table) (mode : Nat) (ctx : Ctx) (input : List Nat) (pos : Nat) (r : Rule) (dotslen : Nat)
    (before after : Nat) (prevOp : Nat) : Bool :=
  let op := r.opcode
  let b (m : Nat) : Bool := before &&& m != 0
  let a (m : Nat) : Bool := after &&& m != 0
  let ew := isEndWord t mode input pos dotslen
  if (CTO_Space ≤ op && op < CTO_UpLow && op != CTO_Grouping) || op == CTO_Hyphen then true
  else if op == CTO_LitDigit then ctx.itsANumber != 0
  else if op == CTO_NumberSign then true
  else if op == CTO_WholeWord then
    !hasBit mode mPartialTrans && !(ctx.itsALetter || ctx.itsANumber != 0) &&
    b (CTC_Space ||| CTC_Punctuation) && (a CTC_Space || ew)
  else if op == CTO_LowWord then !hasBit mode mPartialTrans && b CTC_Space && a CTC_Space && prevOp != CTO_JoinableWord
  else if op == CTO_SuffixableWord then b (CTC_Space ||| CTC_Punctuation)
  else if op == CTO_PrefixableWord then b (CTC_Space ||| CTC_Letter ||| CTC_Punctuation) && ew
  else if op == CTO_BegWord then b (CTC_Space ||| CTC_Punctuation) && !ew
  else if op == CTO_BegMidWord then b (CTC_Letter ||| CTC_Space ||| CTC_Punctuation) && !ew
  else if op == CTO_PartWord then !b CTC_LitDigit && (b CTC_Letter || !ew)
  else if op == CTO_MidWord then b CTC_Letter && !ew
  else if op == CTO_MidEndWord then b CTC_Letter
  else if op == CTO_EndWord then b CTC_Letter && ew
  else if op == CTO_Always then !(b CTC_LitDigit && a CTC_LitDigit && r.chars.length > 1)
  else false

structure Sel where
  opcode : Nat
  rule : Option Rule
  dotslen : Nat
  deriving Repr, DecidableEq

def walkChain (t : Table) (mode : Nat) (ctx : Ctx) (input : List Nat) (pos length : Nat) (before prevOp : Nat) :
    List Nat → Option Sel
  | [] => none
  | i :: rest =>
    match t.rule? i with
    | none => none
    | some r =>
      let n := r.dots.length
      if n ≤ length && n > 0 && (input.drop pos).take n == r.dots &&
         opcodeAccepts t mode ctx input pos r n before (afterAttrs t input pos n) prevOp then
        some { opcode := r.opcode, rule := some r, dotslen := n }
      else walkChain t mode ctx input pos length before prevOp rest

/-- `back_selectRule` (611-848) without multind -/
def selectRule (t : Table) (mode : Nat) (ctx : Ctx) (input : List Nat) (pos : Nat) (before prevOp : Nat) : Sel :=
  let length := input.length - pos
  let d0 := t.getDots (inAt input pos)
  let s0 := if length < 2 || (ctx.itsANumber != 0 && d0.attrs &&& CTC_LitDigit != 0) then none else
    walkChain t mode ctx input pos length before prevOp
      (t.backBucket ((d0.value * 256 + (t.getDots (inAt input (pos + 1))).value) % HASHNUM))
  match s0 with
  | some s => s
  | none =>
    match (if length ≥ 1 then walkChain t mode ctx input pos 1 before prevOp d0.chain else none) with
    | some s => s
    | none => { opcode := CTO_None, rule := none, dotslen := 1 }

structure St where
  pos : Nat := 0
  out : Out := {}
  ctx : Ctx := {}
  prevOp : Nat := CTO_None
  srcword : Nat := 0
  destword : Nat := 0
  applied : List (Option Rule) := []
  deriving Repr

def isSpaceDots (t : Table) (d : Nat) : Bool := (t.getDots d).attrs &&& CTC_Space != 0

/-- one iteration of the main loop; the Bool says the loop is over (through `failure:`) -/
def step (t : Table) (mode : Nat) (input : List Nat) (maxlen : Nat) (st : St) : St × Bool :=
  let before := beforeAttrs t st.out
  let ctx := if st.ctx.itsANumber == 2 && st.out.chars.length > 0 && before &&& CTC_LitDigit == 0 &&
                before &&& CTC_NumericMode == 0 && before &&& CTC_MidEndNumericMode == 0
             then { st.ctx with itsANumber := 0 } else st.ctx
  let sel := selectRule t mode ctx input st.pos before st.prevOp
  let st := { st with ctx := ctx, applied := st.applied ++ [sel.rule] }
  if sel.opcode == CTO_NumberSign then
    -- consume the indicator: every cell of it maps to the current end of the output
    let m := (List.range sel.dotslen).foldl (fun m k => setMap m (st.pos + k) st.out.chars.length) st.out.map
    ({ st with pos := st.pos + sel.dotslen, out := { st.out with map := m },
               ctx := { itsANumber := 1, itsALetter := st.ctx.itsALetter } }, false)
  else
    let ctx := if sel.opcode == CTO_LitDigit then { ctx with itsANumber := 2 } else ctx
    let ctx := if sel.opcode == CTO_Space then { itsANumber := 0, itsALetter := false } else ctx
    let st := { st with ctx := ctx }
    let emitted : Option (Nat × Out) :=
      if sel.opcode == CTO_None then
        (undefinedDots (inAt input st.pos) mode st.pos maxlen st.out).map fun o => (st.pos + 1, o)
      else match sel.rule with
        | none => none
        | some r =>
          if r.chars.length > 0 then
            (updatePositions r.chars r.dots.length st.pos input maxlen st.out).map fun o => (st.pos + sel.dotslen, o)
          else
            let rec each (k p : Nat) (o : Out) : Option (Nat × Out) :=
              match k with
              | 0 => some (p, o)
              | k + 1 =>
                match putCharacter t mode (inAt input p) p input maxlen o with
                | none => none
                | some o' => each k (p + 1) o'
            each sel.dotslen st.pos st.out
    match emitted with
    | none => (st, true)
    | some (p', o') =>
      let st := { st with pos := p', out := o' }
      let st := if p' > 0 && isSpaceDots t (inAt input (p' - 1)) && sel.opcode != CTO_JoinableWord then
          { st with srcword := p', destword := o'.chars.length } else st
      let prev := if (CTO_Always ≤ sel.opcode && sel.opcode ≤ CTO_None) || (CTO_Digit ≤ sel.opcode && sel.opcode ≤ CTO_LitDigit)
                  then sel.opcode else st.prevOp
      ({ st with prevOp := prev }, false)

def loop (t : Table) (mode : Nat) (input : List Nat) (maxlen : Nat) : Nat → St → St
  | 0, st => st
  | fuel + 1, st =>
    if st.pos < input.length then
      let (st', done) := step t mode input maxlen st
      if done then st' else loop t mode input maxlen fuel st'
    else st

structure PassResult where
  out : List Nat
  map : List (Option Int)       -- entries below realInlen
  realInlen : Nat
  cpos : Int
  cstat : Int
  applied : List (Option Rule)
  deriving Repr

/-- `backTranslateString` for the fragment, with the `failure:` epilogue -/
def translate (t : Table) (mode : Nat) (input : List Nat) (maxlen : Nat) (cpos : Int) : PassResult :=
  let st := loop t mode input maxlen (input.length + 1) { out := { cpos := cpos, cstat := 0 } }
  let (pos, ochars) :=
    if st.destword != 0 && st.pos < input.length && !isSpaceDots t (inAt input st.pos) then
      (st.srcword, st.out.chars.take st.destword)
    else (st.pos, st.out.chars)
  let rec skip (fuel p : Nat) (m : List (Option Int)) : Nat × List (Option Int) :=
    match fuel with
    | 0 => (p, m)
    | fuel + 1 =>
      if p < input.length && isSpaceDots t (inAt input p) then skip fuel (p + 1) (setMap m p ochars.length) else (p, m)
  let (pos, m) := if pos < input.length then skip (input.length + 1) pos st.out.map else (pos, st.out.map)
  { out := ochars, map := m.take pos, realInlen := pos, cpos := st.out.cpos, cstat := st.out.cstat, applied := st.applied }

end Lou.Back
