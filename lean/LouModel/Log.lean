/-
  Log.lean — the logger of liblouis as a state machine (C19).

  Transcribes /repo/liblouis/logging.c (164 lines):

    defaultLogCallback        77-81     lou_logPrint("%s", message)
    lou_registerLogCallback   84-90     NULL ⇒ defaultLogCallback
    logLevel / lou_setLogLevel 92-96    initial value LOU_LOG_INFO
    _lou_logMessage           98-120    `if (level < logLevel) return;` then format, then call
    lou_logFile              127-142
    lou_logPrint             144-157
    lou_logEnd               160-164

  The statics are made explicit: `threshold` = logLevel, `userCb` = whether
  logCallbackFunction is a caller's function (otherwise defaultLogCallback),
  `logFile` and `initialName` = the two statics of the default sink.  `fopen(name,"a")`
  succeeding is a parameter `canOpen` (time-invariant in one run).

  An `emit level text` operation is one call `_lou_logMessage(level, format, …)` with a
  non-NULL `format` whose expansion is `text`.  That the expansion does not depend on
  the logger's state is the source-level fact proved from `Gen/LogSites.lean`
  (LouProofs/C19.lean: `logLevel_read_only_in_logMessage`, `formats_are_literals`).

  Quirks kept: after `lou_logEnd` (also called by `lou_free`) the default sink re-opens
  the FIRST file name ever passed to lou_logFile, not the last; a file name of 256
  bytes or more is ignored; when no file can be opened the sink is stderr and stays
  stderr.  NOT modelled (the handler answers UNSUPPORTED): `lou_logFile` called while
  the sink is stderr — the C code then does `fclose(stderr)`.
-/
import LouModel.Basic

namespace Lou.Log

/-! ### levels (liblouis.h `logLevels`; re-checked against the header in LouProofs/C19.lean) -/
def LOG_ALL : Nat := 0
def LOG_DEBUG : Nat := 10000
def LOG_INFO : Nat := 20000
def LOG_WARN : Nat := 30000
def LOG_ERROR : Nat := 40000
def LOG_FATAL : Nat := 50000
def LOG_OFF : Nat := 60000

def thresholds : List Nat := [LOG_ALL, LOG_DEBUG, LOG_INFO, LOG_WARN, LOG_ERROR, LOG_FATAL, LOG_OFF]

def FILENAMESIZE : Nat := 256

/-- `static FILE *logFile` -/
inductive LogFile where
  | closed                      -- NULL
  | file (name : String)        -- an open FILE on that name (append mode)
  | stderr
  deriving DecidableEq, Repr

structure State where
  threshold : Nat               -- `logLevel`
  userCb : Bool                 -- logCallbackFunction ≠ defaultLogCallback
  logFile : LogFile
  initialName : String          -- `initialLogFileName`
  deriving DecidableEq, Repr

/-- program start: `logLevel = LOU_LOG_INFO`, default callback, no file -/
def State.init : State := { threshold := LOG_INFO, userCb := false, logFile := .closed, initialName := "" }

/-- where a delivered message ends up -/
inductive Sink where
  | callback                    -- the caller's function receives (level, text)
  | file (name : String)        -- text ++ "\n" appended to that file
  | stderr                      -- text ++ "\n" written to stderr
  deriving DecidableEq, Repr

/-- a delivered message; for the file/stderr sinks `level` is what the message had
    (the sink itself only sees the text) -/
structure Event where
  sink : Sink
  level : Nat
  text : String
  deriving DecidableEq, Repr

inductive Op where
  | setLevel (l : Nat)                  -- lou_setLogLevel(l)
  | register (nonNull : Bool)           -- lou_registerLogCallback(cb) / (NULL)
  | emit (level : Nat) (text : String)  -- _lou_logMessage(level, fmt, …) expanding to text
  | logFile (name : Option String)      -- lou_logFile(name) / (NULL)
  | logEnd                              -- lou_logEnd(), also the tail of lou_free()
  deriving DecidableEq, Repr

/-- `lou_logPrint`'s choice of stream (149-150): the state after it and the sink written to -/
def openSink (canOpen : String → Bool) (st : State) : State × Sink :=
  match st.logFile with
  | .file n => (st, .file n)
  | .stderr => (st, .stderr)
  | .closed =>
    if canOpen st.initialName then ({ st with logFile := .file st.initialName }, .file st.initialName)
    else ({ st with logFile := .stderr }, .stderr)

/-- `lou_logFile(fileName)` (127-142); the previous stream is closed first -/
def doLogFile (canOpen : String → Bool) (st : State) (name : Option String) : State :=
  let st := { st with logFile := LogFile.closed }
  match name with
  | none => st
  | some n =>
    if n = "" ∨ n.utf8ByteSize ≥ FILENAMESIZE then st
    else
      let st := if st.initialName = "" then { st with initialName := n } else st
      if canOpen n then { st with logFile := .file n }
      else if canOpen st.initialName then { st with logFile := .file st.initialName }
      else { st with logFile := .stderr }

/-- one operation: new state and what is delivered -/
def step (canOpen : String → Bool) (st : State) : Op → State × List Event
  | .setLevel l => ({ st with threshold := l }, [])
  | .register b => ({ st with userCb := b }, [])
  | .emit level text =>
    if level < st.threshold then (st, [])                               -- 101
    else if st.userCb then (st, [{ sink := .callback, level := level, text := text }])   -- 116
    else
      let r := openSink canOpen st                                      -- defaultLogCallback → lou_logPrint
      (r.1, [{ sink := r.2, level := level, text := text }])
  | .logFile name => (doLogFile canOpen st name, [])
  | .logEnd => ({ st with logFile := .closed }, [])

def run (canOpen : String → Bool) : State → List Op → State × List Event
  | st, [] => (st, [])
  | st, op :: ops =>
    let r := step canOpen st op
    let rs := run canOpen r.1 ops
    (rs.1, r.2 ++ rs.2)

/-- everything delivered by a script started in state `st` -/
def delivered (canOpen : String → Bool) (st : State) (ops : List Op) : List Event :=
  (run canOpen st ops).2

/-- where the default sink would write now -/
def dest (canOpen : String → Bool) (st : State) : Sink := (openSink canOpen st).2

/-- the model does not cover `lou_logFile` while the stream is stderr (`fclose(stderr)`) -/
def covered (canOpen : String → Bool) : State → List Op → Bool
  | _, [] => true
  | st, op :: ops =>
    (match op, st.logFile with
     | .logFile _, .stderr => false
     | _, _ => true) && covered canOpen (step canOpen st op).1 ops

/-! ### protocol -/

def hexStr? (h : String) : Option String := do
  let bs ← parseBytes h
  String.fromUTF8? (ByteArray.mk (bs.map (·.toUInt8)).toArray)

def showHex (s : String) : String := showBytes (s.toUTF8.toList.map (·.toNat))

def parseOp (t : String) : Option Op :=
  match t.splitOn ":" with
  | ["L", n] => n.toNat?.map Op.setLevel
  | ["C", "on"] => some (.register true)
  | ["C", "null"] => some (.register false)
  | ["E", l, h] => do
    let l ← l.toNat?
    let s ← hexStr? h
    pure (.emit l s)
  | ["F", "null"] => some (.logFile none)
  | ["F", h] => (hexStr? h).map (fun s => .logFile (some s))
  | ["X"] => some .logEnd
  | _ => none

def showEvent (e : Event) : String :=
  match e.sink with
  | .callback => s!"cb:{e.level}:{showHex e.text}"
  | .file n => s!"file:{showHex n}:{showHex e.text}"
  | .stderr => s!"err:{showHex e.text}"

/-- `MLOG <cb0:on|null> <op>…` with ops `L:<n>` `C:on` `C:null` `E:<level>:<hextext>`
    `F:<hexname>|F:null` `X`; every file name can be opened.  `cb0` is the callback
    registered before the script (the harness registers one at start).  Answer:
    `ML` followed by the delivered events (`cb:<level>:<hex>`, `file:<hexname>:<hex>`,
    `err:<hex>`), or ` .` when nothing is delivered. -/
def handle? (toks : List String) : Option String :=
  match toks with
  | "MLOG" :: cb0 :: ops =>
    some <| (do
      let cb ← if cb0 == "on" then some true else if cb0 == "null" then some false else none
      let ops ← ops.mapM parseOp
      let st0 := { State.init with userCb := cb }
      if !covered (fun n => n != "") st0 ops then pure "UNSUPPORTED" else
      let ev := delivered (fun n => n != "") st0 ops
      pure ("ML" ++ (if ev.isEmpty then " ." else String.join (ev.map (" " ++ showEvent ·))))).getD "BADOP"
  | "MLOG" :: _ => some "BADOP"
  | _ => none

end Lou.Log
