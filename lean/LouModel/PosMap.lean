/-
  PosMap.lean — the final position computation shared by `_lou_translate`
  (lou_translateString.c:1354-1381) and `_lou_backTranslate`
  (lou_backTranslateString.c:323-347).  Both drivers run the same two loops with
  the roles of input and output swapped:

  * the *clamp* loop   (forward: inputPos,  backward: outputPos)
  * the *scan*  loop   (forward: outputPos, backward: inputPos)
-/
namespace Lou.PosMap

/-- `if (pm[k] < 0) 0 else if (pm[k] > n-1) n-1 else pm[k]` -/
def clamp (n : Int) (p : Int) : Int :=
  if p < 0 then 0 else if p > n - 1 then n - 1 else p

/-- the clamp loop over the first `m` entries of the map -/
def clampArr (n : Int) (m : Nat) (pm : List Int) : List Int :=
  (pm.take m).map (clamp n)

def clamp0 (x : Int) : Int := if x < 0 then 0 else x

/-- state of the scan loop: `inpos`, `outpos` and the array being filled
    (as a function; entries never written keep their initial value) -/
structure S where
  inpos : Int
  outpos : Int
  arr : Int → Int

/-- one iteration of `for (k = 0; k < m; k++) if (pm[k] > inpos) { while … }` -/
def stepK (n : Int) (st : S) (k : Int) (p : Int) : S :=
  if p > st.inpos then
    { inpos := p, outpos := k,
      arr := fun i => if st.inpos ≤ i ∧ i < p ∧ 0 ≤ i ∧ i < n then clamp0 st.outpos else st.arr i }
  else st

def scanFrom (n : Int) : S → Int → List Int → S
  | st, _, [] => st
  | st, k, p :: ps => scanFrom n (stepK n st k p) (k + 1) ps

/-- the array starts out as whatever the caller's array held; the drivers
    pre-fill the first `input.length` entries with −1 -/
def init (a0 : Int → Int) : S := { inpos := -1, outpos := -1, arr := a0 }

/-- `if (inpos < 0) inpos = 0; while (inpos < n) arr[inpos++] = outpos;` -/
def finish (n : Int) (st : S) : Int → Int :=
  let ip := if st.inpos < 0 then 0 else st.inpos
  fun i => if ip ≤ i ∧ i < n then st.outpos else st.arr i

/-- the scan loop: `m` = number of map entries scanned, `n` = length of the array filled -/
def scan (n : Int) (m : Nat) (pm : List Int) (a0 : Int → Int := fun _ => -1) : Int → Int :=
  finish n (scanFrom n (init a0) 0 (pm.take m))

/-- materialised first `n` entries -/
def scanArr (n : Nat) (m : Nat) (pm : List Int) : List Int :=
  (List.range n).map fun (i : Nat) => scan n m pm (fun _ => -1) (i : Int)

end Lou.PosMap
