/-
  Lib.lean — liblouis as a whole: (1) the classification of every object with static storage
  duration (the inventory is generated: Gen/Statics.lean), (2) the circular opcode search whose start
  is remembered in a static, (3) a state machine over API calls in which every piece of state that
  survives a call is explicit, at the granularity needed by C08 ("results are a pure function of table
  sources and arguments").

  The cache is the content-level view of `Cache.lean`: an entry is found iff its name equals the whole
  list name (C14 `cache_lookup_eq`), the order of the chains never matters (C14 `find_lookup`), and
  `lou_free` empties both chains (C14 `free_resets`); identities of blocks are of no interest here, the
  CONTENT of a cached table is.  Engines (compiler, finalizer, translators, hyphenator, converters) are
  parameters, as in `Driver.lean`; each receives the `Ambient` — everything a call finds lying around
  from earlier calls that is not the cache: allocator sizes and pointers, stale contents of the scratch
  buffers and of the reset-before-use statics, the remembered search starts.
-/
import LouModel.Basic
import LouModel.Alloc
import LouModel.Cache
import LouModel.Driver
import LouModel.Gen.Statics

namespace Lou.Lib

/-! ### (1) classification of the statics -/

inductive Kind where
  /-- the object is const-qualified -/
  | const
  /-- not const-qualified, but nothing assigns to it, takes its address or passes it to a callee -/
  | neverWritten
  /-- assigned in the named function before every read on every API path (the function must be among
      the extracted writers) -/
  | resetBeforeUse (by_ : String)
  /-- the two table chains: keyed by the full list name (C14) -/
  | cacheKeyedByFullName
  /-- initialised on first use from constants only, re-initialised before the first use after lou_free -/
  | lazyConst (by_ : String)
  /-- logging state: written by the logging setters, read by the logging functions only (C19) -/
  | sink
  /-- remembers where a circular search over a duplicate-free table starts (`searchStart_irrelevant`) -/
  | searchStartOnly
  /-- allocator size variable: decides the capacity of a scratch buffer, never its content (C01 alloc_capacity) -/
  | sizeOnly
  /-- pointer to a scratch buffer: what a call reads from it, it has written before (hypothesis
      `Sem.Pure`; F11 was a violation; searched by C08, sanitizer-checked with exact sizes by C01/C02) -/
  | scratch
  /-- the slot arrays of a string-buffer pool, reached only through `stringBufferPool`: every slot is
      released at the start of `_lou_translate` / `_lou_backTranslate` and refilled from `_lou_allocMem` -/
  | poolSlots
  /-- set only by an explicit configuration call; part of the environment in which table names resolve -/
  | config (setter : String)
  /-- state of an API that is not a translation, back-translation, hyphenation or conversion call -/
  | otherApi (what : String)
  /-- errorCount, warningCount, fileCount: zeroed by the two top-level entries of the compiler, compileTable
      and compileString (the latter since the F7 repair; without it an `include` added at run time saw
      stale errors: `compileString_needs_counter_reset`) -/
  | compileCounter (resetBy : List String)
  /-- recursion-depth counter: incremented before and decremented after the nested call inside its own
      function (two assignments, no address taken, never passed on), hence zero whenever no API call is
      in progress (includeFile's includeDepth, added with the repair of the include-cycle stack overflow) -/
  | balancedDepth
  deriving DecidableEq, Repr

structure Class where
  file : String
  func : String
  name : String
  kind : Kind
  deriving DecidableEq, Repr

/-- hand-written; one entry per inventory entry, in inventory order -/
def classification : List Class := [
  ⟨"commonTranslationFunctions.c", "-", "passVariables", .resetBeforeUse "_lou_resetPassVariables"⟩,
  ⟨"compileTranslationTable.c", "-", "characterClassNames", .neverWritten⟩,
  ⟨"compileTranslationTable.c", "-", "dataPathPtr", .config "lou_setDataPath"⟩,
  ⟨"compileTranslationTable.c", "-", "destSpacing", .scratch⟩,
  ⟨"compileTranslationTable.c", "-", "displayTableChain", .cacheKeyedByFullName⟩,
  ⟨"compileTranslationTable.c", "-", "emphasisBuffer", .scratch⟩,
  ⟨"compileTranslationTable.c", "-", "errorCount", .compileCounter ["compileTable", "compileString"]⟩,
  ⟨"compileTranslationTable.c", "-", "fileCount", .compileCounter ["compileTable"]⟩,
  ⟨"compileTranslationTable.c", "-", "first0Bit", .const⟩,
  ⟨"compileTranslationTable.c", "-", "opcodeLengths", .lazyConst "compileTable"⟩,
  ⟨"compileTranslationTable.c", "-", "opcodeNames", .neverWritten⟩,
  ⟨"compileTranslationTable.c", "-", "passbuf", .scratch⟩,
  ⟨"compileTranslationTable.c", "-", "posMapping1", .scratch⟩,
  ⟨"compileTranslationTable.c", "-", "posMapping2", .scratch⟩,
  ⟨"compileTranslationTable.c", "-", "posMapping3", .scratch⟩,
  ⟨"compileTranslationTable.c", "-", "reservedAttributeNames", .neverWritten⟩,
  ⟨"compileTranslationTable.c", "-", "sizeDestSpacing", .sizeOnly⟩,
  ⟨"compileTranslationTable.c", "-", "sizePassbuf", .sizeOnly⟩,
  ⟨"compileTranslationTable.c", "-", "sizePosMapping1", .sizeOnly⟩,
  ⟨"compileTranslationTable.c", "-", "sizePosMapping2", .sizeOnly⟩,
  ⟨"compileTranslationTable.c", "-", "sizePosMapping3", .sizeOnly⟩,
  ⟨"compileTranslationTable.c", "-", "sizeTypebuf", .sizeOnly⟩,
  ⟨"compileTranslationTable.c", "-", "tableResolver", .config "lou_registerTableResolver"⟩,
  ⟨"compileTranslationTable.c", "-", "translationTableChain", .cacheKeyedByFullName⟩,
  ⟨"compileTranslationTable.c", "-", "typebuf", .scratch⟩,
  ⟨"compileTranslationTable.c", "-", "warningCount", .compileCounter ["compileTable", "compileString"]⟩,
  ⟨"compileTranslationTable.c", "-", "wordBuffer", .scratch⟩,
  ⟨"compileTranslationTable.c", "_lou_findOpcodeName", "scratchBuf", .resetBeforeUse "_lou_findOpcodeName"⟩,
  ⟨"compileTranslationTable.c", "_lou_findOpcodeNumber", "lastOpcode", .searchStartOnly⟩,
  ⟨"compileTranslationTable.c", "compileMacro", "definition", .resetBeforeUse "compileMacro"⟩,
  ⟨"compileTranslationTable.c", "compileMacro", "name", .resetBeforeUse "compileMacro"⟩,
  ⟨"compileTranslationTable.c", "compileMacro", "substitutions", .resetBeforeUse "compileMacro"⟩,
  ⟨"compileTranslationTable.c", "compilePassOpcode", "passRuleChars", .resetBeforeUse "compilePassOpcode"⟩,
  ⟨"compileTranslationTable.c", "compilePassOpcode", "passRuleDots", .resetBeforeUse "compilePassOpcode"⟩,
  ⟨"compileTranslationTable.c", "getOpcode", "lastOpcode", .searchStartOnly⟩,
  ⟨"compileTranslationTable.c", "includeFile", "includeDepth", .balancedDepth⟩,
  ⟨"compileTranslationTable.c", "lou_readCharFromFile", "file", .otherApi "lou_readCharFromFile keeps its open file between calls by design"⟩,
  ⟨"compileTranslationTable.c", "lou_setDataPath", "dataPath", .config "lou_setDataPath"⟩,
  ⟨"compileTranslationTable.c", "lou_version", "version", .neverWritten⟩,
  ⟨"compileTranslationTable.c", "printSource", "scratchBuf", .resetBeforeUse "printSource"⟩,
  ⟨"compileTranslationTable.c", "resolveSubtable", "info", .resetBeforeUse "resolveSubtable"⟩,
  ⟨"logging.c", "-", "initialLogFileName", .sink⟩,
  ⟨"logging.c", "-", "logCallbackFunction", .sink⟩,
  ⟨"logging.c", "-", "logFile", .sink⟩,
  ⟨"logging.c", "-", "logLevel", .sink⟩,
  ⟨"lou_backTranslateString.c", "-", "stringBufferPool", .lazyConst "initStringBufferPool"⟩,
  ⟨"lou_backTranslateString.c", "back_selectRule", "pseudoRule", .resetBeforeUse "back_selectRule"⟩,
  ⟨"lou_backTranslateString.c", "getChar", "notFound", .resetBeforeUse "getChar"⟩,
  ⟨"lou_backTranslateString.c", "getDots", "notFound", .resetBeforeUse "getDots"⟩,
  ⟨"lou_backTranslateString.c", "initStringBufferPool", "stringBuffers", .poolSlots⟩,
  ⟨"lou_backTranslateString.c", "initStringBufferPool", "stringBuffersInUse", .poolSlots⟩,
  ⟨"lou_translateString.c", "-", "appliedRules", .resetBeforeUse "_lou_translate"⟩,
  ⟨"lou_translateString.c", "-", "appliedRulesCount", .resetBeforeUse "_lou_translate"⟩,
  -- (the copy of the pass input a grouping action edits: its contents are read only while the pass input IS this object,
  --  which it can only become by an assignment in replaceGrouping / removeGrouping during the same pass - F40)
  ⟨"lou_translateString.c", "-", "groupingString", .resetBeforeUse "replaceGrouping"⟩,
  ⟨"lou_translateString.c", "-", "maxAppliedRules", .resetBeforeUse "_lou_translate"⟩,
  ⟨"lou_translateString.c", "-", "stringBufferPool", .lazyConst "initStringBufferPool"⟩,
  ⟨"lou_translateString.c", "for_selectRule", "pseudoRule", .resetBeforeUse "for_selectRule"⟩,
  ⟨"lou_translateString.c", "getChar", "notFound", .resetBeforeUse "getChar"⟩,
  ⟨"lou_translateString.c", "getDots", "notFound", .resetBeforeUse "getDots"⟩,
  ⟨"lou_translateString.c", "initStringBufferPool", "stringBuffers", .poolSlots⟩,
  ⟨"lou_translateString.c", "initStringBufferPool", "stringBuffersInUse", .poolSlots⟩,
  ⟨"maketable.c", "-", "displayTable", .otherApi "lou_suggestChunks / maketable tools"⟩,
  ⟨"maketable.c", "-", "table", .otherApi "lou_suggestChunks / maketable tools"⟩,
  ⟨"maketable.c", "isLetter", "character", .resetBeforeUse "isLetter"⟩,
  ⟨"maketable.c", "isLetter", "hash", .resetBeforeUse "isLetter"⟩,
  ⟨"maketable.c", "isLetter", "offset", .resetBeforeUse "isLetter"⟩,
  ⟨"maketable.c", "toLowercase", "character", .resetBeforeUse "toLowercase"⟩,
  ⟨"maketable.c", "toLowercase", "offset", .resetBeforeUse "toLowercase"⟩,
  ⟨"metadata.c", "-", "tableIndex", .otherApi "lou_indexTables / lou_findTable (C18)"⟩,
  ⟨"metadata.c", "analyzeTable", "fileName", .otherApi "metadata queries (C18)"⟩,
  ⟨"metadata.c", "listDir", "fileName", .otherApi "metadata queries (C18)"⟩,
  ⟨"metadata.c", "matchFeatureLists", "EXTRA", .const⟩,
  ⟨"metadata.c", "matchFeatureLists", "EXTRA_FUZZY", .const⟩,
  ⟨"metadata.c", "matchFeatureLists", "NEG_MATCH", .const⟩,
  ⟨"metadata.c", "matchFeatureLists", "NEG_MATCH_FUZZY", .const⟩,
  ⟨"metadata.c", "matchFeatureLists", "POS_MATCH", .const⟩,
  ⟨"metadata.c", "matchFeatureLists", "POS_MATCH_FUZZY", .const⟩,
  ⟨"metadata.c", "matchFeatureLists", "UNDEFINED", .const⟩,
  ⟨"metadata.c", "matchFeatureLists", "UNDEFINED_FUZZY", .const⟩,
  ⟨"metadata.c", "matchLanguageTags", "EXTRA", .const⟩,
  ⟨"metadata.c", "matchLanguageTags", "POS_MATCH", .const⟩,
  ⟨"metadata.c", "parseLanguageTag", "subtag", .otherApi "metadata queries (C18)"⟩,
  ⟨"metadata.c", "parseQuery", "value", .otherApi "metadata queries (C18)"⟩,
  ⟨"pattern.c", "-", "space", .otherApi "pattern debug output (not compiled into the API paths)"⟩,
  ⟨"pattern.c", "-", "spaces", .otherApi "pattern debug output (not compiled into the API paths)"⟩,
  ⟨"pattern.c", "-", "translation_direction", .resetBeforeUse "lou_translateString.c:translateString"⟩,
  ⟨"pattern.c", "findCharOrDots", "noChar", .resetBeforeUse "findCharOrDots"⟩,
  ⟨"pattern.c", "findCharOrDots", "noDots", .resetBeforeUse "findCharOrDots"⟩,
  ⟨"utils.c", "-", "_lou_verif", .config "harness"⟩,
  ⟨"utils.c", "-", "attributeMapping", .const⟩,
  ⟨"utils.c", "-", "dotMapping", .const⟩,
  ⟨"utils.c", "-", "validTranslationModes", .const⟩,
  ⟨"utils.c", "_lou_charToFallbackDots", "charToDots", .const⟩,
  ⟨"utils.c", "_lou_showAttributes", "scratchBuf", .resetBeforeUse "_lou_showAttributes"⟩,
  ⟨"utils.c", "_lou_showDots", "scratchBuf", .resetBeforeUse "_lou_showDots"⟩,
  ⟨"utils.c", "_lou_showString", "scratchBuf", .resetBeforeUse "_lou_showString"⟩,
  ⟨"utils.c", "_lou_unknownDots", "buffer", .resetBeforeUse "_lou_unknownDots"⟩,
  ⟨"utils.c", "toLowercase", "character", .resetBeforeUse "toLowercase"⟩,
  ⟨"utils.c", "toLowercase", "offset", .resetBeforeUse "toLowercase"⟩
]

open Lou.Gen.Statics in
/-- does the classification of one static agree with what the extractor saw of it -/
def agrees (v : StaticVar) (c : Class) : Bool :=
  c.file == v.file && c.func == v.func && c.name == v.name &&
  (match c.kind with
   | .const => v.const
   | .neverWritten => v.assigned == 0 && v.addrTaken == 0 && v.bareArg == 0
   | .resetBeforeUse f => v.writers.contains f
   | .cacheKeyedByFullName => v.writers.all (["getTable", "lou_free"].contains ·)
   | .lazyConst f => v.writers.contains f
   | .sink => v.writers.all (["lou_registerLogCallback", "lou_setLogLevel", "lou_logFile", "lou_logEnd", "lou_logPrint"].contains ·)
   | .searchStartOnly => v.writers == [v.func]
   | .sizeOnly => v.writers.all (["_lou_allocMem", "lou_free"].contains ·)
   | .scratch => v.writers.all (["_lou_allocMem", "lou_free"].contains ·)
   | .poolSlots => v.assigned == 0 && v.addrTaken == 0 && v.func == "initStringBufferPool"
   | .config f => v.writers.all (· == f) || f == "harness"
   | .otherApi _ => true
   | .compileCounter fs => fs.all (v.writers.contains ·)
   | .balancedDepth => v.assigned == 2 && v.addrTaken == 0 && v.bareArg == 0 && v.writers == [v.func])

def allAgree : List Lou.Gen.Statics.StaticVar → List Class → Bool
  | [], [] => true
  | v :: vs, c :: cs => agrees v c && allAgree vs cs
  | _, _ => false

/-! ### (2) the circular opcode search (getOpcode, _lou_findOpcodeNumber) -/

/-- `opcode = lastOpcode; do { if (match) return opcode; opcode++; if (opcode >= N) opcode = 0; }
    while (opcode != lastOpcode); return CTO_None;` — the order in which the table is visited -/
def visitOrder (n start : Nat) : List Nat := List.range' start (n - start) ++ List.range' 0 start

def findFrom (names : List String) (start : Nat) (tok : String) : Option Nat :=
  (visitOrder names.length start).find? fun i => names[i]? == some tok

/-! ### (3) the library as a state machine -/

abbrev Name := Cache.Name

/-- what a call finds lying around that is not the cache -/
structure Ambient where
  alloc : Alloc.State := {}          -- sizes and pointers of the scratch buffers
  stale : List Int := []             -- whatever earlier calls left in scratch buffers and reset-before-use statics
  lastOpcode : Nat := 0              -- getOpcode's search start
  deriving Repr, DecidableEq

structure HypRes where
  ret : Nat
  hyphens : List Nat
  deriving Repr, DecidableEq

structure ConvRes where
  ret : Nat
  out : List Nat
  deriving Repr, DecidableEq

inductive Call where
  | translate (list : Name) (a : Drv.Args)
  | backTranslate (list : Name) (a : Drv.Args)
  | hyphenate (list : Name) (word : List Nat) (mode : Nat)
  | charToDots (list : Name) (inbuf : List Nat) (mode : Nat)
  | dotsToChar (list : Name) (inbuf : List Nat) (mode : Nat)
  | compileString (list : Name) (rule : List Nat)
  | free
  | setLogLevel (level : Nat)
  deriving Repr

inductive Res where
  | trans (r : Option Drv.Result)     -- none = the call returned 0 before it touched anything
  | hyph (r : Option HypRes)
  | conv (r : Option ConvRes)
  | ok (b : Bool)
  | unit
  deriving Repr, DecidableEq

/-- the engines.  `FS` = contents of the table files (and what names resolve to), `T`/`D` = a compiled
    translation / display table -/
structure Sem (FS T D : Type) where
  compile : FS → Ambient → Name → Option T
  compileDisp : FS → Ambient → Name → Option D
  finalize : Ambient → T → Option T
  isInclude : List Nat → Bool
  /-- compileRule on one rule string: the changed tables, or none when the rule is refused -/
  addRule : FS → Ambient → T → Option D → List Nat → Option (T × Option D)
  translate : Ambient → T → Option D → Drv.Args → Drv.Result
  backTranslate : Ambient → T → Option D → Drv.Args → Drv.Result
  hyphenate : Ambient → T → Option D → List Nat → Nat → HypRes
  charToDots : Ambient → D → List Nat → Nat → ConvRes
  dotsToChar : Ambient → D → List Nat → Nat → ConvRes
  /-- what a call leaves behind for the next one (any function at all) -/
  leftBehind : Ambient → Call → Ambient

/-- "engine results depend only on their declared inputs": none of them reads the ambient -/
structure Sem.Pure {FS T D : Type} (sem : Sem FS T D) : Prop where
  compile : ∀ fs a a' n, sem.compile fs a n = sem.compile fs a' n
  compileDisp : ∀ fs a a' n, sem.compileDisp fs a n = sem.compileDisp fs a' n
  finalize : ∀ a a' t, sem.finalize a t = sem.finalize a' t
  addRule : ∀ fs a a' t d r, sem.addRule fs a t d r = sem.addRule fs a' t d r
  translate : ∀ a a' t d x, sem.translate a t d x = sem.translate a' t d x
  backTranslate : ∀ a a' t d x, sem.backTranslate a t d x = sem.backTranslate a' t d x
  hyphenate : ∀ a a' t d w m, sem.hyphenate a t d w m = sem.hyphenate a' t d w m
  charToDots : ∀ a a' d i m, sem.charToDots a d i m = sem.charToDots a' d i m
  dotsToChar : ∀ a a' d i m, sem.dotsToChar a d i m = sem.dotsToChar a' d i m

structure TrEntry (T : Type) where
  name : Name
  table : T
  finalized : Bool

structure DispEntry (D : Type) where
  name : Name
  table : D

structure LibState (T D : Type) where
  tr : List (TrEntry T) := []        -- translationTableChain, with contents
  disp : List (DispEntry D) := []    -- displayTableChain
  amb : Ambient := {}
  errorCount : Nat := 0              -- compileTranslationTable.c: errorCount (reset by compileTable only)
  logLevel : Nat := 20000            -- logging.c: logLevel (a sink: no result depends on it)

variable {FS T D : Type}

def LibState.init : LibState T D := {}

def findT (c : List (TrEntry T)) (n : Name) : Option (TrEntry T) := c.find? (·.name == n)
def findD (c : List (DispEntry D)) (n : Name) : Option (DispEntry D) := c.find? (·.name == n)

/-- replace the entry of `n` (the chains hold at most one entry per name) -/
def setT (c : List (TrEntry T)) (n : Name) (e : TrEntry T) : List (TrEntry T) :=
  c.map fun x => if x.name == n then e else x

def setD (c : List (DispEntry D)) (n : Name) (e : DispEntry D) : List (DispEntry D) :=
  c.map fun x => if x.name == n then e else x

/-- `getTable(n, n, &t, &d)` at content level: what is cached is handed back, what is missing is
    compiled (together, and inserted only if everything asked for compiled); compileTable zeroes
    errorCount and leaves it positive iff it fails -/
def getBoth (sem : Sem FS T D) (fs : FS) (s : LibState T D) (n : Name) :
    LibState T D × Option (TrEntry T) × Option (DispEntry D) :=
  if n = [] then (s, none, none) else
  match findT s.tr n, findD s.disp n with
  | some t, some d => (s, some t, some d)
  | none, none =>
    match sem.compile fs s.amb n, sem.compileDisp fs s.amb n with
    | some t, some d =>
      let te : TrEntry T := ⟨n, t, false⟩
      let de : DispEntry D := ⟨n, d⟩
      ({ s with tr := te :: s.tr, disp := de :: s.disp, errorCount := 0 }, some te, some de)
    | _, _ => ({ s with errorCount := 1 }, none, none)
  | some t, none =>
    match sem.compileDisp fs s.amb n with
    | some d =>
      let de : DispEntry D := ⟨n, d⟩
      ({ s with disp := de :: s.disp, errorCount := 0 }, some t, some de)
    | none => ({ s with errorCount := 1 }, some t, none)
  | none, some d =>
    match sem.compile fs s.amb n with
    | some t =>
      let te : TrEntry T := ⟨n, t, false⟩
      ({ s with tr := te :: s.tr, errorCount := 0 }, some te, some d)
    | none => ({ s with errorCount := 1 }, none, some d)

/-- `_lou_getTable` / `lou_getTable`: getTable + finalizeTable (in place, once) -/
def getBothFinal (sem : Sem FS T D) (fs : FS) (s : LibState T D) (n : Name) :
    LibState T D × Option T × Option D :=
  let r := getBoth sem fs s n
  match r.2.1 with
  | none => (r.1, none, r.2.2.map (·.table))
  | some e =>
    if e.finalized then (r.1, some e.table, r.2.2.map (·.table))
    else match sem.finalize r.1.amb e.table with
      | some t' => ({ r.1 with tr := setT r.1.tr n ⟨n, t', true⟩ }, some t', r.2.2.map (·.table))
      | none => (r.1, none, r.2.2.map (·.table))

/-- `_lou_getDisplayTable` -/
def getDispOnly (sem : Sem FS T D) (fs : FS) (s : LibState T D) (n : Name) : LibState T D × Option D :=
  if n = [] then (s, none) else
  match findD s.disp n with
  | some d => (s, some d.table)
  | none =>
    match sem.compileDisp fs s.amb n with
    | some d => ({ s with disp := ⟨n, d⟩ :: s.disp, errorCount := 0 }, some d)
    | none => ({ s with errorCount := 1 }, none)

/-- `lou_compileString`.  `compileString()` zeroes errorCount first (since the F7 repair, commit e4431d5a;
    `resetCounters := false` is the code before it: a refused rule or a failed table compilation left
    errorCount positive, and an `include` — whose compileFile ends with `return !errorCount;` — then
    failed although the file had been compiled into the table) -/
def compileString (resetCounters : Bool) (sem : Sem FS T D) (fs : FS) (s : LibState T D) (n : Name) (rule : List Nat) :
    LibState T D × Bool :=
  let r := getBoth sem fs s n
  match r.2.1 with
  | none => (r.1, false)
  | some e =>
    let s1 : LibState T D := if resetCounters then { r.1 with errorCount := 0 } else r.1
    if e.finalized then ({ s1 with errorCount := s1.errorCount + 1 }, false)     -- "Table is finalized"
    else match sem.addRule fs s1.amb e.table (r.2.2.map (·.table)) rule with
      | none => ({ s1 with errorCount := s1.errorCount + 1 }, false)
      | some (t', d') =>
        ({ s1 with tr := setT s1.tr n ⟨n, t', false⟩,
                   disp := match d' with | some d => setD s1.disp n ⟨n, d⟩ | none => s1.disp },
         !(sem.isInclude rule && s1.errorCount != 0))

def stepWith (resetCounters : Bool) (sem : Sem FS T D) (fs : FS) (s : LibState T D) (c : Call) : LibState T D × Res :=
  let after := fun (s' : LibState T D) => { s' with amb := sem.leftBehind s.amb c }
  match c with
  | .translate n a =>
    let r := getBothFinal sem fs s n
    (after r.1, .trans (r.2.1.map fun t => sem.translate s.amb t r.2.2 a))
  | .backTranslate n a =>
    let r := getBothFinal sem fs s n
    (after r.1, .trans (r.2.1.map fun t => sem.backTranslate s.amb t r.2.2 a))
  | .hyphenate n w m =>
    let r := getBothFinal sem fs s n
    -- lou_getTable: NULL unless both tables exist
    (after r.1, .hyph (match r.2.1, r.2.2 with
                       | some t, some d => some (sem.hyphenate s.amb t (some d) w m)
                       | _, _ => none))
  | .charToDots n i m =>
    let r := getDispOnly sem fs s n
    (after r.1, .conv (r.2.map fun d => sem.charToDots s.amb d i m))
  | .dotsToChar n i m =>
    let r := getDispOnly sem fs s n
    (after r.1, .conv (r.2.map fun d => sem.dotsToChar s.amb d i m))
  | .compileString n rule =>
    let r := compileString resetCounters sem fs s n rule
    (after r.1, .ok r.2)
  | .free => (after { s with tr := [], disp := [] }, .unit)
  | .setLogLevel l => (after { s with logLevel := l }, .unit)

/-- the library as it is -/
def step (sem : Sem FS T D) (fs : FS) (s : LibState T D) (c : Call) : LibState T D × Res :=
  stepWith true sem fs s c

def runWith (resetCounters : Bool) (sem : Sem FS T D) (fs : FS) : LibState T D → List Call → LibState T D
  | s, [] => s
  | s, c :: cs => runWith resetCounters sem fs (stepWith resetCounters sem fs s c).1 cs

def run (sem : Sem FS T D) (fs : FS) : LibState T D → List Call → LibState T D := runWith true sem fs

/-- the calls whose outcome the property speaks about -/
def Call.isQuery : Call → Bool
  | .translate .. | .backTranslate .. | .hyphenate .. | .charToDots .. | .dotsToChar .. => true
  | _ => false

def Call.list? : Call → Option Name
  | .translate n _ | .backTranslate n _ | .hyphenate n _ _ | .charToDots n _ _ | .dotsToChar n _ _
  | .compileString n _ => some n
  | _ => none

/-- the history adds no run-time rule to list `n` -/
def noAddTo (n : Name) : List Call → Bool
  | [] => true
  | .compileString m _ :: cs => m != n && noAddTo n cs
  | _ :: cs => noAddTo n cs

end Lou.Lib
