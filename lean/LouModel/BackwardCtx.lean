/-
  BackwardCtx.lean — the backward main pass of B0 (Backward.lean) extended by `context` rules: a backward context rule
  sits in the hash chain of its leading literal of cells (`back_selectRule`, case CTO_Context → `back_passDoTest`) and
  is applied by `back_passDoAction` on the main pass's own output (copies go through `putCharacter`); after EVERY
  replacement the rules of `backPassRules[1]` are tried at the new position (`passSelectRule`, 1278-1284) and the first
  whose test succeeds is applied too — the result of that action is ignored, and the opcode the iteration ends with is
  `context` or `always` (lou_backTranslateString.c:1619-1627), which is what `previousOpcode` remembers.
  There is no `posIncremented` guard in this loop (finding F2): a rule that consumes nothing is tried again, so the
  model can run out of fuel exactly where the implementation does not return.
-/
import LouModel.Backward
import LouModel.Pass

namespace Lou.BackC
open Lou Lou.Gen Lou.Back

structure SelC where
  sel : Sel
  ctx : Option (Rule × Pass.Match × Nat) := none
  unsupported : Bool := false
  deriving Repr

def walkChainC (t : Table) (mode : Nat) (ctx : Ctx) (input : List Nat) (pos length : Nat) (before prevOp : Nat)
    (vars : List Nat) : List Nat → Option SelC
  | [] => none
  | i :: rest =>
    match t.rule? i with
    | none => none
    | some r =>
      if r.opcode == CTO_Context then
        -- the key of a context rule is stored as its characters: `currentDots = &charsdots[0]; currentDotslen = charslen`
        let n := r.chars.length
        if n ≤ length && (input.drop pos).take n == r.chars then
          match Pass.backTest ⟨t, true, vars⟩ r.dots input pos (r.dots.length + 1) pos 0 (-1) (-1) false with
          | .unsupported => some { sel := { opcode := CTO_Context, rule := some r, dotslen := n }, unsupported := true }
          | .ok m ic => some { sel := { opcode := CTO_Context, rule := some r, dotslen := n }, ctx := some (r, m, ic) }
          | .fail => walkChainC t mode ctx input pos length before prevOp vars rest
        else walkChainC t mode ctx input pos length before prevOp vars rest
      else
        let n := r.dots.length
        if n ≤ length && n > 0 && (input.drop pos).take n == r.dots &&
           opcodeAccepts t mode ctx input pos r n before (afterAttrs t input pos n) prevOp then
          some { sel := { opcode := r.opcode, rule := some r, dotslen := n } }
        else walkChainC t mode ctx input pos length before prevOp vars rest

def selectRuleC (t : Table) (mode : Nat) (ctx : Ctx) (input : List Nat) (pos : Nat) (before prevOp : Nat) (vars : List Nat) : SelC :=
  let length := input.length - pos
  let d0 := t.getDots (inAt input pos)
  let s0 := if length < 2 || (ctx.itsANumber != 0 && d0.attrs &&& CTC_LitDigit != 0) then none else
    walkChainC t mode ctx input pos length before prevOp vars
      (t.backBucket ((d0.value * 256 + (t.getDots (inAt input (pos + 1))).value) % HASHNUM))
  match s0 with
  | some s => s
  | none =>
    match (if length ≥ 1 then walkChainC t mode ctx input pos 1 before prevOp vars d0.chain else none) with
    | some s => s
    | none => { sel := { opcode := CTO_None, rule := none, dotslen := 1 } }

/-! ### `back_passDoAction` for a context rule -/

inductive ActC where
  | unsupported
  | fail (o : Out) (vars : List Nat)
  | ok (o : Out) (newPos : Int) (vars : List Nat)
  deriving Repr

/-- `copyCharacters` with `currentOpcode == CTO_Context` (1520-1530) -/
def copyChars (t : Table) (mode : Nat) (input : List Nat) (max : Nat) : Nat → Int → Int → Out → Out × Bool
  | 0, _, _, o => (o, true)
  | k + 1, frm, to, o =>
    if frm < to then
      match putCharacter t mode (Pass.elem input frm) frm.toNat input max o with
      | none => (o, false)
      | some o' => copyChars t mode input max k (frm + 1) to o'
    else (o, true)

/-- `for (k = a; k < b; k++) posMapping[k] = v` -/
def setRange (m : List (Option Int)) (a b : Int) (v : Int) : List (Option Int) :=
  (List.range (b - a).toNat).foldl (fun m k => setMap m (a.toNat + k) v) m

/-- `memmove(&out[destStartMatch], &out[destStartReplace], count); length -= count` -/
def moveOut (o : Out) (dsm dsr : Nat) : Out :=
  let count := dsr - dsm
  let src := (o.chars.drop dsr).take count
  { o with chars := (o.chars.take dsm ++ src ++ o.chars.drop (dsm + src.length)).take (o.chars.length - count) }

def actLoopC (t : Table) (mode : Nat) (p : List Nat) (input : List Nat) (m : Pass.Match) (max : Nat) (destStartMatch : Nat) :
    Nat → Nat → Out → Nat → Int → List Nat → ActC
  | 0, _, _, _, _, _ => .unsupported
  | fuel + 1, ic, o, destStartReplace, newPos, vars =>
    if ic ≥ p.length then .ok o newPos vars
    else
      let op := Pass.ins p ic
      if op == pass_string || op == pass_dots then
        let n := Pass.ins p (ic + 1)
        if o.chars.length + n > max then .fail o vars
        else actLoopC t mode p input m max destStartMatch fuel (ic + n + 2) { o with chars := o.chars ++ Pass.literal p ic }
              destStartReplace newPos vars
      else if op == pass_omit then actLoopC t mode p input m max destStartMatch fuel (ic + 1) o destStartReplace newPos vars
      else if op == pass_copy then
        let count := destStartReplace - destStartMatch
        if count > 0 && destStartReplace + count > max then .fail o vars else
        let o1 := if count > 0 then moveOut o destStartMatch destStartReplace else o
        let dsr := if count > 0 then destStartMatch else destStartReplace
        match copyChars t mode input max (m.endReplace - m.startReplace).toNat m.startReplace m.endReplace o1 with
        | (o2, false) => .fail o2 vars
        | (o2, true) =>
          actLoopC t mode p input m max destStartMatch fuel (ic + 1)
            { o2 with map := setRange o2.map m.endReplace m.endMatch o2.chars.length } dsr m.endMatch vars
      else
        match Pass.varAction p ic vars with
        | some (vars', len) => actLoopC t mode p input m max destStartMatch fuel (ic + len) o destStartReplace newPos vars'
        | none => .unsupported             -- (backward swap: outside the fragment)

def actionC (t : Table) (mode : Nat) (p : List Nat) (input : List Nat) (m : Pass.Match) (ic : Nat) (max : Nat) (o : Out) (vars : List Nat) : ActC :=
  match copyChars t mode input max (m.startReplace - m.startMatch).toNat m.startMatch m.startReplace o with
  | (o1, false) => .fail o1 vars
  | (o1, true) =>
    actLoopC t mode p input m max o.chars.length (p.length + 1) ic
      { o1 with map := setRange o1.map m.startReplace m.endReplace o1.chars.length } o1.chars.length m.endReplace vars

structure StC where
  st : St := {}
  vars : List Nat := List.replicate NUMVAR 0
  unsupported : Bool := false
  failed : Bool := false          -- `return 0` out of the pass (a selected context rule whose action does not fit)
  deriving Repr

/-- `emitted` of Backward.lean's step for an ordinary rule -/
def emitPlain (t : Table) (mode : Nat) (input : List Nat) (maxlen : Nat) (sel : Sel) (st : St) : Option (Nat × Out) :=
  if sel.opcode == CTO_None then
    (undefinedDots (inAt input st.pos) mode st.pos maxlen st.out).map fun o => (st.pos + 1, o)
  else match sel.rule with
    | none => none
    | some r =>
      if r.chars.length > 0 then
        (updatePositions r.chars r.dots.length st.pos input maxlen st.out).map fun o => (st.pos + sel.dotslen, o)
      else step.each t mode input maxlen sel.dotslen st.pos st.out

/-- replacement processing: (new position, output, variables) or none = `goto failure`; the flags say
    "outside the fragment" and "`return 0` out of the pass" -/
def replC (t : Table) (mode : Nat) (input : List Nat) (maxlen : Nat) (s : SelC) (st : St) (vars : List Nat) :
    Option (Nat × Out × List Nat) × Bool × Bool :=
  match s.ctx with
  | some (r, m, ic) =>
    match actionC t mode r.dots input m ic maxlen st.out vars with
    | .unsupported => (none, true, false)
    | .fail _ _ => (none, false, true)
    | .ok o' np vars' => (some (np.toNat, o', vars'), false, false)
  | none => ((emitPlain t mode input maxlen s.sel st).map fun x => (x.1, x.2, vars), false, false)

/-- processing after replacement: `passSelectRule` at the new position; none = outside the fragment.  The last
    component is the opcode the iteration ends with (`context` or `always`) -/
def afterC (t : Table) (mode : Nat) (input : List Nat) (maxlen : Nat) (p' : Nat) (o' : Out) (vars1 : List Nat) :
    Option (Nat × Out × List Nat × Nat) :=
  match Pass.select ⟨t, true, vars1⟩ true 1 (Pass.rulesOf t (t.backPassChain 1)) input p' with
  | .unsupported => none
  | .rule r m ic =>
    (match actionC t mode r.dots input m ic maxlen o' vars1 with
     | .unsupported => none
     | .fail o'' vs => some (p', o'', vs, CTO_Context)          -- the result of the action is ignored
     | .ok o'' np vs => some (np.toNat, o'', vs, CTO_Context))
  | .none => some (p', o', vars1, CTO_Always)

/-- the bookkeeping that ends an iteration -/
def finishC (t : Table) (input : List Nat) (st : St) (p2 : Nat) (o2 : Out) (op2 : Nat) : St :=
  let st := { st with pos := p2, out := o2 }
  let st := if p2 > 0 && isSpaceDots t (inAt input (p2 - 1)) && op2 != CTO_JoinableWord then
      { st with srcword := p2, destword := o2.chars.length } else st
  let prev := if (CTO_Always ≤ op2 && op2 ≤ CTO_None) || (CTO_Digit ≤ op2 && op2 ≤ CTO_LitDigit) then op2 else st.prevOp
  { st with prevOp := prev }

/-- the context adjustment at the head of an iteration -/
def headCtx (t : Table) (st : St) : Ctx :=
  let before := beforeAttrs t st.out
  if st.ctx.itsANumber == 2 && st.out.chars.length > 0 && before &&& CTC_LitDigit == 0 &&
     before &&& CTC_NumericMode == 0 && before &&& CTC_MidEndNumericMode == 0
  then { st.ctx with itsANumber := 0 } else st.ctx

/-- "processing before replacement": what the selected opcode does to the translation context -/
def ctxAfterSel (sel : Sel) (ctx : Ctx) : Ctx :=
  let ctx := if sel.opcode == CTO_LitDigit then { ctx with itsANumber := 2 } else ctx
  if sel.opcode == CTO_Space then { itsANumber := 0, itsALetter := false } else ctx

/-- one iteration; the Bool says the loop is over -/
def stepC (t : Table) (mode : Nat) (input : List Nat) (maxlen : Nat) (sc : StC) : StC × Bool :=
  let st := sc.st
  let ctx := headCtx t st
  let s := selectRuleC t mode ctx input st.pos (beforeAttrs t st.out) st.prevOp sc.vars
  if s.unsupported then ({ sc with unsupported := true }, true) else
  let sel := s.sel
  let st := { st with ctx := ctx, applied := st.applied ++ [sel.rule] }
  if sel.opcode == CTO_NumberSign then
    let m := (List.range sel.dotslen).foldl (fun m k => setMap m (st.pos + k) st.out.chars.length) st.out.map
    ({ sc with st := { st with pos := st.pos + sel.dotslen, out := { st.out with map := m },
                               ctx := { itsANumber := 1, itsALetter := st.ctx.itsALetter } } }, false)
  else
    let st := { st with ctx := ctxAfterSel sel ctx }
    let repl := replC t mode input maxlen s st sc.vars
    if repl.2.1 then ({ sc with st := st, unsupported := true }, true) else
    if repl.2.2 then ({ sc with st := st, failed := true }, true) else
    match repl.1 with
    | none => ({ sc with st := st }, true)
    | some (p', o', vars1) =>
      match afterC t mode input maxlen p' o' vars1 with
      | none => ({ sc with st := st, unsupported := true }, true)
      | some (p2, o2, vars2, op2) => ({ sc with st := finishC t input st p2 o2 op2, vars := vars2 }, false)

def loopC (t : Table) (mode : Nat) (input : List Nat) (maxlen : Nat) : Nat → StC → StC × Bool
  | 0, sc => (sc, false)
  | fuel + 1, sc =>
    if sc.st.pos < input.length then
      let (sc', done) := stepC t mode input maxlen sc
      if done then (sc', true) else loopC t mode input maxlen fuel sc'
    else (sc, true)

inductive ResC where
  | unsupported
  | fuel                    -- the bound was hit: where the implementation does not return either (F2)
  | failed                  -- the pass returns 0
  | done (r : PassResult)
  deriving Repr

def translateC (t : Table) (mode : Nat) (input : List Nat) (maxlen : Nat) (cpos : Int) : ResC :=
  let (sc, fin) := loopC t mode input maxlen (4 * input.length + 4) { st := { out := { cpos := cpos, cstat := 0 } } }
  if sc.unsupported then .unsupported else
  if !fin then .fuel else
  if sc.failed then .failed else
  let st := sc.st
  let (pos, ochars) :=
    if st.destword != 0 && st.pos < input.length && !isSpaceDots t (inAt input st.pos) then
      (st.srcword, st.out.chars.take st.destword)
    else (st.pos, st.out.chars)
  let (pos, m) := if pos < input.length then translate.skip t input ochars (input.length + 1) pos st.out.map else (pos, st.out.map)
  .done { out := ochars, map := m.take pos, realInlen := pos, cpos := st.out.cpos, cstat := st.out.cstat, applied := st.applied }

def unsupportedC (t : Table) : Option String :=
  if t.letterSign.isSome || t.noContractSign.isSome || t.noNumberSign.isSome then some "letsign/nocontractsign" else
  if !t.emph.isEmpty then some "emphasis/caps indicators" else
  match t.rules.find? (fun r => !Pass.isPassOpcode r.opcode &&
      (!opcodeOK r.opcode || r.after != 0 || r.before != 0 || r.hasPatterns)) with
  | some r => some s!"rule {r.idx} opcode {r.opcode}"
  | none =>
    match t.rules.find? (fun r => r.opcode == CTO_Context && (r.after != 0 || r.before != 0 || r.hasPatterns)) with
    | some r => some s!"context rule {r.idx} with before/after"
    | none => none

end Lou.BackC
