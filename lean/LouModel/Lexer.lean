/-
  Lexer.lean — byte-level model of the table reader of liblouis
  (liblouis/compileTranslationTable.c; UCS-2 build, `widechar` = 16 bit, CHARSIZE = 2).

    getAChar            l.288-341   bytes → characters; encoding detection on the first two bytes
    _lou_getALine       l.343-358   characters → one line (CR dropped everywhere, LF ends, cap MAXSTRING-1)
    getToken            l.370-392   next run of characters > 32
    hexValue            l.1258-1277
    parseChars          l.1283-1408 escapes + UTF-8 decoding of a token
    _lou_extParseChars  l.1410-1422
    parseDots           l.1424-1523
    _lou_extParseDots   l.1525-1542
    compileRule (head)  l.2886-2888 blank line / comment test
    compileFile (loop)  l.4889      `while (_lou_getALine(&file)) compileRule(...)`

  Characters, bytes, cells, lengths are `Nat`; truncations are written where the C truncates.
  `x & 0xff`, `x & 0x3f`, `x & 0x0040`, `x << 6`, `ch & (0xFF - first0Bit[n])` are written with
  `%`, `/`, `*` (the same functions on non-negative integers; `omega` can then reason about them).

  QUIRKS of the code that the model reproduces (each is exercised by the differential test):
   Q1  encoding detection looks at the first TWO bytes only: FE FF → UTF-16BE, FF FE → UTF-16LE, both < 128 →
       "ASCII 8" (bytes are passed on one by one, UTF-8 is decoded later, per token, by parseChars);
       anything else (e.g. a file that starts with a UTF-8 multi-byte character or a UTF-8 BOM) is an error
       and the file reads as empty.
   Q2  a file of exactly ONE byte yields no character at all (the byte waits for a second one).
   Q3  UTF-16 with an odd number of bytes: the last byte is dropped silently.
   Q4  CR (13) is dropped wherever it occurs, not only before LF.
   Q5  a line holds at most MAXSTRING-1 = 2047 characters; when a further character (not LF) arrives, the line
       ends and THAT CHARACTER IS LOST; the remainder starts a new line.
   Q6  the last line needs no LF; an empty last line (EOF directly after LF) is not a line.
   Q7  every character ≤ 32 (including NUL) separates tokens.
   Q8  getToken's own length guard allows MAXSTRING characters and then writes the terminator at index
       MAXSTRING (one past the array); only the line cap (Q5) keeps tokens ≤ MAXSTRING-1 (`TokRes.overflow`).
   Q9  parseChars takes `chars[in] & 0xff` for the lead position (high byte of a UTF-16 character is ignored
       there) but the FULL character for the character after a backslash and for continuation bytes.
   Q10 `\x` needs 4 more characters in the token, otherwise it yields a literal 'x' (no error); a bad hex digit
       logs an error, yields 0xffff and parseChars still returns success.
   Q11 `\y` `\z` (and `\Y` `\Z`, which also warn) log "not compiled for 32-bit Unicode", yield the letter itself
       and parsing continues with success.
   Q12 a backslash at the end of the token reads the character behind the token (`term`: the NUL that
       getToken/_lou_extParseChars wrote; compilePassOpcode passes a string that is NOT terminated).
   Q13 invalid UTF-8 continuation: a warning, the character AFTER the lead byte (`chars[lastIn]`) is emitted —
       not the lead byte —, reading resumes behind it, the `for` loop goes on with the next k, and the partial
       code point is emitted at the end as well.
   Q14 a lead byte 0x80..0xBF is a one-byte sequence with value `ch & 0x7f`; 0xFE/0xFF start 7-byte sequences;
       the code point is accumulated in 32 bits (wraps); a result > 0xffff is an error.
   Q15 parseDots: '0' is accepted only as the complete cell; a dot character after '0' is "invalid"; dots a-f
       (either case) are bits 9-14 (dots 10-15); a repeated dot is an error; every cell gets bit 15 (LOU_DOTS).
   Q16 _lou_extParseChars/_lou_extParseDots copy a C string of `char` (signed): bytes ≥ 128 arrive as 0xFFxx;
       at most MAXSTRING-1 bytes are looked at.  _lou_extParseDots fails when `errorCount` is non-zero for ANY
       reason (stale count of an earlier failed operation) and resets it.
-/
import LouModel.Basic

namespace Lou.Lexer

def MAXSTRING : Nat := 2048
def QUOTESUB : Nat := 28
def ENDSEGMENT : Nat := 0xffff
def DOTSBIT : Nat := 0x8000

/-! ## getAChar -/

inductive Enc where
  | noEncoding | bigEndian | littleEndian | ascii8
  deriving DecidableEq, Repr

/-- the fields of `FileInfo` that getAChar uses (`status`, `encoding`, `checkencoding[2]`) plus a counter of the
    compileError calls it made -/
structure Hdr where
  enc : Enc := .noEncoding
  status : Nat := 0
  ce0 : Nat := 0
  ce1 : Nat := 0
  errs : Nat := 0
  deriving DecidableEq, Repr

/-- the `while ((ch1 = fgetc(file->in)) != EOF)` loop of getAChar (l.299-340).  `bs` are the bytes not yet read. -/
def getACharLoop : List Nat → Hdr → Option Nat × List Nat × Hdr
  | [], h => (none, [], h)
  | ch1 :: bs, h =>
    let h1 : Hdr := if h.status = 0 then { h with ce0 := ch1 } else if h.status = 1 then { h with ce1 := ch1 } else h
    let h2 : Hdr := { h1 with status := h.status + 1 }
    if h2.status = 2 then
      if h2.ce0 = 0xfe ∧ h2.ce1 = 0xff then getACharLoop bs { h2 with enc := .bigEndian }
      else if h2.ce0 = 0xff ∧ h2.ce1 = 0xfe then getACharLoop bs { h2 with enc := .littleEndian }
      else if h2.ce0 < 128 ∧ h2.ce1 < 128 then (some h2.ce0, bs, { h2 with enc := .ascii8 })
      else (none, bs, { h2 with errs := h2.errs + 1 })
    else
      match h2.enc with
      | .noEncoding => getACharLoop bs h2
      | .ascii8 => (some ch1, bs, h2)
      | .bigEndian =>
        match bs with
        | [] => (none, [], h2)
        | ch2 :: bs' => (some ((ch1 * 256 + ch2) % 65536), bs', h2)
      | .littleEndian =>
        match bs with
        | [] => (none, [], h2)
        | ch2 :: bs' => (some ((ch2 * 256 + ch1) % 65536), bs', h2)

/-- getAChar (l.288-341): `none` = EOF -/
def getAChar (bs : List Nat) (h : Hdr) : Option Nat × List Nat × Hdr :=
  if h.enc = .ascii8 ∧ h.status = 2 then (some h.ce1, bs, { h with status := 3 })
  else getACharLoop bs h

/-- number of characters already fetched from the stream but not yet returned (the second byte of an
    "ASCII 8" file waits in `checkencoding[1]`) -/
def pend (h : Hdr) : Nat := if h.enc = .ascii8 ∧ h.status = 2 then 1 else 0

/-- what lou_readCharFromFile delivers: getAChar until EOF (fuel = bytes + 2 always suffices,
    `LouProofs/C16.lean: readChars_eq_decode`) -/
def readCharsLoop : Nat → List Nat → Hdr → List Nat → List Nat × Hdr
  | 0, _, h, acc => (acc, h)
  | f + 1, bs, h, acc =>
    match getAChar bs h with
    | (none, _, h') => (acc, h')
    | (some c, bs', h') => readCharsLoop f bs' h' (acc ++ [c])

def readChars (bs : List Nat) : List Nat × Hdr := readCharsLoop (bs.length + 2) bs {} []

/-! ### the character stream as a function of the bytes (specification level) -/

def pairsBE : List Nat → List Nat
  | a :: b :: r => (a * 256 + b) % 65536 :: pairsBE r
  | _ => []

def pairsLE : List Nat → List Nat
  | a :: b :: r => (b * 256 + a) % 65536 :: pairsLE r
  | _ => []

/-- characters of a whole file -/
def decode : List Nat → List Nat
  | b0 :: b1 :: r =>
    if b0 = 0xfe ∧ b1 = 0xff then pairsBE r
    else if b0 = 0xff ∧ b1 = 0xfe then pairsLE r
    else if b0 < 128 ∧ b1 < 128 then b0 :: b1 :: r
    else []
  | _ => []

/-- the file is rejected by the encoding test (Q1) -/
def badEncoding : List Nat → Bool
  | b0 :: b1 :: _ => !((b0 = 0xfe ∧ b1 = 0xff) ∨ (b0 = 0xff ∧ b1 = 0xfe) ∨ (b0 < 128 ∧ b1 < 128))
  | _ => false

/-- characters still to come from reader state `(bs, h)` -/
def remaining (bs : List Nat) (h : Hdr) : List Nat :=
  match h.enc with
  | .noEncoding => if h.status = 0 then decode bs else if h.status = 1 then decode (h.ce0 :: bs) else []
  | .ascii8 => if h.status = 2 then h.ce1 :: bs else bs
  | .bigEndian => pairsBE bs
  | .littleEndian => pairsLE bs

/-- reachable reader states: an encoding is only set when the second byte has been read -/
def Hdr.wf (h : Hdr) : Prop := h.enc = .noEncoding ∨ 2 ≤ h.status

/-! ## _lou_getALine -/

/-- the loop of _lou_getALine (l.348-352).  Result: (hit EOF, line, bytes left, header). -/
def getALineLoop : Nat → List Nat → Hdr → List Nat → Bool × List Nat × List Nat × Hdr
  | 0, bs, h, line => (true, line, bs, h)
  | f + 1, bs, h, line =>
    match getAChar bs h with
    | (none, bs', h') => (true, line, bs', h')
    | (some ch, bs', h') =>
      if ch = 13 then getALineLoop f bs' h' line
      else if ch = 10 ∨ MAXSTRING - 1 ≤ line.length then (false, line, bs', h')
      else getALineLoop f bs' h' (line ++ [ch])

/-- _lou_getALine: (return value, line, bytes left, header).  Fuel `bytes + 2` always suffices
    (`C16.getALine_spec`). -/
def getALine (bs : List Nat) (h : Hdr) : Bool × List Nat × List Nat × Hdr :=
  match getALineLoop (bs.length + 2) bs h [] with
  | (eof, line, bs', h') => (!(eof && line.isEmpty), line, bs', h')

/-- the loop of compileFile: all lines of a file, in order (line k is element k-1) -/
def fileLinesLoop : Nat → List Nat → Hdr → List (List Nat) → List (List Nat) × Hdr
  | 0, _, h, acc => (acc, h)
  | f + 1, bs, h, acc =>
    match getALine bs h with
    | (false, _, _, h') => (acc, h')
    | (true, line, bs', h') => fileLinesLoop f bs' h' (acc ++ [line])

def fileLines (bs : List Nat) : List (List Nat) × Hdr := fileLinesLoop (bs.length + 2) bs {} []

/-- specification level: the lines of a character stream.  `cur` = line under construction. -/
def splitLines : List Nat → List Nat → List (List Nat)
  | [], cur => if cur.isEmpty then [] else [cur]
  | c :: cs, cur =>
    if c = 13 then splitLines cs cur
    else if c = 10 ∨ MAXSTRING - 1 ≤ cur.length then cur :: splitLines cs []
    else splitLines cs (cur ++ [c])

/-! ## getToken, blank and comment lines -/

inductive TokRes where
  | none                                       -- no further token (return 0; an error iff a description was given)
  | tooLong                                    -- "more than 2048 characters" (return 0 + error)
  | overflow (t : List Nat)                    -- Q8: token of exactly MAXSTRING characters: terminator written out of bounds
  | tok (t : List Nat) (rest : List Nat)       -- return 1; `rest` = line from the new linepos on
  deriving DecidableEq, Repr

/-- getToken (l.370-392) on the part of the line from `linepos` on -/
def getToken (l : List Nat) : TokRes :=
  let l1 := l.dropWhile (· ≤ 32)
  let t := l1.takeWhile (32 < ·)
  let r := l1.dropWhile (32 < ·)
  if MAXSTRING < t.length then .tooLong
  else if t.isEmpty then .none
  else if t.length = MAXSTRING then .overflow t
  else .tok t (r.dropWhile (· ≤ 32))

/-- all tokens of a line (specification level) -/
def tokens : List Nat → List Nat → List (List Nat)
  | [], cur => if cur.isEmpty then [] else [cur]
  | c :: cs, cur =>
    if c ≤ 32 then (if cur.isEmpty then tokens cs [] else cur :: tokens cs [])
    else tokens cs (cur ++ [c])

/-- head of compileRule (l.2887-2888): a line without token, or whose first token starts with '#' or '<',
    is accepted and has no effect -/
def isInert (line : List Nat) : Bool :=
  match getToken line with
  | .none => true
  | .tok t _ => t.head? = some 35 || t.head? = some 60
  | .overflow t => t.head? = some 35 || t.head? = some 60
  | .tooLong => false

/-- the lines that reach the opcode switch, with their line numbers -/
def entries (ls : List (List Nat)) : List (List Nat) := ls.filter (fun l => !isInert l)

/-! ## hexValue, parseChars -/

def hexDigit? (c : Nat) : Option Nat :=
  if 48 ≤ c ∧ c ≤ 57 then some (c - 48)
  else if 97 ≤ c ∧ c ≤ 102 then some (c - 97 + 10)
  else if 65 ≤ c ∧ c ≤ 70 then some (c - 65 + 10)
  else none

/-- hexValue (l.1258-1277): `none` = "invalid n-digit hexadecimal number" (error, value 0xffff).
    `binaryValue |= hexDigit << (4 * (length - 1 - k))` is written in Horner form (the nibbles are disjoint). -/
def hexValue (digits : List Nat) : Option Nat :=
  (digits.foldlM (fun acc c => (hexDigit? c).map (fun d => acc * 16 + d)) 0).map (· % 65536)

/-- result of parseChars: return value, the characters written to `result->chars`, `result->length`,
    number of compileError / compileWarning calls -/
structure PC where
  ok : Bool
  chars : List Nat
  length : Nat
  errs : Nat
  warns : Nat
  deriving DecidableEq, Repr

inductive Esc where
  | val (ch : Nat) (skip : Nat) (e w : Nat)
  | invalid
  deriving DecidableEq, Repr

/-- the `switch (ch = token->chars[in])` after a backslash (l.1297-1363); `rest` = token from index `in` on,
    `term` = what is stored behind the token.  `skip` = how far `in` advances (including the final `in++`). -/
def escape (rest : List Nat) (term : Nat) : Esc :=
  let c := rest.headD term
  let hex (w : Nat) : Esc :=
    if 4 < rest.length then
      match hexValue ((rest.drop 1).take 4) with
      | some v => .val v 5 0 w
      | none => .val 0xffff 5 1 w
    else .val c 1 0 w
  if c = 92 then .val 92 1 0 0
  else if c = 101 then .val 0x1b 1 0 0       -- \e
  else if c = 102 then .val 12 1 0 0         -- \f
  else if c = 110 then .val 10 1 0 0         -- \n
  else if c = 114 then .val 13 1 0 0         -- \r
  else if c = 115 then .val 32 1 0 0         -- \s
  else if c = 116 then .val 9 1 0 0          -- \t
  else if c = 118 then .val 11 1 0 0         -- \v
  else if c = 119 then .val ENDSEGMENT 1 0 0 -- \w
  else if c = 34 then .val QUOTESUB 1 0 0    -- \"
  else if c = 88 then hex 1                  -- \X (deprecated: warning)
  else if c = 120 then hex 0                 -- \x
  else if c = 89 ∨ c = 90 then .val c 1 1 1  -- \Y \Z: warning + "not compiled for 32-bit Unicode"
  else if c = 121 ∨ c = 122 then .val c 1 1 0
  else .invalid

/-- number of continuation bytes announced by a lead byte (l.1376-1377) -/
def numBytes (ch : Nat) : Nat :=
  if 0xFE ≤ ch then 6 else if 0xFC ≤ ch then 5 else if 0xF8 ≤ ch then 4 else if 0xF0 ≤ ch then 3
  else if 0xE0 ≤ ch then 2 else if 0xC0 ≤ ch then 1 else 0

inductive Cont where
  | tooLong (out : List Nat) (w : Nat)
  | done (cur : List Nat) (curPos : Nat) (utf32 : Nat) (out : List Nat) (w : Nat)
  deriving DecidableEq, Repr

/-- the `for (k = 0; k < numBytes; k++)` loop (l.1379-1393).  `rest`/`restPos` = token from `lastIn` on. -/
def contLoop (rest : List Nat) (restPos : Nat) : Nat → List Nat → Nat → Nat → List Nat → Nat → Cont
  | 0, cur, curPos, u, out, w => .done cur curPos u out w
  | k + 1, cur, curPos, u, out, w =>
    match cur with
    | [] => .done cur curPos u out w
    | c :: cur' =>
      if MAXSTRING - 1 ≤ curPos then .done cur curPos u out w
      else if MAXSTRING - 1 ≤ out.length then .tooLong out w
      else if c < 128 ∨ (c / 64) % 2 = 1 then
        contLoop rest restPos k (rest.drop 1) (restPos + 1) u (out ++ [rest.headD 0]) (w + 1)
      else contLoop rest restPos k cur' (curPos + 1) ((u * 64 + c % 64) % 4294967296) out w

/-- the `while (in < token->length)` loop of parseChars -/
def parseCharsLoop (term : Nat) : Nat → List Nat → Nat → List Nat → Nat → Nat → Nat → PC
  | 0, _, _, out, lastOut, e, w => ⟨false, out, lastOut, e, w⟩
  | _ + 1, [], _, out, _, e, w => ⟨true, out, out.length, e, w⟩
  | f + 1, c0 :: rest, pos, out, lastOut, e, w =>
    let ch := c0 % 256
    if ch < 128 then
      if ch = 92 then
        match escape rest term with
        | .invalid => ⟨false, out, lastOut, e + 1, w⟩
        | .val v skip e' w' =>
          if MAXSTRING - 1 ≤ out.length then ⟨false, out, MAXSTRING - 1, e + e' + 1, w + w'⟩
          else parseCharsLoop term f (rest.drop skip) (pos + 1 + skip) (out ++ [v]) lastOut (e + e') (w + w')
      else if MAXSTRING - 1 ≤ out.length then ⟨false, out, MAXSTRING - 1, e + 1, w⟩
      else parseCharsLoop term f rest (pos + 1) (out ++ [ch]) lastOut e w
    else
      let lastOut' := out.length
      let n := numBytes ch
      match contLoop rest (pos + 1) n rest (pos + 1) (ch % 2 ^ (7 - n)) out w with
      | .tooLong out' w' => ⟨false, out', lastOut', e + 1, w'⟩
      | .done cur curPos u out' w' =>
        if MAXSTRING - 1 ≤ out'.length then ⟨false, out', lastOut', e + 1, w'⟩
        else if 0xffff < u then ⟨false, out', lastOut', e + 1, w'⟩
        else parseCharsLoop term f cur curPos (out' ++ [u]) lastOut' e w'

/-- parseChars (l.1283-1408) -/
def parseChars (tok : List Nat) (term : Nat := 0) : PC :=
  parseCharsLoop term (tok.length + 1) tok 0 [] 0 0 0

/-- the copy loops of _lou_extParseChars / _lou_extParseDots: C string of (signed) char → widechars -/
def extWiden (bs : List Nat) : List Nat :=
  ((bs.takeWhile (· ≠ 0)).take (MAXSTRING - 1)).map (fun b => if 128 ≤ b then 0xff00 + b % 256 else b)

/-- _lou_extParseChars: (return value, characters copied to the caller, errors, warnings) -/
def extParseChars (bs : List Nat) : Nat × List Nat × Nat × Nat :=
  let r := parseChars (extWiden bs) 0
  if r.ok then (r.length, r.chars.take r.length, r.errs, r.warns) else (0, [], r.errs, r.warns)

/-! ## parseDots -/

def dotBit? (c : Nat) : Option Nat :=
  if 49 ≤ c ∧ c ≤ 57 then some (2 ^ (c - 49))                 -- '1'..'9'
  else if 97 ≤ c ∧ c ≤ 102 then some (2 ^ (c - 97 + 9))       -- 'a'..'f'
  else if 65 ≤ c ∧ c ≤ 70 then some (2 ^ (c - 65 + 9))        -- 'A'..'F'
  else none

inductive DotsErr where
  | dup | missing | invalid (c : Nat)
  deriving DecidableEq, Repr

deriving instance DecidableEq for Except

/-- loop state of parseDots: finished cells, and the cell under construction
    (`none` = `index == start`, nothing read for this cell yet) -/
structure DState where
  cells : List Nat
  cur : Option Nat
  deriving DecidableEq, Repr

/-- one iteration of the `for` loop of parseDots (l.1432-1515) -/
def dotsStep (s : DState) (c : Nat) : Except DotsErr DState :=
  match dotBit? c with
  | some d =>
    match s.cur with
    | none => .ok { s with cur := some d }
    | some cell =>
      if cell = 0 then .error (.invalid c)
      else if cell &&& d ≠ 0 then .error .dup
      else .ok { s with cur := some (cell ||| d) }
  | none =>
    if c = 48 then
      match s.cur with
      | none => .ok { s with cur := some 0 }
      | some _ => .error (.invalid c)
    else if c = 45 then
      match s.cur with
      | none => .error .missing
      | some cell => .ok { cells := s.cells ++ [cell ||| DOTSBIT], cur := none }
    else .error (.invalid c)

def dotsFinish (s : DState) : Except DotsErr (List Nat) :=
  match s.cur with
  | none => .error .missing
  | some cell => .ok (s.cells ++ [cell ||| DOTSBIT])

/-- parseDots (l.1424-1523) -/
def parseDots (tok : List Nat) : Except DotsErr (List Nat) :=
  tok.foldlM dotsStep ⟨[], none⟩ >>= dotsFinish

/-- _lou_extParseDots with `errorCount = 0` on entry: (return value, cells, errors) -/
def extParseDots (bs : List Nat) : Nat × List Nat × Nat :=
  match parseDots (extWiden bs) with
  | .ok cells => (cells.length, cells, 0)
  | .error _ => (0, [], 1)

/-! ## line protocol -/

def showLines (ls : List (List Nat)) : String :=
  if ls.isEmpty then "." else ",".intercalate (ls.map showWide)

/-- `MCHARS bytes`      ↔ harness `READCHARS file`   (lou_readCharFromFile until EOF)
    `MLINES bytes`      ↔ harness `READLINES file`   (_lou_getALine until 0)
    `MPARSECHARS bytes` ↔ harness `PARSECHARS bytes` (_lou_extParseChars)
    `MPARSEDOTS bytes`  ↔ harness `PARSEDOTS bytes`  (_lou_extParseDots)
    `MTOKENS wide`      : the tokens of a line (no harness counterpart: getToken is static) -/
def handle? (toks : List String) : Option String :=
  match toks with
  | ["MCHARS", b] =>
    some <| match parseBytes b with
      | none => "BADOP"
      | some bs => let (cs, h) := readChars bs; s!"RC {showWide cs} e={h.errs} w=0"
  | ["MLINES", b] =>
    some <| match parseBytes b with
      | none => "BADOP"
      | some bs => let (ls, h) := fileLines bs; s!"LN {ls.length} {showLines ls} e={h.errs} w=0"
  | ["MPARSECHARS", b] =>
    some <| match parseBytes b with
      | none => "BADOP"
      | some bs => let (n, cs, e, w) := extParseChars bs; s!"PC {n} {showWide cs} e={e} w={w}"
  | ["MPARSEDOTS", b] =>
    some <| match parseBytes b with
      | none => "BADOP"
      | some bs => let (n, cs, e) := extParseDots bs; s!"PD {n} {showWide cs} e={e} w=0"
  | ["MTOKENS", w] =>
    some <| match parseWide w with
      | none => "BADOP"
      | some l => s!"TK {showLines (tokens l [])}"
  | "MCHARS" :: _ => some "BADOP"
  | "MLINES" :: _ => some "BADOP"
  | "MPARSECHARS" :: _ => some "BADOP"
  | "MPARSEDOTS" :: _ => some "BADOP"
  | "MTOKENS" :: _ => some "BADOP"
  | _ => none

end Lou.Lexer
