/-
  Alloc.lean — `_lou_allocMem` / `lou_free` (compileTranslationTable.c:5229-5392,
  after the F4 repair) as a state machine over the request history.

  Every remembered buffer is a `Slot`: the remembered size (`sizeTypebuf`, …) and
  the number of elements actually malloc'ed for the pointer (`none` = NULL).
  Capacities are in *elements* and include the `+4` slack, exactly what hook H5
  reports.
-/
namespace Lou.Alloc

/-- `AllocBuf` (internal.h); the order is re-checked against the C enum by Gen/Consts -/
inductive Buf where
  | typebuf | wordBuffer | emphasisBuffer | destSpacing | passbuf | posMapping1 | posMapping2 | posMapping3
  deriving Repr, DecidableEq

def Buf.ofNat? : Nat → Option Buf
  | 0 => some .typebuf | 1 => some .wordBuffer | 2 => some .emphasisBuffer | 3 => some .destSpacing
  | 4 => some .passbuf | 5 => some .posMapping1 | 6 => some .posMapping2 | 7 => some .posMapping3
  | _ => none

def MINSIZE : Int := 1024
def SLACK : Int := 4
def MAXPASSBUF : Nat := 3

structure Slot where
  size : Int := 0               -- the remembered size variable
  alloc : Option Int := none    -- elements behind the pointer; none = NULL
  deriving Repr, DecidableEq

/-- `if (want > size) { free; ptr = malloc((want + 4) * …); size = want; } return ptr;` -/
def Slot.request (s : Slot) (want : Int) : Slot :=
  if want > s.size then { size := want, alloc := some (want + SLACK) } else s

structure State where
  typebuf : Slot := {}
  destSpacing : Slot := {}
  passbuf0 : Slot := {}
  passbuf1 : Slot := {}
  passbuf2 : Slot := {}
  pm1 : Slot := {}
  pm2 : Slot := {}
  pm3 : Slot := {}
  deriving Repr, DecidableEq

inductive Op where
  | req (exact : Bool) (b : Buf) (index : Nat) (srcmax destmax : Int)
  | free
  deriving Repr

def imax (a b : Int) : Int := if a ≥ b then a else b

/-- the clamping at the top of `_lou_allocMem`; `exact` is hook H1 -/
def clampSize (exact : Bool) (x : Int) : Int :=
  if exact then (if x < 0 then 0 else x) else (if x < MINSIZE then MINSIZE else x)

def Slot.forget (s : Slot) : Slot := { s with size := -1 }

/-- H1 resets the remembered sizes so that every request reallocates -/
def forget (exact : Bool) (index : Nat) (s : State) : State :=
  if exact then
    { typebuf := s.typebuf.forget, destSpacing := s.destSpacing.forget,
      pm1 := s.pm1.forget, pm2 := s.pm2.forget, pm3 := s.pm3.forget,
      passbuf0 := if index = 0 then s.passbuf0.forget else s.passbuf0,
      passbuf1 := if index = 1 then s.passbuf1.forget else s.passbuf1,
      passbuf2 := if index = 2 then s.passbuf2.forget else s.passbuf2 }
  else s

/-- one request: new state and the slot handed out (`none` = index out of bounds: the C code
    exits; wordBuffer/emphasisBuffer are allocated afresh on every request) -/
def request (exact : Bool) (b : Buf) (index : Nat) (srcmax destmax : Int) (s0 : State) : Option (State × Slot) :=
  let sm := clampSize exact srcmax
  let dm := clampSize exact destmax
  let s := forget exact index s0
  match b with
  | .typebuf =>
    let d := if sm > dm then sm else dm
    let sl := s.typebuf.request d
    some ({ s with typebuf := sl }, sl)
  | .wordBuffer => some (s, { size := sm, alloc := some (sm + SLACK) })
  | .emphasisBuffer => some (s, { size := sm, alloc := some (sm + SLACK) })
  | .destSpacing =>
    let sl := s.destSpacing.request dm
    some ({ s with destSpacing := sl }, sl)
  | .passbuf =>
    match index with
    | 0 => let sl := s.passbuf0.request dm; some ({ s with passbuf0 := sl }, sl)
    | 1 => let sl := s.passbuf1.request dm; some ({ s with passbuf1 := sl }, sl)
    | 2 => let sl := s.passbuf2.request dm; some ({ s with passbuf2 := sl }, sl)
    | _ => none
  | .posMapping1 =>
    let sl := s.pm1.request (imax sm dm)
    some ({ s with pm1 := sl }, sl)
  | .posMapping2 =>
    let sl := s.pm2.request (imax sm dm)
    some ({ s with pm2 := sl }, sl)
  | .posMapping3 =>
    let sl := s.pm3.request (imax sm dm)
    some ({ s with pm3 := sl }, sl)

/-- what hook H5 reports for a request: the remembered size plus the slack -/
def reported (sl : Slot) : Int := sl.size + SLACK

def step (s : State) : Op → State × Option Slot
  | .free => ({}, none)
  | .req exact b i sm dm =>
    match request exact b i sm dm s with
    | some (s', sl) => (s', some sl)
    | none => (s, none)

/-- run a history; returns the final state and the slots handed out -/
def run : State → List Op → State × List (Option Slot)
  | s, [] => (s, [])
  | s, op :: ops =>
    let r := step s op
    let rest := run r.1 ops
    (rest.1, r.2 :: rest.2)

/-- what a caller of `_lou_allocMem` relies on: the elements it will index -/
def need (b : Buf) (srcmax destmax : Int) : Int :=
  match b with
  | .typebuf => imax srcmax destmax
  | .wordBuffer => srcmax
  | .emphasisBuffer => srcmax
  | .destSpacing => destmax
  | .passbuf => destmax
  | .posMapping1 => imax srcmax destmax
  | .posMapping2 => imax srcmax destmax
  | .posMapping3 => imax srcmax destmax

/-! ### protocol: `ALLOC {exact buf idx src dst | F}*` → reported capacities -/

def parseOps : List String → Option (List Op)
  | [] => some []
  | "F" :: rest => (parseOps rest).map (Op.free :: ·)
  | e :: b :: i :: s :: d :: rest => do
    let e ← e.toNat?
    let b ← b.toNat? >>= Buf.ofNat?
    let i ← i.toNat?
    let s ← s.toInt?
    let d ← d.toInt?
    let tl ← parseOps rest
    pure (Op.req (e != 0) b i s d :: tl)
  | _ => none

def handle? (toks : List String) : Option String :=
  match toks with
  | "ALLOC" :: rest =>
    match parseOps rest with
    | none => some "BADOP"
    | some ops =>
      let cs := (run {} ops).2
      some ("AL " ++ " ".intercalate (cs.filterMap fun c => c.map fun sl => toString (reported sl)))
  | _ => none

end Lou.Alloc
