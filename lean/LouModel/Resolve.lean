/-
  Resolve.lean — how a table name becomes a file name (C20).

  Transcribes, function by function, from /repo/liblouis/compileTranslationTable.c:

    resolveSubtable            4630-4712
    _lou_getTablePath          4714-4756   (non-_WIN32 branch)
    _lou_defaultTableResolver  4772-4818
    _lou_resolveTable          4839-4845   (default resolver only)
    includeFile                4933-4964   (what it hands to the resolver)
    compileTable               5007/5017/5027 (what it hands to the resolver)
    lou_setDataPath            58-67

  The file system is abstract: `fs : String → FileKind` is what `stat(path)`
  followed by the test `!(info.st_mode & S_IFDIR)` sees for the *path string as
  the C code built it* (no normalisation: "d//x" and "d/x" are different
  arguments of `fs`; a concrete `fs` built from a directory listing, which does
  the kernel's path walk, is `mkFS` below and is used only by the protocol
  handler).  C strings are Lean `String`s; `strlen` is `String.utf8ByteSize`.

  Quirks kept as they are (see also LouProofs/C20.lean):
   * the directory of `base` ends at the last '/' **or '\\'**, also on POSIX;
   * the candidate relative to the base is built by plain concatenation, also when
     the name is absolute ("/d/" ++ "/abs/x");
   * every search-path entry except the LAST also gets a `liblouis/tables` variant;
   * an empty search-path entry means ".";
   * a length check that fails aborts the WHOLE resolution (`goto failure`), later
     candidates are not tried;
   * in a list the base of the members after the first is the first member's NAME
     AS GIVEN, not the file it was resolved to;
   * the built-in TABLESDIR is searched only when LOUIS_TABLEPATH is unset or empty;
   * the data path contributes `<dataPath>/liblouis/tables`, and because the search
     path is re-split at ',' a comma inside LOUIS_TABLEPATH or the data path
     separates entries.
-/
import LouModel.Basic

namespace Lou.Resolve

/-- what `stat` + `st_mode & S_IFDIR` distinguish: `none` = stat fails, `dir` = the
    S_IFDIR bit (0040000) is set (directories, and also block devices and sockets,
    whose type codes 0060000 / 0140000 contain that bit), `file` = anything else -/
inductive FileKind where
  | none | file | dir
  deriving DecidableEq, Repr, Inhabited

abbrev FS := String → FileKind

/-- internal.h:77 -/
def MAXSTRING : Nat := 2048
/-- `#define MAX_TABLEFILE_SIZE (MAXSTRING * sizeof(char) * 2)` (4635) -/
def MAX_TABLEFILE_SIZE : Nat := 4096

/-- `strlen` -/
abbrev strlen (s : String) : Nat := s.utf8ByteSize

/-- `stat(tableFile, &info) == 0 && !(info.st_mode & S_IFDIR)` -/
def isFile (fs : FS) (p : String) : Bool := fs p == FileKind.file

/-! ### splitting at a separator character (the `for (cp = …; *cp != '\0' && *cp != ','; cp++)` loops) -/

/-- first field and remaining fields of a character list split at `sep` -/
def splitL (sep : Char) : List Char → List Char × List (List Char)
  | [] => ([], [])
  | x :: xs =>
    let r := splitL sep xs
    if x = sep then ([], r.1 :: r.2) else (x :: r.1, r.2)

/-- all fields (never the empty list: "" has the single field "") -/
def fieldsL (sep : Char) (l : List Char) : List (List Char) :=
  (splitL sep l).1 :: (splitL sep l).2

/-- the comma-separated fields of a C string, in order -/
def entries (s : String) : List String := (fieldsL ',' s.toList).map String.ofList

/-! ### resolveSubtable -/

def isSep (c : Char) : Bool := c == '/' || c == '\\'

/-- `k = strlen(s); while (k >= 0 && s[k] != '/' && s[k] != '\\') k--; s[++k] = 0;` -/
def dirPrefixL : List Char → List Char
  | [] => []
  | c :: cs => if cs.any isSep then c :: dirPrefixL cs else if isSep c then [c] else []

/-- the directory part of `base`, *including* the final separator ("" when there is none) -/
def dirPrefix (base : String) : String := String.ofList (dirPrefixL base.toList)

/-- `if (dir == cp) dir = ".";` (4681) -/
def dirOf (entry : String) : String := if entry = "" then "." else entry

/-- `sprintf(tableFile, "%s%c%s", dir, DIR_SEP, table)` (4686) -/
def cand1 (table entry : String) : String := dirOf entry ++ "/" ++ table

/-- `sprintf(tableFile, "%s%c%s%c%s%c%s", dir, DIR_SEP, "liblouis", DIR_SEP, "tables", DIR_SEP, table)` (4698) -/
def cand2 (table entry : String) : String := dirOf entry ++ "/liblouis/tables/" ++ table

/-- the loop 4676-4706 over the search-path entries; `none` is both "not found"
    and "a length check failed" (the C code returns NULL for both) -/
def searchLoop (fs : FS) (table : String) : List String → Option String
  | [] => none
  | e :: rest =>
    if strlen (dirOf e) + strlen table + 1 ≥ MAX_TABLEFILE_SIZE then none        -- 4682 goto failure
    else if isFile fs (cand1 table e) then some (cand1 table e)                    -- 4687
    else match rest with
      | [] => none                                                                  -- 4692 `if (last) break;`
      | _ :: _ =>
        if strlen (dirOf e) + 8 + 6 + strlen table + 3 ≥ MAX_TABLEFILE_SIZE then none   -- 4693
        else if isFile fs (cand2 table e) then some (cand2 table e)                -- 4700
        else searchLoop fs table rest

/-- lines 4661-4708: the name as given, then the search path -/
def resolveTail (fs : FS) (table searchPath : String) : Option String :=
  if strlen table ≥ MAX_TABLEFILE_SIZE then none                                   -- 4661
  else if isFile fs table then some table                                          -- 4663
  else if searchPath = "" then none                                                -- 4671
  else searchLoop fs table (entries searchPath)

/-- `resolveSubtable(table, base, searchPath)`; `base = none` is the NULL pointer.
    Result: the file name the C function returns (a fresh string equal to the
    candidate that matched), `none` = NULL. -/
def resolveSubtable (fs : FS) (table : String) (base : Option String) (searchPath : String) : Option String :=
  if table = "" then none                                                          -- 4636
  else match base with
    | none => resolveTail fs table searchPath
    | some b =>
      if strlen b ≥ MAX_TABLEFILE_SIZE then none                                   -- 4644
      else if strlen (dirPrefix b) + strlen table ≥ MAX_TABLEFILE_SIZE then none   -- 4649
      else if isFile fs (dirPrefix b ++ table) then some (dirPrefix b ++ table)    -- 4651
      else resolveTail fs table searchPath

/-! ### _lou_getTablePath -/

/-- `path != NULL && path[0] != '\0'` -/
def nonEmpty? : Option String → Option String
  | some s => if s = "" then none else some s
  | none => none

/-- the pieces written after each "," into the local buffer, in order of writing -/
def searchParts (env dataPath : Option String) (tablesDir : String) : List String :=
  (match nonEmpty? env with | some e => [e] | none => []) ++
  (match nonEmpty? dataPath with | some d => [d ++ "/liblouis/tables"] | none => []) ++
  (match nonEmpty? env with | some _ => [] | none => [tablesDir])

/-- `_lou_getTablePath()`: `env` = getenv("LOUIS_TABLEPATH"), `dataPath` = dataPathPtr,
    `tablesDir` = the compile-time TABLESDIR.  The buffer holds "," ++ part for each
    part; the result skips the first comma; "." when nothing was written
    (unreachable off Windows: TABLESDIR is always written when the variable is unset). -/
def getTablePath (env dataPath : Option String) (tablesDir : String) : String :=
  match searchParts env dataPath tablesDir with
  | [] => "."
  | ps => ",".intercalate ps

/-- the local buffer is `char searchPath[MAXSTRING]` and is filled with unchecked
    `sprintf`s: the function is defined (no stack overflow) only when the text
    written, its leading comma and the NUL fit. -/
def tablePathFits (env dataPath : Option String) (tablesDir : String) : Bool :=
  match searchParts env dataPath tablesDir with
  | [] => true
  | ps => strlen (",".intercalate ps) + 2 ≤ MAXSTRING

/-- `lou_setDataPath(path)`: new value of `dataPathPtr` (58-67) -/
def setDataPath (path : Option String) : Option String :=
  match path with
  | none => none
  | some p => if strlen p ≥ MAXSTRING then none else some p

/-! ### _lou_defaultTableResolver -/

/-- a log message (level, text); levels as in liblouis.h -/
abbrev Msg := Nat × String
def LOG_ERROR : Nat := 40000

/-- the loop 4795-4813.  `first` is `k == 0` on entry of the iteration: after the
    first member has been resolved `base` becomes that member's name *as given*
    (`if (k == 1) base = subTable;`). -/
def resolveList (fs : FS) (searchPath : String) : List String → Option String → Bool → Except String (List String)
  | [], _, _ => .ok []
  | m :: ms, base, first =>
    match resolveSubtable fs m base searchPath with
    | none => .error m
    | some p =>
      match resolveList fs searchPath ms (if first then some m else base) false with
      | .ok ps => .ok (p :: ps)
      | .error e => .error e

/-- result of the default resolver together with what it logs -/
structure Resolved where
  files : Option (List String)
  log : List Msg
  deriving Repr, DecidableEq

/-- `_lou_defaultTableResolver(tableList, base)` -/
def defaultTableResolver (fs : FS) (env dataPath : Option String) (tablesDir : String)
    (tableList : String) (base : Option String) : Resolved :=
  match resolveList fs (getTablePath env dataPath tablesDir) (entries tableList) base true with
  | .ok ps => { files := some ps, log := [] }
  | .error m =>
    { files := none,
      log := (LOG_ERROR, "Cannot resolve table '" ++ m ++ "'") ::
        (match nonEmpty? env with
         | some e => [(LOG_ERROR, "LOUIS_TABLEPATH=" ++ e)]
         | none => []) }

/-- `_lou_resolveTable` with the default resolver registered: a copy of the same list -/
def resolveTable := @defaultTableResolver

/-! ### the two callers -/

/-- `compileTable`: `_lou_resolveTable(tableList, NULL)`; NULL ⇒ `errorCount++`, no file
    is compiled, the call returns 0 after logging "%d errors found." -/
def compileTableResolve (fs : FS) (env dataPath : Option String) (tablesDir tableList : String) : Resolved :=
  resolveTable fs env dataPath tablesDir tableList none

/-- outcome of the `include` opcode as far as resolution goes -/
inductive IncludeOutcome where
  | compile (file : String)         -- compileFile(file) is called
  | unresolved                      -- `errorCount++; return 0;`
  | listNotSupported                -- compileError "Table list not supported in include statement"
  deriving Repr, DecidableEq

/-- `includeFile`: `_lou_resolveTable(includeThis, file->fileName)` where
    `file->fileName` is the name under which the including file was opened, i.e.
    exactly the string the resolver returned for it. -/
def includeResolve (fs : FS) (env dataPath : Option String) (tablesDir : String)
    (included includingFile : String) : IncludeOutcome × List Msg :=
  let r := resolveTable fs env dataPath tablesDir included (some includingFile)
  match r.files with
  | none => (.unresolved, r.log)
  | some [f] => (.compile f, r.log)
  | some _ => (.listNotSupported, r.log)

/-! ### a concrete file system from a listing (protocol handler only) -/

/-- NAME_MAX / PATH_MAX of Linux: longer components / paths make `stat` fail -/
def NAME_MAX : Nat := 255
def PATH_MAX : Nat := 4096

structure Listing where
  cwd : List String                       -- components of the working directory
  ents : List (List String × FileKind)    -- absolute, normalised component lists
  deriving Repr

/-- kind of an absolute normalised path: listed, or an ancestor of something listed
    (then a directory), or the root -/
def Listing.kindOf (l : Listing) (p : List String) : FileKind :=
  if p.isEmpty then .dir else
  match l.ents.find? (fun e => e.1 == p) with
  | some e => e.2
  | none => if l.ents.any (fun e => p.isPrefixOf e.1) || p.isPrefixOf l.cwd then .dir else .none

/-- the kernel's walk, without symbolic links -/
def Listing.walk (l : Listing) : List String → List String → FileKind
  | cur, [] => l.kindOf cur
  | cur, c :: cs =>
    if l.kindOf cur != .dir then .none                   -- ENOTDIR / ENOENT
    else if c == "" || c == "." then l.walk cur cs
    else if c == ".." then l.walk cur.dropLast cs
    else if strlen c > NAME_MAX then .none               -- ENAMETOOLONG
    else l.walk (cur ++ [c]) cs

def comps (s : String) : List String := (fieldsL '/' s.toList).map String.ofList

def mkFS (l : Listing) : FS := fun path =>
  if path = "" then .none
  else if strlen path ≥ PATH_MAX then .none
  else if path.toList.head? == some '/' then l.walk [] (comps path)
  else l.walk l.cwd (comps path)

/-! ### protocol -/

def hexStr? (h : String) : Option String := do
  let bs ← parseBytes h
  if bs.any (· ≥ 256) then none else
  String.fromUTF8? (ByteArray.mk (bs.map (·.toUInt8)).toArray)

def optHexStr? (h : String) : Option (Option String) :=
  if h == "null" then some none else (hexStr? h).map some

def parseEnt (t : String) : Option (List String × FileKind) :=
  match t.splitOn ":" with
  | [k, h] => do
    let p ← hexStr? h
    let kind ← if k == "f" then some FileKind.file else if k == "d" then some FileKind.dir else none
    if p.toList.head? != some '/' then none else
    pure ((comps p).filter (· != ""), kind)
  | _ => none

def showRS (r : Resolved) : String :=
  let errs := r.log.filter (fun m => m.1 ≥ LOG_ERROR)
  let body := match r.files with
    | none => " null"
    | some [] => " ."
    | some ps => String.join (ps.map (" " ++ ·))
  s!"RS{body} e={errs.length} w=0"

/-- `MRESOLVE cwd env|null datapath|null tablesdir list base|null {f|d}:path…`
    (all hex byte strings) answers what the harness prints for
    `RESOLVE list base` in that environment;
    `MTABLEPATH env|null datapath|null tablesdir` answers `TABLEPATH`. -/
def handle? (toks : List String) : Option String :=
  match toks with
  | "MRESOLVE" :: cwd :: env :: dp :: td :: list :: base :: ents =>
    some <| (do
      let cwd ← hexStr? cwd
      let env ← optHexStr? env
      let dp ← optHexStr? dp
      let td ← hexStr? td
      let list ← hexStr? list
      let base ← optHexStr? base
      let ents ← ents.mapM parseEnt
      if !tablePathFits env dp td then pure "UNSUPPORTED" else
      let fs := mkFS { cwd := (comps cwd).filter (· != ""), ents := ents }
      pure (showRS (resolveTable fs env dp td list base))).getD "BADOP"
  | "MRESOLVE" :: _ => some "BADOP"
  | ["MTABLEPATH", env, dp, td] =>
    some <| (do
      let env ← optHexStr? env
      let dp ← optHexStr? dp
      let td ← hexStr? td
      if !tablePathFits env dp td then pure "UNSUPPORTED" else
      pure ("TP " ++ getTablePath env dp td)).getD "BADOP"
  | "MTABLEPATH" :: _ => some "BADOP"
  | _ => none

end Lou.Resolve
