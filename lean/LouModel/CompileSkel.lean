/-
  CompileSkel.lean — control skeleton of table compilation and of the table cache
  (liblouis/compileTranslationTable.c):

    compileFile     l.4865-4901   reads lines until EOF or the first rule that fails; returns !errorCount
    compileTable    l.4970-5056   reset counters, allocate, built-in rule, resolve + compile the files
                                  (one go when both lists are the same string, else display then translation),
                                  cleanup: errorCount = 0 → return 1; else log "%d errors found.", free both
                                  tables, NULL both results, return 0
    getTable        l.5127-5220   look both lists up in their chains (move to front), compile what is missing,
                                  insert at the front ONLY after compileTable returned 1; on failure log
                                  "%s could not be compiled" and return

  What a file does to the table is abstracted to the two numbers the skeleton looks at: by how much
  `errorCount` grew and how many error-level messages were delivered meanwhile (`FileOut`).  The source
  inventory Gen/ErrorSites.lean (checked in LouProofs/C13.lean) is what relates the two.
-/
namespace Lou.CompileSkel

abbrev Tbl := Nat

/-- effect of compiling one file (with everything it includes), or one built-in rule -/
structure FileOut where
  errs : Nat      -- growth of errorCount
  logs : Nat      -- error-level messages delivered
  deriving DecidableEq, Repr

/-- `for (subTable = tableFiles; *subTable; subTable++) if (!compileFile(...)) goto cleanup;`
    compileFile returns `!errorCount` (the running total, not its own contribution) -/
def compileFiles : List FileOut → Nat → Nat → Nat × Nat × Bool
  | [], ec, lg => (ec, lg, false)
  | f :: r, ec, lg =>
    if ec + f.errs ≠ 0 then (ec + f.errs, lg + f.logs, true) else compileFiles r (ec + f.errs) (lg + f.logs)

structure CTIn where
  wantT : Bool                          -- translationTable != NULL
  wantD : Bool                          -- displayTable != NULL
  tl : Option String                    -- tableList (none = NULL)
  dl : Option String                    -- displayTableList
  resolveT : Option (List FileOut)      -- _lou_resolveTable(tableList): none = NULL, else how each file compiles
  resolveD : Option (List FileOut)      -- for the display list (compiled with table = NULL)
  resolveBoth : Option (List FileOut)   -- for the one-go path (both tables at once)
  resolveLogs : Nat                     -- error-level messages a failing resolver delivers
  pre : FileOut                         -- the built-in `space \xffff 123456789abcdef LOU_ENDSEGMENT`
  deriving Repr

structure CTOut where
  ret : Bool
  tbl : Option Tbl            -- *translationTable on return
  dsp : Option Tbl            -- *displayTable on return
  errorCount : Nat
  errLogs : Nat
  allocated : List Tbl
  freed : List Tbl
  deriving DecidableEq, Repr

def tblT : Tbl := 1
def tblD : Tbl := 2

/-- the part of compileTable between the allocation and `cleanup:`: (errorCount, error-level messages) at cleanup -/
def compileBody (i : CTIn) : Nat × Nat :=
  if i.wantD ∧ i.wantT ∧ i.tl = i.dl then
    -- "Compile the display and translation tables in one go"
    match i.resolveBoth with
    | none => (i.pre.errs + 1, i.pre.logs + i.resolveLogs)
    | some fs => ((compileFiles fs i.pre.errs i.pre.logs).1, (compileFiles fs i.pre.errs i.pre.logs).2.1)
  else
    -- display table first …
    let d : Nat × Nat × Bool :=
      if i.wantD then
        match i.resolveD with
        | none => (i.pre.errs + 1, i.pre.logs + i.resolveLogs, true)
        | some fs => compileFiles fs i.pre.errs i.pre.logs
      else (i.pre.errs, i.pre.logs, false)
    -- … then, unless a `goto cleanup` was taken, the translation table
    if d.2.2 then (d.1, d.2.1)
    else if i.wantT then
      match i.resolveT with
      | none => (d.1 + 1, d.2.1 + i.resolveLogs)
      | some fs => ((compileFiles fs d.1 d.2.1).1, (compileFiles fs d.1 d.2.1).2.1)
    else (d.1, d.2.1)

/-- compileTable -/
def compileTable (i : CTIn) : CTOut :=
  -- l.4975-4977: three early returns WITHOUT any message
  if (i.wantT ∧ i.tl = none) ∨ (i.wantD ∧ i.dl = none) ∨ (¬ i.wantT ∧ ¬ i.wantD) then
    ⟨false, none, none, 0, 0, [], []⟩
  else
    let alloc := (if i.wantT then [tblT] else []) ++ (if i.wantD then [tblD] else [])
    -- cleanup
    if (compileBody i).1 = 0 then
      ⟨true, if i.wantT then some tblT else none, if i.wantD then some tblD else none, 0, (compileBody i).2, alloc, []⟩
    else
      ⟨false, none, none, (compileBody i).1, (compileBody i).2 + 1, alloc, alloc⟩

/-- how getTable calls compileTable: a table is requested only together with its (non-empty) list -/
def Requested (i : CTIn) : Prop :=
  (i.wantT = true → i.tl ≠ none) ∧ (i.wantD = true → i.dl ≠ none) ∧ (i.wantT = true ∨ i.wantD = true)

/-! ## the cache -/

abbrev Chain := List (String × Tbl)

structure Chains where
  t : Chain
  d : Chain
  deriving DecidableEq, Repr

def find (k : String) (c : Chain) : Option Tbl := (c.find? (·.1 = k)).map (·.2)

/-- the lookup loops of getTable move the entry found to the head of the chain -/
def moveFront (k : String) (c : Chain) : Chain :=
  match c.find? (·.1 = k) with
  | none => c
  | some e => e :: c.eraseP (·.1 = k)

/-- result of compileTable as getTable sees it -/
structure CompileRes where
  ok : Bool
  newT : Option Tbl
  newD : Option Tbl
  errLogs : Nat
  deriving DecidableEq, Repr

structure GTOut where
  tbl : Option Tbl
  dsp : Option Tbl
  chains : Chains
  errLogs : Nat
  compiled : Bool          -- compileTable was called
  deriving DecidableEq, Repr

/-- getTable.  `tl`/`dl` = none when the list is NULL or "" or the caller passed a NULL result pointer.
    `compile tl dl needT needD` stands for compileTable. -/
def getTable (compile : Option String → Option String → Bool → Bool → CompileRes)
    (c : Chains) (tl dl : Option String) : GTOut :=
  let (ft, ct) := match tl with
    | none => (none, c.t)
    | some k => (find k c.t, moveFront k c.t)
  let (fd, cd) := match dl with
    | none => (none, c.d)
    | some k => (find k c.d, moveFront k c.d)
  let needT := tl.isSome && ft.isNone
  let needD := dl.isSome && fd.isNone
  if needT || needD then
    let r := compile tl dl needT needD
    if r.ok then
      let ct' := match tl, r.newT with
        | some k, some v => (k, v) :: ct
        | _, _ => ct
      let cd' := match dl, r.newD with
        | some k, some v => (k, v) :: cd
        | _, _ => cd
      ⟨if needT then r.newT else ft, if needD then r.newD else fd, ⟨ct', cd'⟩, r.errLogs, true⟩
    else
      ⟨ft, fd, ⟨ct, cd⟩, r.errLogs + 1, true⟩
  else
    ⟨ft, fd, ⟨ct, cd⟩, 0, false⟩

def keys (c : Chain) : List String := c.map (·.1)

end Lou.CompileSkel
