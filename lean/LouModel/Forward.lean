/-
  Forward.lean — the forward main pass (`translateString`, lou_translateString.c:3607-4025) with
  `for_selectRule` (1959-2286), `validMatch`, `setBefore/After`, `insertNumberSign`,
  `putCharacter`, `undefinedCharacter` and `for_updatePositions`, for the opcode fragment F0
  (DESIGN §6.3): character definitions, always, the word-position opcodes, numsign, `=` operand,
  `undefined`.  The model follows the code where code and documentation disagree:
    * single-character rules live in the chain of the *exact* character (case-sensitive),
      multi-character rules are compared case-folded;
    * `rule.after` is tested against the attributes of the character BEFORE the match and
      `rule.before` against the one AFTER it;
    * an unknown character is "space" (the static notFound record has CTC_Space).
  Everything outside the fragment makes `supported` answer with a reason.
-/
import LouModel.Table

namespace Lou.Fwd
open Lou Lou.Gen

/-- opcodes a rule may have in an F0 table -/
def opcodeOK (op : Nat) : Bool :=
  (CTO_Space ≤ op && op < CTO_UpLow && op != CTO_Grouping) || op == CTO_LitDigit ||
  op == CTO_Always || op == CTO_WholeWord || op == CTO_PartWord || op == CTO_LowWord ||
  op == CTO_SuffixableWord || op == CTO_PrefixableWord || op == CTO_BegWord || op == CTO_BegMidWord ||
  op == CTO_MidWord || op == CTO_MidEndWord || op == CTO_EndWord || op == CTO_NumberSign ||
  op == CTO_Undefined || op == CTO_Hyphen

/-- `none` = the table is inside the modelled fragment -/
def unsupported (t : Table) : Option String :=
  if t.numPasses != 1 || t.corrections then some "multipass" else
  if t.usesSequences || t.usesNumericMode || t.syllables then some "sequences/numericmode/syllables" else
  if t.letterSign.isSome || t.noContractSign.isSome || t.noNumberSign.isSome then some "letsign/nocontractsign" else
  if !t.emph.isEmpty then some "emphasis/caps indicators" else
  if !t.forPass.isEmpty then some "context rules" else
  match t.rules.find? (fun r => !opcodeOK r.opcode || r.after != 0 || r.before != 0 || r.nocross || r.hasPatterns) with
  | some r => some s!"rule {r.idx} opcode {r.opcode}"
  | none =>
    if t.chars.any (fun c => c.compRule.isSome) then some "comprule" else none

/-- `toLowercase` (lou_translateString.c:225) -/
def toLower (_t : Table) (c : CharRec) : Nat :=
  if c.mode &&& CTC_UpperCase != 0 then
    match c.base with
    | some b => b     -- the base character carries the lower-case value (modes beyond upper-case: not in F0)
    | none => c.value
  else c.value

/-- `_lou_stringHash(&chars[pos], 1, table)` -/
def stringHashFolded (t : Table) (a b : Nat) : Nat :=
  ((toLower t (t.getChar a)) * 256 + toLower t (t.getChar b)) % HASHNUM

def isSpace (t : Table) (c : Nat) : Bool := (t.getChar c).attrs &&& CTC_Space != 0

/-- element of a pass input; the element just behind the end reads as NUL (first pass: the
    terminating NUL of the caller's string) -/
def inAt (input : List Nat) (i : Nat) : Nat := input.getD i 0

/-- output buffer with its position map and the cursor bookkeeping -/
structure Out where
  cells : List Nat := []
  map : List Int := []
  cpos : Int := -1
  cstat : Int := 1
  deriving Repr, DecidableEq

/-- `for_updatePositions` (lou_translateString.c:1519-1541) -/
def updatePositions (outChars : List Nat) (inLength : Nat) (shift : Int) (pos : Nat) (input : List Nat)
    (maxlen : Nat) (o : Out) : Option Out :=
  if o.cells.length + outChars.length > maxlen || pos + inLength > input.length then none else
  let (cp, cs) : Int × Int :=
    if o.cstat == 0 then
      if o.cpos ≥ pos && o.cpos < pos + inLength then ((o.cells.length : Int), 1)
      else if o.cpos == pos + inLength && inAt input o.cpos.toNat == 0 then
        ((o.cells.length : Int) + outChars.length / 2 + 1, 1)
      else (o.cpos, o.cstat)
    else if o.cstat == 2 && o.cpos == pos then ((o.cells.length : Int), o.cstat)
    else (o.cpos, o.cstat)
  some { cells := o.cells ++ outChars, map := o.map ++ List.replicate outChars.length ((pos : Int) + shift),
         cpos := cp, cstat := cs }

/-- `_lou_showString(&c, 1, 1)`: `'\xhhhh'` (UCS-2: at most four hex digits) -/
def showHex (c : Nat) : List Nat :=
  let h := [hexChar (c / 4096 % 16), hexChar (c / 256 % 16), hexChar (c / 16 % 16), hexChar (c % 16)]
  ("'\\x".toList ++ h ++ ['\'']).map Char.toNat

/-- first character-definition rule with exactly one cell in the character's chain -/
def firstDefCell (t : Table) (c : Nat) : Option Nat :=
  ((t.getChar c).chain.filterMap t.rule?).findSome? fun r =>
    if CTO_Space ≤ r.opcode && r.opcode < CTO_UpLow && r.dots.length == 1 then r.dots.head? else none

/-- `undefinedCharacter` (lou_translateString.c:2287-2321) -/
def undefinedCharacter (t : Table) (mode : Nat) (c : Nat) (pos : Nat) (input : List Nat) (maxlen : Nat) (o : Out) : Option Out :=
  match t.undefined.bind t.rule? with
  | some r => updatePositions r.dots r.chars.length 0 pos input maxlen o
  | none =>
    let text := if hasBit mode mNoUndefined then [] else showHex c
    let dots := text.map fun ch =>
      match firstDefCell t ch with
      | some d => if d != 0 then d else fallbackDots.getD ch 0
      | none => fallbackDots.getD ch 0
    updatePositions dots 1 0 pos input maxlen o

/-- `putCharacter` (lou_translateString.c:2324-2339) -/
def putCharacter (t : Table) (mode : Nat) (c : Nat) (pos : Nat) (input : List Nat) (maxlen : Nat) (o : Out) : Option Out :=
  let cd := t.getChar c
  let cd := if cd.defRule.isNone then (match cd.base with | some b => t.getChar b | none => cd) else cd
  match cd.defRule.bind t.rule? with
  | some r => updatePositions r.dots 1 0 pos input maxlen o
  | none => undefinedCharacter t mode c pos input maxlen o

/-- `setBefore` / `setAfter` (1582-1602) -/
def beforeAttrs (t : Table) (input : List Nat) (pos : Nat) : Nat :=
  let b := if pos ≥ 2 && inAt input (pos - 1) == LOU_ENDSEGMENT then inAt input (pos - 2)
           else if pos == 0 then ' '.toNat else inAt input (pos - 1)
  (t.getChar b).attrs

def afterAttrs (t : Table) (input : List Nat) (pos length : Nat) : Nat :=
  let a := if pos + length + 2 < input.length && inAt input (pos + 1) == LOU_ENDSEGMENT then inAt input (pos + 2)
           else if pos + length < input.length then inAt input (pos + length) else ' '.toNat
  (t.getChar a).attrs

/-- `validMatch` (1638-1672) with typebuf all zero -/
def validMatch (t : Table) (input : List Nat) (pos : Nat) (r : Rule) : Bool :=
  let n := r.chars.length
  if n == 0 then false else
  let rec go (k : Nat) (rc : List Nat) (prevAttr : Nat) : Bool :=
    match rc with
    | [] => true
    | rch :: rest =>
      let ic := inAt input k
      if ic == LOU_ENDSEGMENT then (k == pos && n == 1) else
      let inputChar := t.getChar ic
      let prevAttr := if k == pos then inputChar.attrs else prevAttr
      let ruleChar := t.getChar rch
      if toLower t inputChar != toLower t ruleChar then false else
      if inputChar.attrs != CTC_Letter &&
         (k != pos + 1 && prevAttr &&& CTC_Letter != 0 && inputChar.attrs &&& CTC_Letter != 0 &&
          (inputChar.attrs &&& (CTC_LowerCase ||| CTC_UpperCase ||| CTC_Letter)) !=
            (prevAttr &&& (CTC_LowerCase ||| CTC_UpperCase ||| CTC_Letter))) then false
      else go (k + 1) rest inputChar.attrs
  go pos r.chars 0

/-- the outcome of checking one candidate rule in `for_selectRule`'s switch -/
def opcodeAccepts (op : Nat) (mode : Nat) (dontContract : Bool) (before after : Nat) (prevOp : Nat) : Bool :=
  let nc := dontContract || hasBit mode mNoContractions
  let b (m : Nat) : Bool := before &&& m != 0
  let a (m : Nat) : Bool := after &&& m != 0
  if (CTO_Space ≤ op && op < CTO_UpLow) || op == CTO_LitDigit || op == CTO_Hyphen then true
  else if op == CTO_Always then !nc
  else if op == CTO_WholeWord then !nc && b (CTC_Space ||| CTC_Punctuation) && a (CTC_Space ||| CTC_Punctuation)
  else if op == CTO_PartWord then !nc && (b CTC_Letter || a CTC_Letter)
  else if op == CTO_LowWord then !nc && b CTC_Space && a CTC_Space && prevOp != CTO_JoinableWord
  else if op == CTO_SuffixableWord then !nc && b (CTC_Space ||| CTC_Punctuation) && a (CTC_Space ||| CTC_Letter ||| CTC_Punctuation)
  else if op == CTO_PrefixableWord then !nc && b (CTC_Space ||| CTC_Letter ||| CTC_Punctuation) && a (CTC_Space ||| CTC_Punctuation)
  else if op == CTO_BegWord then !nc && b (CTC_Space ||| CTC_Punctuation) && a CTC_Letter
  else if op == CTO_BegMidWord then !nc && b (CTC_Letter ||| CTC_Space ||| CTC_Punctuation) && a CTC_Letter
  else if op == CTO_MidWord then !nc && b CTC_Letter && a CTC_Letter
  else if op == CTO_MidEndWord then !nc && b CTC_Letter && a (CTC_Letter ||| CTC_Space ||| CTC_Punctuation)
  else if op == CTO_EndWord then !nc && b CTC_Letter && a (CTC_Space ||| CTC_Punctuation)
  else false

/-- what `for_selectRule` hands back -/
structure Sel where
  opcode : Nat
  rule : Option Rule         -- none = the pseudo rule (CTO_None)
  charslen : Nat
  deriving Repr, DecidableEq

/-- walk one chain (`while (ruleOffset)`); `single` = tryThis 1 (no character comparison) -/
def walkChain (t : Table) (mode : Nat) (dontContract : Bool) (input : List Nat) (pos length : Nat)
    (before prevOp : Nat) (single : Bool) : List Nat → Option Sel
  | [] => none
  | i :: rest =>
    match t.rule? i with
    | none => none      -- dangling index: an inconsistent image (C12), not a model concern
    | some r =>
      let n := r.chars.length
      if (single || (n ≤ length && validMatch t input pos r)) &&
         opcodeAccepts r.opcode mode dontContract before (afterAttrs t input pos n) prevOp then
        some { opcode := r.opcode, rule := some r, charslen := n }
      else walkChain t mode dontContract input pos length before prevOp single rest

/-- `for_selectRule` for the fragment (no compbrl region: length = input.length − pos) -/
def selectRule (t : Table) (mode : Nat) (dontContract : Bool) (input : List Nat) (pos : Nat)
    (before prevOp : Nat) : Sel :=
  let length := input.length - pos
  let s0 := if length ≥ 2 then
      walkChain t mode dontContract input pos length before prevOp false
        (t.forBucket (stringHashFolded t (inAt input pos) (inAt input (pos + 1))))
    else none
  match s0 with
  | some s => s
  | none =>
    match (if length ≥ 1 then
        walkChain t mode dontContract input pos 1 before prevOp true (t.getChar (inAt input pos)).chain
      else none) with
    | some s => s
    | none => { opcode := CTO_None, rule := none, charslen := 1 }

/-- `insertNumberSign` (1675-1689) -/
def insertNumberSign (t : Table) (input : List Nat) (pos : Nat) (prevOp before : Nat) (maxlen : Nat) (o : Out) : Option Out :=
  match t.numberSign.bind t.rule? with
  | some ns =>
    if pos < input.length && (t.getChar (inAt input pos)).attrs &&& CTC_Digit != 0 &&
       (prevOp == CTO_ExactDots || (before &&& CTC_Digit == 0 && prevOp != CTO_MidNum)) then
      updatePositions ns.dots 0 0 pos input maxlen o
    else some o
  | none => some o

structure St where
  pos : Nat := 0
  out : Out := {}
  transOpcode : Nat := CTO_None
  prevOp : Nat := CTO_None
  dontContract : Bool := false
  lastIn : Nat := 0
  lastOut : Nat := 0
  applied : List (Option Rule) := []
  deriving Repr

/-- the emission part of one iteration ("replacement processing", 3845-3895).  The Bool is false when
    the code jumps to `failure:`; position and output then keep whatever progress was made (the `=`
    operand emits character by character and may fail half-way) -/
def emit (t : Table) (mode : Nat) (input : List Nat) (maxlen : Nat) (s : Sel) (pos : Nat) (o : Out) : Nat × Out × Bool :=
  if s.opcode == CTO_None then
    match putCharacter t mode (inAt input pos) pos input maxlen o with
    | some o' => (pos + 1, o', true)
    | none => (pos, o, false)
  else
    match s.rule with
    | none => (pos, o, false)
    | some r =>
      if r.dots.length > 0 then
        match updatePositions r.dots s.charslen 0 pos input maxlen o with
        | some o' => (pos + s.charslen, o', true)
        | none => (pos, o, false)
      else
        -- `=` operand: every character of the match through its own definition
        let rec each (k : Nat) (p : Nat) (o : Out) : Nat × Out × Bool :=
          match k with
          | 0 => (p, o, true)
          | k + 1 =>
            match putCharacter t mode (inAt input p) p input maxlen o with
            | none => (p, o, false)
            | some o' => if p + 1 ≥ input.length then (p + 1, o', true) else each k (p + 1) o'
        each s.charslen pos o

/-- one iteration of the main loop; `Sum.inr` = the loop is over (`true` = through `failure:` from
    inside the body, which is the same code as the normal exit) -/
def step (t : Table) (mode : Nat) (input : List Nat) (maxlen : Nat) (st : St) : St × Bool :=
  -- lastWord bookkeeping
  let st := if st.pos > 0 && isSpace t (inAt input (st.pos - 1)) && st.transOpcode != CTO_JoinableWord then
      { st with lastIn := st.pos, lastOut := st.out.cells.length } else st
  if st.pos == input.length then (st, true) else
  let before := beforeAttrs t input st.pos
  let sel := selectRule t mode st.dontContract input st.pos before st.prevOp
  let st := { st with transOpcode := sel.opcode }
  match insertNumberSign t input st.pos st.prevOp before maxlen st.out with
  | none => (st, true)
  | some o1 =>
    let st := { st with out := o1, applied := st.applied ++ [sel.rule] }
    let dc := if (t.getChar (inAt input st.pos)).attrs &&& (CTC_SeqDelimiter ||| CTC_Space) != 0 then false else st.dontContract
    let dc := if sel.opcode == CTO_Space then false else dc
    let st := { st with dontContract := dc }
    match emit t mode input maxlen sel st.pos st.out with
    | (p', o2, false) => ({ st with pos := p', out := o2 }, true)
    | (p', o2, true) =>
      let prev := if (CTO_Always ≤ sel.opcode && sel.opcode ≤ CTO_None) || (CTO_Digit ≤ sel.opcode && sel.opcode ≤ CTO_LitDigit)
                  then sel.opcode else st.prevOp
      ({ st with pos := p', out := o2, prevOp := prev }, false)

def loop (t : Table) (mode : Nat) (input : List Nat) (maxlen : Nat) : Nat → St → St
  | 0, st => st
  | fuel + 1, st =>
    let (st', done) := step t mode input maxlen st
    if done then st' else loop t mode input maxlen fuel st'

/-- result of the pass -/
structure PassResult where
  out : List Nat
  map : List Int
  realInlen : Nat
  cpos : Int
  cstat : Int
  applied : List (Option Rule)
  deriving Repr

/-- `translateString` for the fragment, including the `failure:` epilogue (back off to the start
    of the current word, skip following blanks) -/
def translate (t : Table) (mode : Nat) (input : List Nat) (maxlen : Nat) (cpos cstat : Int) : PassResult :=
  let st := loop t mode input maxlen (input.length + 2) { out := { cpos := cpos, cstat := cstat } }
  let (pos, ocells, omap) :=
    if st.lastOut != 0 && st.pos < input.length && !isSpace t (inAt input st.pos) then
      (st.lastIn, st.out.cells.take st.lastOut, st.out.map.take st.lastOut)
    else (st.pos, st.out.cells, st.out.map)
  let rec skip (fuel p : Nat) : Nat :=
    match fuel with
    | 0 => p
    | fuel + 1 => if p < input.length && isSpace t (inAt input p) then skip fuel (p + 1) else p
  let pos := if pos < input.length then skip (input.length + 1) pos else pos
  { out := ocells, map := omap, realInlen := pos, cpos := st.out.cpos, cstat := st.out.cstat, applied := st.applied }

end Lou.Fwd
