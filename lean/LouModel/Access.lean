/-
  Access.lean — the memory accesses the two translate drivers perform *themselves*
  (outside the per-pass engines), as explicit (buffer, index, capacity) triples.

  This is the part of memory safety that is logic: which buffer has which
  capacity, and which index expressions the driver evaluates.  Each entry is
  transcribed from the C statement named in its label.  The capacities of the
  scratch buffers are those handed out by the allocator model (`Alloc.lean`);
  caller arrays have exactly their documented sizes.
-/
import LouModel.Driver

namespace Lou.Drv

structure Access where
  what : String     -- C statement
  idx : Int         -- index touched
  cap : Int         -- capacity (elements) of the buffer touched
  deriving Repr, DecidableEq

def Access.ok (a : Access) : Bool := 0 ≤ a.idx && a.idx < a.cap

/-- accesses `buf[lo..hi)` — reported as its two extreme indices (nothing when empty) -/
def rangeAcc (what : String) (lo hi cap : Int) : List Access :=
  if lo < hi then [{ what := what ++ " (first)", idx := lo, cap := cap },
                   { what := what ++ " (last)", idx := hi - 1, cap := cap }]
  else []

/-- capacities of liblouis's own scratch buffers for one call -/
structure Caps where
  typebuf : Int
  posMapping : Int      -- posMapping1..3 (same request each)
  destSpacing : Int
  passbuf : Int
  deriving Repr

def imax (a b : Int) : Int := if a ≥ b then a else b

/-- accesses of one pass's bookkeeping in the driver loop (lou_translateString.c:1300-1311) -/
def fwdPassAccesses (caps : Caps) (cap : Nat) (first : Bool) (po : PassOut) : List Access :=
  [{ what := "passPosMapping[output.length] = realInlen", idx := po.out.length, cap := caps.posMapping }] ++
  (if first then [] else
    rangeAcc "memcpy(prevPosMapping, posMapping, (*outlen+1))" 0 (cap + 1) caps.posMapping ++
    (po.map ++ [(po.realInlen : Int)]).map (fun p =>
      { what := "prevPosMapping[passPosMapping[k]]", idx := if p < 0 then 0 else p, cap := caps.posMapping }))

/-- all driver-level accesses of one forward call, given what the passes returned -/
def fwdAccesses (caps : Caps) (t : TableInfo) (e : Engine) (a : Args) : List Access :=
  let N : Int := a.inbuf.length
  let cap : Int := a.outlen
  let k : Int := (cutAtNul a.inbuf).length
  let s := fwdRun t e a
  let tfCap := imax N cap
  let olen : Int := s.output.length
  let inlen' : Int := s.posMapping.getD s.output.length 0
  let lastIn : Int := match s.hist.getLast? with
    | some (pin, _) => pin.chars.length
    | none => k
  let spLen := if lastIn < cap then lastIn else cap
  rangeAcc "typebuf[k] = typeform[k] / memset(typebuf)" 0 k caps.typebuf ++
  (if a.typeform.isSome then rangeAcc "typeform[k] (read)" 0 k tfCap else []) ++
  (if a.wantOutputPos then rangeAcc "outputPos[k] = -1" 0 k N else []) ++
  (match a.cursor with
   | some c => if c ≥ 0 ∧ (hasBit a.mode mCompbrlAtCursor ∨ hasBit a.mode mCompbrlLeftCursor)
               then [{ what := "input.chars[compbrlStart]", idx := c, cap := N }] else []
   | none => []) ++
  (if a.spacing.isSome then rangeAcc "memset(destSpacing, '*', *outlen)" 0 cap caps.destSpacing else []) ++
  ((s.hist.zipIdx).map (fun (ph, i) => fwdPassAccesses caps a.outlen (i == 0) ph.2)).flatten ++
  rangeAcc "output.chars[k] (final encoding)" 0 olen caps.passbuf ++
  (if a.typeform.isSome then rangeAcc "typeform[k] = '8'/'0'" 0 olen tfCap else []) ++
  rangeAcc "outbuf[k]" 0 olen cap ++
  [{ what := "*inlen = posMapping[output.length]", idx := olen, cap := caps.posMapping }] ++
  (if a.wantInputPos then rangeAcc "inputPos[k]" 0 olen cap else []) ++
  (if a.wantOutputPos then rangeAcc "outputPos[inpos] (scan and tail fill)" 0 inlen' N else []) ++
  (if a.spacing.isSome then
    rangeAcc "memcpy(srcSpacing, destSpacing, spacingLength) src" 0 spLen caps.destSpacing ++
    [{ what := "srcSpacing[spacingLength] = 0", idx := spLen, cap := tfCap + 1 }] else []) ++
  (match a.cursor with
   | some c => if c != -1 ∧ a.wantOutputPos then [{ what := "*cursorPos = outputPos[*cursorPos]", idx := c, cap := N }] else []
   | none => [])

end Lou.Drv

namespace Lou.Drv

/-- accesses of one backward pass's bookkeeping (lou_backTranslateString.c:275-306);
    `inlenBefore` is `*inlen` when the pass returns -/
def backPassAccesses (caps : Caps) (first : Bool) (inlenBefore : Int) (prev : List Int) (po : PassOut) : List Access :=
  [{ what := "passPosMapping[realInlen] = output.length", idx := po.realInlen, cap := caps.posMapping }] ++
  (if first then [] else
    rangeAcc "memcpy(prevPosMapping, posMapping, (*inlen+1))" 0 (inlenBefore + 1) caps.posMapping ++
    ((prev.take (inlenBefore.toNat + 1)).map (fun p =>
      { what := "passPosMapping[prevPosMapping[k]] (guarded)",
        idx := if p < 0 then 0 else if p ≤ po.realInlen then p else 0, cap := caps.posMapping })))

/-- the driver states after each pass (for the per-pass accesses) -/
def backStates (e : Engine) (ini : EngInit) (maxlen : Nat) : BackState → List Nat → List BackState
  | _, [] => []
  | s, p :: ps => s :: backStates e ini maxlen (backStep e ini maxlen s p) ps

/-- all driver-level accesses of one backward call -/
def backAccesses (caps : Caps) (srcPassbufCap : Int) (t : TableInfo) (dotsFor : Nat → Nat) (e : Engine) (a : Args) : List Access :=
  let N : Int := a.inbuf.length
  let cap : Int := a.outlen
  let k : Int := (cutAtNul a.inbuf).length
  let s := backRun t dotsFor e a
  let tfCap := imax N cap
  let olen : Int := s.output.length
  rangeAcc "passbuf1[k] = dots(inbuf[k]) and the sentinel passbuf1[srcmax]" 0 (k + 1) srcPassbufCap ++
  (if a.wantOutputPos then rangeAcc "outputPos[k] = -1" 0 k N else []) ++
  (if a.typeform.isSome then rangeAcc "memset(typebuf, '0', *outlen)" 0 cap (2 * tfCap) else []) ++
  (if a.spacing.isSome then rangeAcc "memset(spacebuf, '*', *outlen)" 0 cap (tfCap + 1) else []) ++
  (if s.failed then [] else
    rangeAcc "outbuf[k] = output.chars[k]" 0 olen cap ++
    (if a.wantInputPos then
      rangeAcc "posMapping[k] (inputPos scan)" 0 s.inlen caps.posMapping ++
      rangeAcc "inputPos[outpos]" 0 olen cap else []) ++
    (if a.wantOutputPos then rangeAcc "outputPos[k] (clamp loop)" 0 s.inlen N else []) ++
    (match a.cursor with
     | some c => if c != -1 ∧ a.wantOutputPos then [{ what := "*cursorPos = outputPos[*cursorPos]", idx := c, cap := N }] else []
     | none => []))

end Lou.Drv
