/-
  ForwardCtx.lean — the forward main pass of F0 (Forward.lean) extended by `context` rules: a context rule sits in the
  hash chain of its leading literal (or, without one, in `forPassRules[1]`), is selected when its test program succeeds
  (`for_selectRule` case CTO_Context → `passDoTest`; `findForPassRule` after the indicators), and is applied by
  `passDoAction` on the main pass's own output and position map (lou_translateString.c:3814-3840).  The test and action
  interpreters are those of the multipass stage model (Pass.lean), run on characters (`dotsSide = false`).
  Everything else — chain walk, opcodes, number sign, emission, the `failure:` epilogue — is Forward.lean's.
-/
import LouModel.Forward
import LouModel.Pass

namespace Lou.FwdC
open Lou Lou.Gen Lou.Fwd

/-- what `for_selectRule` hands back, with the match of a context rule -/
structure SelC where
  sel : Sel
  ctx : Option (Rule × Pass.Match × Nat) := none
  unsupported : Bool := false
  deriving Repr

def walkChainC (t : Table) (mode : Nat) (dontContract : Bool) (input : List Nat) (pos length : Nat)
    (before prevOp : Nat) (single : Bool) (posInc : Bool) (vars : List Nat) : List Nat → Option SelC
  | [] => none
  | i :: rest =>
    match t.rule? i with
    | none => none
    | some r =>
      let n := r.chars.length
      if single || (n ≤ length && validMatch t input pos r) then
        if r.opcode == CTO_Context then
          -- `if (!posIncremented || !passDoTest(...)) break; return;`
          if !posInc then walkChainC t mode dontContract input pos length before prevOp single posInc vars rest
          else
            match Pass.fwdTest ⟨t, false, vars⟩ r.dots input pos (r.dots.length + 1) pos 0 (-1) (-1) false with
            | .unsupported => some { sel := { opcode := CTO_Context, rule := some r, charslen := n }, unsupported := true }
            | .ok m ic => some { sel := { opcode := CTO_Context, rule := some r, charslen := n }, ctx := some (r, m, ic) }
            | .fail => walkChainC t mode dontContract input pos length before prevOp single posInc vars rest
        else if opcodeAccepts r.opcode mode dontContract before (afterAttrs t input pos n) prevOp then
          some { sel := { opcode := r.opcode, rule := some r, charslen := n } }
        else walkChainC t mode dontContract input pos length before prevOp single posInc vars rest
      else walkChainC t mode dontContract input pos length before prevOp single posInc vars rest

def selectRuleC (t : Table) (mode : Nat) (dontContract : Bool) (input : List Nat) (pos : Nat)
    (before prevOp : Nat) (posInc : Bool) (vars : List Nat) : SelC :=
  let length := input.length - pos
  let s0 := if length ≥ 2 then
      walkChainC t mode dontContract input pos length before prevOp false posInc vars
        (t.forBucket (stringHashFolded t (inAt input pos) (inAt input (pos + 1))))
    else none
  match s0 with
  | some s => s
  | none =>
    match (if length ≥ 1 then
        walkChainC t mode dontContract input pos 1 before prevOp true posInc vars (t.getChar (inAt input pos)).chain
      else none) with
    | some s => s
    | none => { sel := { opcode := CTO_None, rule := none, charslen := 1 } }

/-! ### `passDoAction` for a context rule: copies go through `putCharacter` (copyCharacters, 924-933) and so through
    `for_updatePositions`, which also moves the cursor -/

inductive ActC where
  | unsupported
  | fail (o : Out) (vars : List Nat)
  | ok (o : Out) (newPos : Int) (vars : List Nat)
  deriving Repr

/-- `copyCharacters` with `transOpcode == CTO_Context`; the Bool is false when the output is full (what was written stays) -/
def copyChars (t : Table) (mode : Nat) (input : List Nat) (max : Nat) : Nat → Int → Int → Out → Out × Bool
  | 0, _, _, o => (o, true)
  | k + 1, frm, to, o =>
    if frm < to then
      match putCharacter t mode (Pass.elem input frm) frm.toNat input max o with
      | none => (o, false)
      | some o' => copyChars t mode input max k (frm + 1) to o'
    else (o, true)

/-- `memmove(&out[destStartMatch], &out[destStartReplace], count); length -= count` (the map entries stay) -/
def moveOut (o : Out) (dsm dsr : Nat) : Out :=
  let count := dsr - dsm
  let src := (o.cells.drop dsr).take count
  { o with cells := (o.cells.take dsm ++ src ++ o.cells.drop (dsm + src.length)).take (o.cells.length - count),
           map := o.map.take (o.cells.length - count) }

def actLoopC (t : Table) (mode : Nat) (p : List Nat) (input : List Nat) (m : Pass.Match) (max : Nat) (destStartMatch : Nat) :
    Nat → Nat → Out → Nat → Int → List Nat → ActC
  | 0, _, _, _, _, _ => .unsupported
  | fuel + 1, ic, o, destStartReplace, newPos, vars =>
    if ic ≥ p.length then .ok o newPos vars
    else
      let op := Pass.ins p ic
      if op == pass_string || op == pass_dots then
        let n := Pass.ins p (ic + 1)
        if o.cells.length + n > max then .fail o vars
        else actLoopC t mode p input m max destStartMatch fuel (ic + n + 2)
              { o with cells := o.cells ++ Pass.literal p ic, map := o.map ++ List.replicate (Pass.literal p ic).length m.startReplace }
              destStartReplace newPos vars
      else if op == pass_omit then actLoopC t mode p input m max destStartMatch fuel (ic + 1) o destStartReplace newPos vars
      else if op == pass_copy then
        let count := destStartReplace - destStartMatch
        let moved : Option (Out × Nat) :=
          if count > 0 then
            if destStartReplace + count > max then none
            else
              some (moveOut o destStartMatch destStartReplace, destStartMatch)
          else some (o, destStartReplace)
        match moved with
        | none => .fail o vars
        | some (o1, dsr) =>
          match copyChars t mode input max (m.endReplace - m.startReplace).toNat m.startReplace m.endReplace o1 with
          | (o2, false) => .fail o2 vars
          | (o2, true) => actLoopC t mode p input m max destStartMatch fuel (ic + 1) o2 dsr m.endMatch vars
      else if op == pass_swap then
        match Pass.refRule t p ic with
        | none => .unsupported
        | some r =>
          let res := Pass.swapReplace r input max (m.endReplace - m.startReplace).toNat m.startReplace ⟨o.cells, o.map⟩
          let o' := { o with cells := res.1.out, map := res.1.map }
          if res.2 then actLoopC t mode p input m max destStartMatch fuel (ic + 3) o' destStartReplace newPos vars
          else .fail o' vars
      else
        match Pass.varAction p ic vars with
        | some (vars', len) => actLoopC t mode p input m max destStartMatch fuel (ic + len) o destStartReplace newPos vars'
        | none => .unsupported

def actionC (t : Table) (mode : Nat) (p : List Nat) (input : List Nat) (m : Pass.Match) (ic : Nat) (max : Nat) (o : Out) (vars : List Nat) : ActC :=
  match copyChars t mode input max (m.startReplace - m.startMatch).toNat m.startMatch m.startReplace o with
  | (o1, false) => .fail o1 vars
  | (o1, true) => actLoopC t mode p input m max o.cells.length (p.length + 1) ic o1 o1.cells.length m.endReplace vars

structure StC where
  st : St := {}
  posInc : Bool := true
  vars : List Nat := List.replicate Gen.NUMVAR 0
  unsupported : Bool := false
  deriving Repr

/-- the lastWord bookkeeping at the head of an iteration -/
def lastWord (t : Table) (input : List Nat) (st : St) : St :=
  if st.pos > 0 && isSpace t (inAt input (st.pos - 1)) && st.transOpcode != CTO_JoinableWord then
    { st with lastIn := st.pos, lastOut := st.out.cells.length } else st

/-- the context rule of this iteration, if any: the one `for_selectRule` picked in a chain, else (with `posIncremented`
    on) the first rule of `forPassRules[1]` whose test succeeds (`findForPassRule`) -/
def foundC (t : Table) (s : SelC) (posInc : Bool) (vars : List Nat) (input : List Nat) (pos : Nat) : Pass.Sel :=
  match s.ctx with
  | some (r, m, ic) => .rule r m ic
  | none =>
    if posInc then Pass.select ⟨t, false, vars⟩ false 1 (Pass.rulesOf t (t.forPassChain 1)) input pos
    else .none

/-- one iteration of the main loop with context rules -/
def stepC (t : Table) (mode : Nat) (input : List Nat) (maxlen : Nat) (sc : StC) : StC × Bool :=
  let st := lastWord t input sc.st
  if st.pos == input.length then ({ sc with st := st }, true) else
  let before := beforeAttrs t input st.pos
  let s := selectRuleC t mode st.dontContract input st.pos before st.prevOp sc.posInc sc.vars
  if s.unsupported then ({ sc with st := st, unsupported := true }, true) else
  let sel := s.sel
  let st := { st with transOpcode := sel.opcode }
  match insertNumberSign t input st.pos st.prevOp before maxlen st.out with
  | none => ({ sc with st := st }, true)
  | some o1 =>
    let st := { st with out := o1 }
    -- `if (transOpcode == CTO_Context || (posIncremented && findForPassRule(...)))`
    match foundC t s sc.posInc sc.vars input st.pos with
    | .unsupported => ({ sc with st := st, unsupported := true }, true)
    | .rule r m ic =>
      let st := { st with transOpcode := CTO_Context, applied := st.applied ++ [some r] }
      match actionC t mode r.dots input m ic maxlen st.out sc.vars with
      | .unsupported => ({ sc with st := st, unsupported := true }, true)
      | .fail o' _ => ({ sc with st := { st with out := o' } }, true)
      | .ok o' newPos vars' =>
        ({ sc with st := { st with pos := newPos.toNat, out := o' }, posInc := newPos.toNat != st.pos, vars := vars' }, false)
    | .none =>
      let st := { st with applied := st.applied ++ [sel.rule] }
      let dc := if (t.getChar (inAt input st.pos)).attrs &&& (CTC_SeqDelimiter ||| CTC_Space) != 0 then false else st.dontContract
      let dc := if sel.opcode == CTO_Space then false else dc
      let st := { st with dontContract := dc }
      match emit t mode input maxlen sel st.pos st.out with
      | (p', o2, false) => ({ sc with st := { st with pos := p', out := o2 }, posInc := true }, true)
      | (p', o2, true) =>
        let prev := if (CTO_Always ≤ sel.opcode && sel.opcode ≤ CTO_None) || (CTO_Digit ≤ sel.opcode && sel.opcode ≤ CTO_LitDigit)
                    then sel.opcode else st.prevOp
        ({ sc with st := { st with pos := p', out := o2, prevOp := prev }, posInc := true }, false)

def loopC (t : Table) (mode : Nat) (input : List Nat) (maxlen : Nat) : Nat → StC → StC × Bool
  | 0, sc => (sc, false)                       -- fuel: never (an iteration that stays is followed by one that moves)
  | fuel + 1, sc =>
    let (sc', done) := stepC t mode input maxlen sc
    if done then (sc', true) else loopC t mode input maxlen fuel sc'

inductive ResC where
  | unsupported
  | fuel
  | done (r : PassResult)
  deriving Repr

/-- `translateString` for F0 + context rules, with the `failure:` epilogue of Forward.lean -/
def translateC (t : Table) (mode : Nat) (input : List Nat) (maxlen : Nat) (cpos cstat : Int) : ResC :=
  let (sc, fin) := loopC t mode input maxlen (2 * input.length + 2) { st := { out := { cpos := cpos, cstat := cstat } } }
  if sc.unsupported then .unsupported else
  if !fin then .fuel else
  let st := sc.st
  let (pos, ocells, omap) :=
    if st.lastOut != 0 && st.pos < input.length && !isSpace t (inAt input st.pos) then
      (st.lastIn, st.out.cells.take st.lastOut, st.out.map.take st.lastOut)
    else (st.pos, st.out.cells, st.out.map)
  let pos := if pos < input.length then translate.skip t input (input.length + 1) pos else pos
  .done { out := ocells, map := omap, realInlen := pos, cpos := st.out.cpos, cstat := st.out.cstat, applied := st.applied }

/-- the fragment: F0 plus context rules (`Fwd.unsupported` refuses them) -/
def unsupportedC (t : Table) : Option String :=
  if t.usesSequences || t.usesNumericMode || t.syllables then some "sequences/numericmode/syllables" else
  if t.letterSign.isSome || t.noContractSign.isSome || t.noNumberSign.isSome then some "letsign/nocontractsign" else
  if !t.emph.isEmpty then some "emphasis/caps indicators" else
  match t.rules.find? (fun r => !Pass.isPassOpcode r.opcode &&
      (!opcodeOK r.opcode || r.after != 0 || r.before != 0 || r.nocross || r.hasPatterns)) with
  | some r => some s!"rule {r.idx} opcode {r.opcode}"
  | none =>
    match t.rules.find? (fun r => r.opcode == CTO_Context && (r.after != 0 || r.before != 0 || r.nocross || r.hasPatterns)) with
    | some r => some s!"context rule {r.idx} with before/after"
    | none => if t.chars.any (fun c => c.compRule.isSome) then some "comprule" else none

end Lou.FwdC
