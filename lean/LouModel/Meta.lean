/-
  Meta.lean — executable model of liblouis/metadata.c (table metadata: header
  parser, query parser, language tags, match quotient, lou_indexTables,
  lou_findTable, lou_findTables, lou_getTableInfo, lou_listTables) and its line
  protocol (`MINDEX / MFIND / MFINDS / MINFO / MLIST`).

  The model transcribes what the C code does, function by function.  C strings are
  `List Nat` (bytes, no NUL inside), wide characters of a table line are `Nat`
  (16 bit), a C `List *` is a Lean `List` in the same order (NULL = []).  All
  numeric weights and limits come from `Gen/MetaConsts.lean`, which
  `tools/lv/extract_meta.py` regenerates from the C source.

  Quirks that are modelled as they are:
  * a query keeps, of several features with the same key, the LAST one; a table
    keeps, of several features with the same key and (case-insensitively) the same
    value, the LAST one (list_conj prepends, list_sort keeps the first it meets);
  * the table index is built by prepending, so lou_findTable walks the tables in
    the reverse of the order given to lou_indexTables and keeps the first maximum;
    lou_findTables puts a later-walked table BEFORE earlier ones of equal quotient;
  * `isLanguageTag(key, len)` accepts exactly the words language / region / locale
    (case-insensitively; `strnlen(key, len)` must equal the length of the word — the fix
    of finding C18-F3).  The parsers call it with `len = keySize`, the readers with
    `len = MAXSTRING`; both agree on every key (`LouProofs/C18.lean: langTagParsed_eq_isLangKey`),
    so a key such as `l`, `reg` or `loc` is an ordinary key everywhere;
  * a `(char)` cast is applied to the wide characters of a line before they are
    classified or copied (so U+0161 counts as 'a'), but `#`, `+`, `-`, `:`, `*`
    are compared on the full wide character;
  * a file of exactly one byte has no lines; a line is cut after MAXSTRING-1
    characters and the character that did not fit is dropped.
-/
import LouModel.Basic
import LouModel.Gen.MetaConsts

namespace Lou.Meta
open Lou Lou.Gen.MetaConsts

/-- a C string: bytes without the terminating NUL -/
abbrev Str := List Nat

/-! ## characters and string comparison -/

/-- metadata.c:247 `isAlpha` (argument already cast to `char`; bytes ≥ 128 are negative there and fail every test) -/
def isAlpha (c : Nat) : Bool := (65 ≤ c && c ≤ 90) || (97 ≤ c && c ≤ 122)
/-- metadata.c:252 `isAlphaNum` -/
def isAlphaNum (c : Nat) : Bool := (48 ≤ c && c ≤ 57) || isAlpha c
/-- metadata.c:498 `isValidChar`: `[0-9A-Za-z_.-]` -/
def isValidChar (c : Nat) : Bool := isAlphaNum c || c == 45 || c == 46 || c == 95
/-- metadata.c:506 `isSpace`: blank or tab -/
def isSpace (c : Nat) : Bool := c == 32 || c == 9

/-- `tolower` in the "C" locale -/
def lower (c : Nat) : Nat := if 65 ≤ c ∧ c ≤ 90 then c + 32 else c
def lowerStr (s : Str) : Str := s.map lower

/-- `strcmp` as an `Ordering` (bytes compared as unsigned char) -/
def cmpStr : Str → Str → Ordering
  | [], [] => .eq
  | [], _ :: _ => .lt
  | _ :: _, [] => .gt
  | a :: as, b :: bs => if a < b then .lt else if b < a then .gt else cmpStr as bs

/-- `strcasecmp` -/
def cmpCI (a b : Str) : Ordering := cmpStr (lowerStr a) (lowerStr b)

def eqCI (a b : Str) : Bool := cmpCI a b == .eq

/-- `strncasecmp(a, b, n) == 0` for NUL-free `a`, `b` -/
def strncaseEq (a b : Str) (n : Nat) : Bool := (lowerStr a).take n == (lowerStr b).take n

def kLanguage : Str := [108, 97, 110, 103, 117, 97, 103, 101]                         -- "language"
def kRegion : Str := [114, 101, 103, 105, 111, 110]                                   -- "region"
def kLocale : Str := [108, 111, 99, 97, 108, 101]                                     -- "locale"
def kUnicodeRange : Str := [117, 110, 105, 99, 111, 100, 101, 45, 114, 97, 110, 103, 101]  -- "unicode-range"

/-- metadata.c:241 `isLanguageTag(key, len)`: `n = strnlen(key, len)`; the whole key has to be
    one of the three names (`key` = the bytes up to the NUL, or the `len`-character slice) -/
def isLanguageTagN (key : Str) (len : Nat) : Bool :=
  let n := min key.length len
  (n == kLanguage.length && strncaseEq kLanguage key n) ||
  (n == kRegion.length && strncaseEq kRegion key n) ||
  (n == kLocale.length && strncaseEq kLocale key n)

/-- `isLanguageTag(k, keySize)` as the two parsers call it -/
def langTagParsed (key : Str) : Bool := isLanguageTagN key key.length
/-- `isLanguageTag(k, MAXSTRING)` as cmpFeatures, matchFeatureLists and lou_getTableInfo call it -/
def isLangKey (key : Str) : Bool := isLanguageTagN key MAXSTRING

/-! ## features -/

inductive Val where
  | str (s : Str)
  | tag (subtags : List Str)
  deriving DecidableEq, Repr, Inhabited

/-- `Feature` + `lineNumber` (tables; -1 = default) or `importance` (queries; never read by the C code) -/
structure Feat where
  key : Str
  val : Val
  line : Int
  deriving DecidableEq, Repr, Inhabited

def Val.tagOf : Val → List Str
  | .tag t => t
  | .str _ => []
def Val.strOf : Val → Str
  | .str s => s
  | .tag _ => []

/-! ## LIST (metadata.c:57–141) -/

/-- `list_conj(list, x, cmp, …)` with a comparison: sorted insert; an element that
    compares equal to an existing one is dropped (metadata.c:75–98) -/
def conjSorted {α} (cmp : α → α → Ordering) (x : α) : List α → List α
  | [] => [x]
  | h :: t =>
    match cmp h x with
    | .gt => x :: h :: t
    | .lt => h :: conjSorted cmp x t
    | .eq => h :: t

/-- `list_sort` (metadata.c:131): insert the elements one by one, from the head on -/
def listSort {α} (cmp : α → α → Ordering) (l : List α) : List α :=
  l.foldl (fun acc x => conjSorted cmp x acc) []

/-! ## language tags (metadata.c:260–379) -/

/-- the `while (1)` loop of `parseLanguageTag` (metadata.c:275–288); `haveList` is `list != NULL` -/
def parseSubtags : Nat → Bool → Str → Option (List Str)
  | 0, _, _ => none
  | fuel + 1, haveList, val =>
    let pre := val.takeWhile (fun c => isAlphaNum c && (haveList || isAlpha c))
    let len := pre.length
    if len < 1 ∨ len > SUBTAG_MAX then none else
    match val.drop len with
    | [] => some [pre]
    | c :: rest => if c ≠ 45 then none else (parseSubtags fuel true rest).map (pre :: ·)

/-- metadata.c:260 `parseLanguageTag` -/
def parseLanguageTag (val : Str) : Option (List Str) :=
  match val with
  | [] => none
  | 42 :: [] => some [[42]]
  | 42 :: c :: rest => if c ≠ 45 then none else (parseSubtags (rest.length + 1) true rest).map ([42] :: ·)
  | _ => parseSubtags (val.length + 1) false val

/-- metadata.c:297 `serializeLanguageTag` -/
def serializeLanguageTag (t : List Str) : Str := List.intercalate [45] t

/-- the two loops of `matchLanguageTags` after the first subtag (metadata.c:362–378) -/
def matchLangRest (range : List Str) (tag : List Str) (q : Int) : Int :=
  match tag, range with
  | tag, [] => q + LANG_EXTRA * tag.length
  | [], _ :: _ => 0
  | t :: ts, r :: rs =>
    if cmpCI t r == .eq then matchLangRest rs ts q
    else if t.length == 1 then 0
    else matchLangRest (r :: rs) ts (q + LANG_EXTRA)

/-- metadata.c:351 `matchLanguageTags(tag, range)`; both lists are non-empty in the C code -/
def matchLanguageTags (tag range : List Str) : Int :=
  match tag, range with
  | t :: ts, r :: rs =>
    if r.head? == some 42 then matchLangRest rs ts (LANG_POS_MATCH + LANG_EXTRA)
    else if cmpCI t r != .eq then 0
    else matchLangRest rs ts LANG_POS_MATCH
  | _, _ => 0

/-! ## comparison of features (metadata.c:316–340) -/

def cmpKeys (f1 f2 : Feat) : Ordering := cmpCI f1.key f2.key

def cmpTagLists : List Str → List Str → Ordering
  | [], [] => .eq
  | _ :: _, [] => .gt
  | [], _ :: _ => .lt
  | a :: as, b :: bs =>
    match cmpCI a b with
    | .eq => cmpTagLists as bs
    | r => r

def cmpFeatures (f1 f2 : Feat) : Ordering :=
  match cmpCI f1.key f2.key with
  | .eq =>
    if isLangKey f1.key then cmpTagLists f1.val.tagOf f2.val.tagOf
    else cmpCI f1.val.strOf f2.val.strOf
  | r => r

/-! ## match quotient (metadata.c:394–493) -/

structure Weights where
  posMatch : Int
  negMatch : Int
  undefined : Int
  extra : Int
  deriving Repr

def strictW : Weights := ⟨POS_MATCH, NEG_MATCH, UNDEFINED, EXTRA⟩
def fuzzyW : Weights := ⟨POS_MATCH_FUZZY, NEG_MATCH_FUZZY, UNDEFINED_FUZZY, EXTRA_FUZZY⟩

def sameKey (k : Str) (f : Feat) : Bool := cmpCI f.key k == .eq

/-- one turn of the language loop (metadata.c:450–457): state = (best, extraLanguages) -/
def langStep (W : Weights) (qv : List Str) (st : Int × Int) (v : List Str) : Int × Int :=
  let q := matchLanguageTags qv v
  if q > 0 ∧ q > st.1 then (q, st.2)
  else if q = 0 then (st.1, st.2 + W.extra)
  else st

/-- language keys: best range match, minus a rounded penalty for the other ranges (metadata.c:446–463) -/
def langBest (W : Weights) (qv : List Str) (group : List (List Str)) : Int :=
  let st := group.foldl (langStep W qv) (W.negMatch, 0)
  if st.1 > 0 then st.1 + (st.2 + EXTRA_LANG_ADD).tdiv EXTRA_LANG_DIV else st.1

/-- one turn of the plain loop (metadata.c:466–481) -/
def strStep (W : Weights) (isUR : Bool) (qv : Str) (best : Int) (v : Str) : Int :=
  if best < 0 then
    if cmpCI qv v == .eq then W.posMatch
    else if isUR && cmpCI qv UR_QUERY_SPECIAL == .eq && cmpCI v UR_TABLE_SPECIAL == .eq then
      W.posMatch - UCS2_FOR_UCS4_PENALTY
    else best
  else best

def strBest (W : Weights) (isUR : Bool) (qv : Str) (group : List Str) : Int :=
  group.foldl (strStep W isUR qv) W.negMatch

/-- the `else` branch of the merge (metadata.c:442–486): `group` = the table's features with this key,
    `k` = the key of the first of them -/
def bestMatch (W : Weights) (qf : Feat) (group : List Feat) : Int :=
  match group with
  | [] => W.negMatch
  | f :: _ =>
    if isLangKey f.key then langBest W qf.val.tagOf (group.map (·.val.tagOf))
    else strBest W (cmpCI f.key kUnicodeRange == .eq) qf.val.strOf (group.map (·.val.strOf))

/-- `while (l && cmpKeys(l->head, l2->head) == 0) l = l->tail` -/
def dropRun (k : Str) (l : List Feat) : List Feat := l.dropWhile (sameKey k)
def takeRun (k : Str) (l : List Feat) : List Feat := l.takeWhile (sameKey k)

/-- the `while (1)` loop of `matchFeatureLists` (metadata.c:419–491); each turn removes
    at least one element of `q` or `t`, `fuel` bounds the number of turns -/
def matchLoop (W : Weights) : Nat → List Feat → List Feat → Int
  | 0, _, _ => 0
  | _ + 1, [], [] => 0
  | fuel + 1, [], f :: t => W.extra + matchLoop W fuel [] (dropRun f.key t)
  | fuel + 1, _ :: q, [] => W.undefined + matchLoop W fuel q []
  | fuel + 1, qf :: q, f :: t =>
    match cmpCI qf.key f.key with
    | .lt => W.undefined + matchLoop W fuel q (f :: t)
    | .gt => W.extra + matchLoop W fuel (qf :: q) (dropRun f.key t)
    | .eq => bestMatch W qf (f :: takeRun f.key t) + matchLoop W fuel q (dropRun f.key t)

/-- metadata.c:394 `matchFeatureLists(query, tableFeatures, fuzzy)` -/
def matchFeatureLists (q t : List Feat) (fuzzy : Bool := false) : Int :=
  matchLoop (if fuzzy then fuzzyW else strictW) (q.length + t.length) q t

/-! ## parseQuery (metadata.c:515–645) -/

/-- parser state: the feature list (C order: newest first), key, val, `unicodeRange`, "the
    character after ':' is consumed next" -/
structure QState where
  feats : List Feat := []
  key : Option Str := none
  val : Option Str := none
  unicodeRange : Bool := false
  afterColon : Bool := false

inductive QStep where
  | cont (s : QState)
  | error
  deriving Inhabited

/-- a `key:val` pair is complete (metadata.c:528–590) -/
def queryAddFeature (s : QState) (k v : Str) : QStep :=
  if langTagParsed k then
    match parseLanguageTag v with
    | none => .error
    | some tag =>
      if eqCI k kLocale then
        .cont { s with feats := ⟨kRegion, .tag tag, 0⟩ :: ⟨kLanguage, .tag tag, 0⟩ :: s.feats, key := none, val := none }
      else
        .cont { s with feats := ⟨k, .tag tag, 0⟩ :: s.feats, key := none, val := none }
  else
    .cont { s with feats := ⟨k, .str v, 0⟩ :: s.feats, key := none, val := none,
                   unicodeRange := s.unicodeRange || eqCI k kUnicodeRange }

/-- one character of the query (the terminating NUL is fed as 0) -/
def queryStep (s : QState) (c : Nat) : QStep :=
  if s.afterColon then
    if isValidChar c then .cont { s with val := some [c], afterColon := false } else .error
  else if isSpace c || c == 10 || c == 0 then
    match s.key with
    | some k =>
      match s.val with
      | none => .error
      | some v => queryAddFeature s k v
    | none => .cont s
  else if c == 58 then
    if s.key.isNone || s.val.isSome then .error else .cont { s with afterColon := true }
  else if isValidChar c then
    match s.val, s.key with
    | some v, _ => .cont { s with val := some (v ++ [c]) }
    | none, some k => .cont { s with key := some (k ++ [c]) }
    | none, none => .cont { s with key := some [c] }
  else .error

def queryLoop : List Nat → QState → Option QState
  | [], s => some s
  | c :: cs, s =>
    match queryStep s c with
    | .error => none
    | .cont s' => queryLoop cs s'

/-- `importance`: 1, 2, … in list order (metadata.c:631–638); never read afterwards -/
def numberFeats : List Feat → Int → List Feat
  | [], _ => []
  | f :: fs, k => { f with line := k } :: numberFeats fs (k + 1)

/-- metadata.c:515 `parseQuery`: (sorted features — [] is NULL —, number of errors logged).
    `query` is the C string (bytes up to the first NUL). -/
def parseQuery (query : Str) : List Feat × Nat :=
  match queryLoop (query ++ [0]) {} with
  | none => ([], 1)
  | some s =>
    let feats := if s.unicodeRange then s.feats else ⟨kUnicodeRange, .str QUERY_DEFAULT_UR, 0⟩ :: s.feats
    (listSort cmpKeys (numberFeats feats 1), 0)

/-! ## reading a table file (compileTranslationTable.c:288–360) -/

def pairsBE : Nat → List Nat → List Nat
  | 0, _ => []
  | fuel + 1, a :: b :: r => (a * 256 + b) :: pairsBE fuel r
  | _ + 1, _ => []
def pairsLE : Nat → List Nat → List Nat
  | 0, _ => []
  | fuel + 1, a :: b :: r => (b * 256 + a) :: pairsLE fuel r
  | _ + 1, _ => []

/-- all characters `getAChar` delivers for a file, and whether it reported
    "encoding is neither big-endian, little-endian nor ASCII 8" -/
def decodeFile (bytes : List Nat) : List Nat × Bool :=
  match bytes with
  | [] => ([], false)
  | [_] => ([], false)
  | b0 :: b1 :: rest =>
    if b0 == 0xfe && b1 == 0xff then (pairsBE rest.length rest, false)
    else if b0 == 0xff && b1 == 0xfe then (pairsLE rest.length rest, false)
    else if b0 < 128 && b1 < 128 then (b0 :: b1 :: rest, false)
    else ([], true)

/-- the lines `_lou_getALine` delivers (line k of the result has lineNumber k+1) -/
def splitLines : List Nat → List Nat → List (List Nat)
  | [], acc => if acc.isEmpty then [] else [acc.reverse]
  | c :: cs, acc =>
    if c == 13 then splitLines cs acc
    else if c == 10 || acc.length ≥ MAXSTRING - 1 then acc.reverse :: splitLines cs []
    else splitLines cs (c :: acc)

/-! ## analyzeTable (metadata.c:663–896) -/

/-- `(char)` cast of a wide character, seen as an unsigned byte -/
def toChar (c : Nat) : Nat := c % 256

inductive LineOut where
  | skip                       -- empty line, comment, or a metadata line that is not looked at
  | stop                       -- first line that is not a comment: `break`
  | error                      -- `goto compile_error`
  | feat (active : Bool) (k v : Str)
  deriving Repr, DecidableEq

/-- "normalize space" of an inactive value (metadata.c:756–775) -/
def normalizeSpace : Str → Bool → Str
  | [], _ => []
  | c :: cs, space =>
    if isSpace c then (if space then normalizeSpace cs true else 32 :: normalizeSpace cs true)
    else c :: normalizeSpace cs false

def stripTrailingBlank (s : Str) : Str :=
  match s.reverse with
  | 32 :: r => r.reverse
  | _ => s

/-- one line of the file (metadata.c:699–855) -/
def parseHeaderLine (activeOnly : Bool) (line : List Nat) : LineOut :=
  match line with
  | [] => .skip
  | c0 :: rest0 =>
    if c0 ≠ 35 then .stop else
    match rest0 with
    | [] => .skip
    | c1 :: rest =>
      let third := rest.head?
      if c1 == 43 || (!activeOnly && c1 == 45 && !(third == some 45)) then
        let active := c1 == 43
        let key := rest.takeWhile (fun c => isValidChar (toChar c))
        if key.isEmpty then .error else
        let k := key.map toChar
        let isLangTag := langTagParsed k
        let rest1 := rest.drop key.length
        match rest1 with
        | 58 :: rest2 =>
          let rest3 := rest2.dropWhile (fun c => isSpace (toChar c))
          match rest3 with
          | [] => .error
          | v0 :: rest4 =>
            if !active || isValidChar (toChar v0) || (isLangTag && v0 == 42) then
              let more := rest4.takeWhile (fun c => !active || isValidChar (toChar c))
              if (rest4.drop more.length).isEmpty then
                let v := ((v0 :: more).map toChar).takeWhile (· != 0)
                let v := if active then v else stripTrailingBlank (normalizeSpace v true)
                .feat active k v
              else .error
            else .error
        | _ => .error
      else .skip

structure AState where
  feats : List Feat := []          -- C order: newest first
  language : Option Val := none    -- `language->feature.val`
  region : Bool := false           -- `region != NULL`
  unicodeRange : Bool := false

/-- a complete `key: value` line (metadata.c:776–846); `none` = "Not a valid language tag" -/
def tableAddFeature (s : AState) (k v : Str) (line : Int) : Option AState :=
  if langTagParsed k then
    match parseLanguageTag v with
    | none => none
    | some tag =>
      if eqCI k kLocale then
        some { s with feats := ⟨kRegion, .tag tag, line⟩ :: ⟨kLanguage, .tag tag, line⟩ :: s.feats,
                      language := s.language.orElse (fun _ => some (.tag tag)),
                      region := true }
      else
        let s' := { s with feats := ⟨k, .tag tag, line⟩ :: s.feats }
        if eqCI k kLanguage then some { s' with language := s.language.orElse (fun _ => some (.tag tag)) }
        else if eqCI k kRegion then some { s' with region := true }
        else some s'
  else
    some { s with feats := ⟨k, .str v, line⟩ :: s.feats, unicodeRange := s.unicodeRange || eqCI k kUnicodeRange }

inductive AOut where
  | done (s : AState)
  | error                       -- one error logged, NULL returned

def analyzeLines (activeOnly : Bool) : List (List Nat) → Int → AState → AOut
  | [], _, s => .done s
  | l :: ls, n, s =>
    match parseHeaderLine activeOnly l with
    | .skip => analyzeLines activeOnly ls (n + 1) s
    | .stop => .done s
    | .error => .error
    | .feat _ k v =>
      match tableAddFeature s k v n with
      | none => .error
      | some s' => analyzeLines activeOnly ls (n + 1) s'

/-- the defaults (metadata.c:858–884) -/
def addDefaults (s : AState) : List Feat :=
  let f1 := match s.region, s.language with
    | false, some v => ⟨kRegion, v, -1⟩ :: s.feats
    | _, _ => s.feats
  if !f1.isEmpty && !s.unicodeRange then ⟨kUnicodeRange, .str TABLE_DEFAULT_UR, -1⟩ :: f1 else f1

/-- metadata.c:663 `analyzeTable` on a file that exists and resolves to itself:
    (sorted features — [] is NULL —, number of errors logged) -/
def analyzeTable (bytes : List Nat) (activeOnly : Bool) : List Feat × Nat :=
  let (chars, encErr) := decodeFile bytes
  match analyzeLines activeOnly (splitLines chars []) 1 {} with
  | .error => ([], (if encErr then 1 else 0) + 1)
  | .done s => (listSort cmpFeatures (addDefaults s), if encErr then 1 else 0)

/-! ## the index and the queries (metadata.c:898–1117) -/

structure Table where
  name : Str
  feats : List Feat
  deriving DecidableEq, Repr

/-- metadata.c:900 `lou_indexTables`: the new `tableIndex` (C list order: the LAST file
    given comes first), errors and warnings logged -/
def indexTables (files : List (Str × List Nat)) : List Table × Nat × Nat :=
  let (idx, e) := files.foldl (fun (acc : List Table × Nat) f =>
    let (feats, e) := analyzeTable f.2 true
    (if feats.isEmpty then acc.1 else ⟨f.1, feats⟩ :: acc.1, acc.2 + e)) ([], 0)
  (idx, e, if idx.isEmpty then 1 else 0)

def score (q : List Feat) (t : Table) : Int := matchFeatureLists q t.feats

/-- the selection loop of `lou_findTable` (metadata.c:1014–1022) for a score function -/
def findLoop (sc : Table → Int) : List Table → Int → Option Str → Option Str × Int
  | [], best, m => (m, best)
  | t :: ts, best, m => if sc t > best then findLoop sc ts (sc t) (some t.name) else findLoop sc ts best m

/-- metadata.c:1008 `lou_findTable` given the parsed query and the index (C list order) -/
def findTable (q : List Feat) (idx : List Table) : Option Str :=
  (findLoop (score q) idx FIND_INITIAL_BEST none).1

structure TableMatch where
  name : Str
  quotient : Int
  deriving DecidableEq, Repr

/-- metadata.c:1038 `cmpMatches`: never 0 -/
def cmpMatches (m1 m2 : TableMatch) : Ordering := if m1.quotient > m2.quotient then .lt else .gt

def findMatches (sc : Table → Int) : List Table → List TableMatch → List TableMatch
  | [], ms => ms
  | t :: ts, ms =>
    if sc t > FINDS_THRESHOLD then findMatches sc ts (conjSorted cmpMatches ⟨t.name, sc t⟩ ms)
    else findMatches sc ts ms

/-- metadata.c:1046 `lou_findTables`: [] is NULL -/
def findTables (q : List Feat) (idx : List Table) : List Str :=
  (findMatches (score q) idx []).map (·.name)

/-- the loop of `lou_getTableInfo` (metadata.c:1084–1098): state = (value, lineNumber) -/
def infoLoop (key : Str) : List Feat → Option Val → Int → Option Val
  | [], v, _ => v
  | f :: fs, v, ln =>
    match cmpCI f.key key with
    | .eq => if ln < 0 ∨ ln > f.line then infoLoop key fs (some f.val) f.line else infoLoop key fs v ln
    | .gt => v
    | .lt => infoLoop key fs v ln

/-- the string `lou_getTableInfo` builds from the chosen feature -/
def infoValue (key : Str) (v : Val) : Str :=
  if isLangKey key then serializeLanguageTag v.tagOf else v.strOf

/-- metadata.c:1078 `lou_getTableInfo` on the features of `analyzeTable(table, 0)` -/
def getTableInfoFeats (feats : List Feat) (key : Str) : Option Str :=
  (infoLoop key feats none (-1)).map (infoValue key)

def getTableInfo (bytes : List Nat) (key : Str) : Option Str × Nat :=
  let (feats, e) := analyzeTable bytes false
  (getTableInfoFeats feats key, e)

/-- metadata.c:1103 `lou_listTables`: names sorted by `strcmp`, duplicates dropped -/
def listTables (idx : List Table) : List Str :=
  listSort cmpStr (idx.map (·.name))

/-! ## line protocol -/

def cstr (b : List Nat) : Str := b.takeWhile (· != 0)

def showStrOpt : Option Str → String
  | none => "null"
  | some s => showBytes s

def logSuffix (e w : Nat) : String := s!" e={e} w={w}"

def parseFiles : Nat → List String → Option (List (Str × List Nat))
  | 0, [] => some []
  | n + 1, nm :: b :: rest => do
    let name ← parseBytes nm
    let bytes ← parseBytes b
    let tl ← parseFiles n rest
    pure ((name, bytes) :: tl)
  | _, _ => none

/-- index the files carried on the line; `none` = malformed -/
def protoIndex (n : String) (rest : List String) : Option (List Table × Nat × Nat) := do
  let k ← n.toNat?
  let files ← parseFiles k rest
  pure (indexTables files)

/-- Operations (all strings are hex byte strings; `<files>` = `<n> <name1> <bytes1> … <namen> <bytesn>`
    in the order given to `lou_indexTables`); the result line is the one the harness prints for
    `INDEX` / `FIND` / `FINDS` / `INFO` / `LIST` after `TBL`-writing those files, with
    LOUIS_TABLEPATH pointing to an empty directory (so that an empty index stays empty):

    * `MINDEX <files>`            → `I <n> e=… w=…`
    * `MFIND <query> <files>`     → `F <name|null> e=… w=…`
    * `MFINDS <query> <files>`    → `FS <name>…|null e=… w=…`
    * `MLIST <files>`             → `LS <name>…|. e=… w=…`
    * `MINFO <key> <bytes>`       → `N <value|null|-> e=… w=…`
    * `MSCORE <query> <bytes>`    → `SC <quotient|none>` (model only: the match quotient) -/
def handle? (toks : List String) : Option String :=
  match toks with
  | "MINDEX" :: n :: rest =>
    some <| match protoIndex n rest with
    | none => "BADOP"
    | some (_, e, w) => s!"I {n.toNat?.getD 0}{logSuffix e w}"
  | "MFIND" :: q :: n :: rest =>
    some <| match parseBytes q, protoIndex n rest with
    | none, _ => "BADOP"
    | _, none => "BADOP"
    | some qb, some (idx, _, _) =>
      let query := cstr qb
      let (qf, e) := parseQuery query
      -- an empty index makes lou_findTable index the (empty) table path: two warnings
      let w := if idx.isEmpty then 2 else 0
      s!"F {showStrOpt (findTable qf idx)}{logSuffix e w}"
  | "MFINDS" :: q :: n :: rest =>
    some <| match parseBytes q, protoIndex n rest with
    | none, _ => "BADOP"
    | _, none => "BADOP"
    | some qb, some (idx, _, _) =>
      let query := cstr qb
      let (qf, e) := parseQuery query
      let w := if idx.isEmpty then 2 else 0
      let r := findTables qf idx
      let body := if r.isEmpty then " null" else String.join (r.map (fun s => " " ++ showBytes s))
      s!"FS{body}{logSuffix e w}"
  | "MLIST" :: n :: rest =>
    some <| match protoIndex n rest with
    | none => "BADOP"
    | some (idx, _, _) =>
      let w := if idx.isEmpty then 2 else 0
      let r := listTables idx
      let body := if r.isEmpty then " ." else String.join (r.map (fun s => " " ++ showBytes s))
      s!"LS{body}{logSuffix 0 w}"
  | ["MINFO", k, b] =>
    some <| match parseBytes k, parseBytes b with
    | some kb, some bytes =>
      let key := cstr kb
      let (r, e) := getTableInfo bytes key
      s!"N {showStrOpt r}{logSuffix e 0}"
    | _, _ => "BADOP"
  | ["MSCORE", q, b] =>
    some <| match parseBytes q, parseBytes b with
    | some qb, some bytes =>
      let query := cstr qb
      let (qf, _) := parseQuery query
      let (feats, _) := analyzeTable bytes true
      if feats.isEmpty then "SC none" else s!"SC {matchFeatureLists qf feats}"
    | _, _ => "BADOP"
  | op :: _ => if op ∈ ["MINDEX", "MFIND", "MFINDS", "MLIST", "MINFO", "MSCORE"] then some "BADOP" else none
  | [] => none

end Lou.Meta
