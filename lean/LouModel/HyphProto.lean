/-
  HyphProto.lean — line protocol of the hyphenation model (C17).

    MHYPDUMP <dict>                         → the line `HYPDUMP` prints for the implementation
    MHYP  <dict> <L> <Y> <k> <word>…        → per word the line `HYP <list> 0 <word>` prints;
                                              several words are joined with " ; ";
                                              k = 1 appends the tick suffix ` | K 0 0 0 0 0 0 <t> 0 0`
    MHYPB <dict> <L> <Y> <inlen> <text|fail> <inputPos>
                                            → the line `HYP <list> 1 <braille>` prints, given what
                                              lou_backTranslate returned
    MSPEC <dict> <L> <Y> <word>…            → the property (`specText`) for each word
    MPATS <dict>                            → the parsed patterns `P <letters>/<digits> …`

  <dict>  bytes of the dictionary file (hex), or `none` (no table)
  <L>     the letters: `cccc:llll,…` (character : its lower-case form), `.` = none
  <Y>     the hyphen characters (wide hex, `-` = none)
-/
import LouModel.Basic
import LouModel.Hyph

namespace Lou.HyphProto
open Lou Lou.Hyph

def showKey (k : List Nat) : String := showWide k

def insertSorted (e : Nat × Nat) : List (Nat × Nat) → List (Nat × Nat)
  | [] => [e]
  | x :: xs => if e.1 < x.1 then e :: x :: xs else x :: insertSorted e xs

def sortTrans (l : List (Nat × Nat)) : List (Nat × Nat) := l.foldr insertSorted []

/-- BFS from state 0, children in ascending character order, first visit names the state -/
def bfs (d : Dict) : Array (Nat × List Nat) × Array Nat := Id.run do
  let mut nodes : Array (Nat × List Nat) := #[(0, [])]
  let mut nodeOf : Array Nat := Array.replicate (d.size + 1) 0
  nodeOf := nodeOf.set! 0 1
  for head in [0:d.size + 1] do
    if head < nodes.size then
      let (st, key) := nodes[head]!
      let s := d.getD st {}
      for (ch, tgt) in sortTrans s.trans do
        if nodeOf.getD tgt 0 == 0 then
          nodes := nodes.push (tgt, key ++ [ch])
          nodeOf := nodeOf.set! tgt nodes.size
  return (nodes, nodeOf)

def dumpDict (d : Dict) : String := Id.run do
  let (nodes, nodeOf) := bfs d
  let mut out : String := s!"HD n={nodes.size}"
  for (st, key) in nodes do
    let s := d.getD st {}
    let pat := match s.pat with
      | none => "-"
      | some p => "p" ++ String.join (p.map toString)
    let fb :=
      if s.fallback == DEFAULTSTATE then "^"
      else match nodeOf.getD s.fallback 0 with
        | 0 => s!"?{s.fallback}"
        | k + 1 => showKey (nodes.getD k (0, [])).2
    let tr :=
      if s.trans.isEmpty then "."
      else ",".intercalate ((sortTrans s.trans).map fun (ch, tgt) =>
        let tk := match nodeOf.getD tgt 0 with
          | 0 => []
          | k + 1 => (nodes.getD k (0, [])).2
        if tk == key ++ [ch] then hex4 ch else hex4 ch ++ ">" ++ showKey tk)
    out := out ++ " | " ++ showKey key ++ " " ++ pat ++ " " ++ fb ++ " " ++ tr
  return out

/-- `some none` = no dictionary, `none` = malformed token -/
def parseDictTok (t : String) : Option (Option (List Pat)) :=
  if t == "none" then some none else (parseBytes t).map parseDict

def parseLetters (s : String) : Option (List (Nat × Nat)) :=
  if s == "." then some [] else
  (s.splitOn ",").mapM fun t =>
    match t.splitOn ":" with
    | [a, b] => do
      let x ← hexNat? a.toList
      let y ← hexNat? b.toList
      pure (x, y)
    | _ => none

def mkClasses (ls : List (Nat × Nat)) (hy : List Nat) : Classes :=
  { isLetter := fun c => ls.any (fun p => p.1 == c),
    lower := fun c => match ls.find? (fun p => p.1 == c) with | some p => p.2 | none => c,
    isHyphen := fun c => hy.contains c }

/-- the runs of letters of a text, as lou_hyphenate cuts them -/
def letterRuns (cl : Classes) : List Nat → List Nat → List (List Nat) → List (List Nat)
  | [], cur, acc => (if cur.isEmpty then acc else cur.reverse :: acc).reverse
  | c :: cs, cur, acc =>
    if cl.isLetter c then letterRuns cl cs (c :: cur) acc
    else letterRuns cl cs [] (if cur.isEmpty then acc else cur.reverse :: acc)

def showH (ret : Nat) (b : TBuf) (init : List Nat) : String :=
  if b.oob then "H FAULT oob"
  else if ret != 0 then s!"H {ret} {showBytes b.data}"
  else if b.data == init then s!"H {ret} untouched" else s!"H {ret} touched"

def hypLine (dict : Option Dict) (cl : Classes) (k : Bool) (w : List Nat) : String :=
  let init := List.replicate (w.length + 1) 117
  let runs := if w.length ≥ HYPHSTRING then [] else letterRuns cl w [] []
  let walks := match dict with
    | none => []
    | some d => runs.map (hyphenateWalk d cl.lower)
  match (walks.findSome? (fun x => x.fault) : Option HFault) with
  | some HFault.negOffset => "H FAULT negOffset"
  | some HFault.badState => "H FAULT badState"
  | some HFault.fuel => "H FAULT fuel"
  | none =>
    let (ret, b) := louHyphenateText dict cl w init
    let ticks := walks.foldl (fun t x => t + x.ticks) 0
    showH ret b init ++ " e=0 w=0" ++ (if k then s!" | K 0 0 0 0 0 0 {ticks} 0 0" else "")

def handle? (toks : List String) : Option String :=
  match toks with
  | ["MHYPDUMP", dt] => some <|
    match parseDictTok dt with
    | none => "BADOP"
    | some none => "HD none"
    | some (some pats) => dumpDict (compileDict pats)
  | ["MPATS", dt] => some <|
    match parseDictTok dt with
    | none => "BADOP"
    | some none => "P none"
    | some (some pats) =>
      "P" ++ String.join (pats.map fun p => " " ++ showWide p.letters ++ "/" ++ String.join (p.digits.map toString))
  | "MHYP" :: dt :: lt :: yt :: kt :: words => some <|
    match parseDictTok dt, parseLetters lt, parseWide yt, words.mapM parseWide with
    | some dict, some ls, some hy, some ws =>
      if ws.isEmpty then "BADOP" else
      let cl := mkClasses ls hy
      let d := dict.map compileDict
      " ; ".intercalate (ws.map (hypLine d cl (kt == "1")))
    | _, _, _, _ => "BADOP"
  | ["MHYPB", dt, lt, yt, inl, tt, ipt] => some <|
    match parseDictTok dt, parseLetters lt, parseWide yt, inl.toNat? with
    | some dict, some ls, some hy, some inlen =>
      let cl := mkClasses ls hy
      let d := dict.map compileDict
      let init := List.replicate (inlen + 1) 117
      let bt : Option (Option (List Nat × List Int)) :=
        if tt == "fail" then some none else do
          let text ← parseWide tt
          let ip ← parseInts ipt
          pure (some (text, ip))
      match bt with
      | none => "BADOP"
      | some bt =>
        let (ret, b) := louHyphenateBraille d cl inlen bt init
        showH ret b init ++ " e=0 w=0"
    | _, _, _, _ => "BADOP"
  | "MSPEC" :: dt :: lt :: yt :: words => some <|
    match parseDictTok dt, parseLetters lt, parseWide yt, words.mapM parseWide with
    | some (some pats), some ls, some hy, some ws =>
      if ws.isEmpty then "BADOP" else
      let cl := mkClasses ls hy
      " ; ".intercalate (ws.map fun w =>
        if w.length ≥ HYPHSTRING then "H 0" else s!"H 1 {showBytes (specText pats cl w)}")
    | some none, some _, some _, some ws => " ; ".intercalate (ws.map fun _ => "H 0")
    | _, _, _, _ => "BADOP"
  | _ => none

end Lou.HyphProto
