/-
  Compile.lean — the table compiler for the opcode fragment F0′ (character definitions,
  `always` and the word-position opcodes, `numsign`, `undefined`, prefixes `noback`/`nofor`),
  at the level of the logical table: `putChar`/`putDots` (compileTranslationTable.c:568-625),
  `compileCharDef` (2700-2738), `compileBrailleIndicator` (2333), `addRule` (1018-1093) and the
  four chain inserters (819-927), transcribed decision by decision.

  Offsets are abstracted to rule indices / character values (the abstraction that `DUMP`
  implements in the harness); the raw arena (object sizes, alignment, relocation) is C12's
  concern (`Image.lean`).  Hash-bucket membership is kept exactly: a rule is stored in the bucket
  of the RAW hash of its first two characters / cells.
-/
import LouModel.Table

namespace Lou.Compile
open Lou Lou.Gen

/-- one parsed table entry of the fragment -/
structure Entry where
  opcode : Nat
  chars : List Nat := []
  dots : List Nat := []       -- cells as parseDots yields them (LOU_DOTS flag set); [] for the `=` operand
  noback : Bool := false
  nofor : Bool := false
  deriving Repr, DecidableEq, Inhabited

def isDefOpcode (op : Nat) : Bool := CTO_Space ≤ op && op < CTO_UpLow

/-- attribute bit of a character-definition opcode (compileRule's dispatch, 2939-2963) -/
def defAttr (op : Nat) : Option Nat :=
  if op == CTO_Space then some CTC_Space else if op == CTO_Digit then some CTC_Digit
  else if op == CTO_LitDigit then some CTC_LitDigit else if op == CTO_Punctuation then some CTC_Punctuation
  else if op == CTO_Math then some CTC_Math else if op == CTO_Sign then some CTC_Sign
  else if op == CTO_Letter then some CTC_Letter else if op == CTO_UpperCase then some CTC_UpperCase
  else if op == CTO_LowerCase then some CTC_LowerCase else none

def rawHash (a b : Nat) : Nat := (a * 256 + b) % HASHNUM

def updChar (t : Table) (c : Nat) (f : CharRec → CharRec) : Table :=
  { t with chars := t.chars.map fun r => if r.value == c then f r else r }

def updDots (t : Table) (d : Nat) (f : DotsRec → DotsRec) : Table :=
  { t with dots := t.dots.map fun r => if r.value == d then f r else r }

/-- `putChar`: insert the character if it is not there -/
def putChar (t : Table) (c : Nat) : Table :=
  if (t.char? c).isSome then t else { t with chars := t.chars ++ [{ value := c, attrs := 0 }] }

def putDots (t : Table) (d : Nat) : Table :=
  if (t.dots? d).isSome then t else { t with dots := t.dots ++ [{ value := d, attrs := 0 }] }

/-- insert `new` before the first element of the chain for which `stop` holds (else at the end) -/
def insertBefore (stop : Rule → Bool) (t : Table) (new : Nat) : List Nat → List Nat
  | [] => [new]
  | i :: rest =>
    match t.rule? i with
    | some r => if stop r then new :: i :: rest else i :: insertBefore stop t new rest
    | none => i :: insertBefore stop t new rest

def updBucket (bs : List (Nat × List Nat)) (h : Nat) (f : List Nat → List Nat) : List (Nat × List Nat) :=
  if bs.any (·.1 == h) then bs.map fun b => if b.1 == h then (b.1, f b.2) else b
  else bs ++ [(h, f [])]

/-- `addForwardRuleWithSingleChar` (819-881), non-pass, non-comp opcodes -/
def addFwdSingle (t : Table) (r : Rule) : Table :=
  let c := r.chars.headD 0
  let t := putChar t c
  let t := if isDefOpcode r.opcode then
      updChar t c fun cr => if cr.defRule.isSome then cr else { cr with defRule := some r.idx }
    else t
  updChar t c fun cr =>
    { cr with chain := (insertBefore
        (fun o => o.chars.length == 0 || (isDefOpcode o.opcode && !isDefOpcode r.opcode)) t r.idx cr.chain) }

/-- `addForwardRuleWithMultipleChars` (883-898) -/
def addFwdMulti (t : Table) (r : Rule) : Table :=
  let h := rawHash (r.chars.getD 0 0) (r.chars.getD 1 0)
  { t with forB := updBucket t.forB h (insertBefore
      (fun o => r.chars.length > o.chars.length ||
                (r.chars.length == o.chars.length && o.opcode == CTO_Always && r.opcode != CTO_Always)) t r.idx) }

/-- `addBackwardRuleWithSingleCell` (900-927) -/
def addBackSingle (t : Table) (r : Rule) (cell : Nat) : Table :=
  if r.opcode == CTO_SwapCc || r.opcode == CTO_Repeated then t else
  let t := putDots t cell
  let t := if isDefOpcode r.opcode then updDots t cell fun dr => { dr with defRule := some r.idx } else t
  updDots t cell fun dr =>
    { dr with chain := (insertBefore
        (fun o => r.chars.length > o.chars.length || o.dots.length == 0 ||
                  (isDefOpcode o.opcode && !isDefOpcode r.opcode)) t r.idx dr.chain) }

/-- `addBackwardRuleWithMultipleCells` (929-946) -/
def addBackMulti (t : Table) (r : Rule) : Table :=
  if r.opcode == CTO_SwapCc then t else
  let h := rawHash (r.dots.getD 0 0) (r.dots.getD 1 0)
  let len (o : Rule) := o.dots.length + o.chars.length
  { t with backB := updBucket t.backB h (insertBefore
      (fun o => len r > len o || (len o == len r && o.opcode == CTO_Always && r.opcode != CTO_Always)) t r.idx) }

/-- the rule record `addRule` creates: the next sequence number -/
def newRule (t : Table) (e : Entry) : Rule :=
  { idx := t.ruleCounter, opcode := e.opcode, chars := e.chars, dots := e.dots }

def registerRule (t : Table) (r : Rule) : Table :=
  { t with ruleCounter := t.ruleCounter + 1, rules := t.rules ++ [r] }

def linkFwd (t : Table) (e : Entry) (r : Rule) : Table :=
  if e.nofor then t
  else if r.chars.length == 1 then addFwdSingle t r
  else if r.chars.length > 1 then addFwdMulti t r else t

def linkBack (t : Table) (e : Entry) (r : Rule) : Table :=
  if e.noback then t
  else if r.dots.length == 1 then addBackSingle t r (r.dots.headD 0)
  else if r.dots.length > 1 then addBackMulti t r else t

/-- `addRule` (1018-1093) for non-pass, non-swap opcodes; returns the table and the new rule's index -/
def addRule (t : Table) (e : Entry) : Table × Nat :=
  let r := newRule t e
  (linkBack (linkFwd (registerRule t r) e r) e r, r.idx)

/-- the bookkeeping `compileCharDef` does before `addRule`: the character and its cells exist and
    carry the attributes -/
def prepCharDef (t : Table) (c : Nat) (dots : List Nat) (attributes : Nat) : Table :=
  let t := putChar t c
  let t := updChar t c fun cr => { cr with attrs := cr.attrs ||| attributes }
  -- cells are looked up / created from the last to the first
  let t := dots.reverse.foldl putDots t
  if dots.length == 1 then updDots t (dots.headD 0) fun dr => { dr with attrs := dr.attrs ||| attributes } else t

/-- `compileCharDef` (2700-2738) -/
def compileCharDef (t : Table) (e : Entry) (attr : Nat) : Option Table :=
  match e.chars with
  | [c] =>
    if e.dots.isEmpty then none else
    let attributes := if attr &&& (CTC_UpperCase ||| CTC_LowerCase) != 0 then attr ||| CTC_Letter else attr
    some (addRule (prepCharDef t c e.dots attributes) e).1
  | _ => none

/-- one entry; `none` = the compiler reports an error for it -/
def compileEntry (t : Table) (e : Entry) : Option Table :=
  match defAttr e.opcode with
  | some a => compileCharDef t e a
  | none =>
    if e.opcode == CTO_NumberSign then
      if e.dots.isEmpty then none else
      let (t', i) := addRule t { e with chars := [] }
      some { t' with numberSign := some i }
    else if e.opcode == CTO_Undefined then
      if e.dots.isEmpty then none else
      let (t', i) := addRule t { e with chars := [] }
      some { t' with undefined := some i }
    else if e.chars.isEmpty then none
    else if e.dots.isEmpty &&
        !(e.chars.all fun c => match t.char? c with | some cr => cr.defRule.isSome || cr.base.isSome | none => false) then
      none        -- "Character … is not defined" for the `=` operand
    else some (addRule t e).1

/-- the rule every table starts with: `space \xffff 123456789abcdef LOU_ENDSEGMENT` (compileTable, 4992) -/
def endSegmentEntry : Entry := { opcode := CTO_Space, chars := [0xffff], dots := [0xffff] }

def initTable : Table := { numPasses := 0, finalized := false }

/-- the fold over the entries WITHOUT the finalisation step: the state of a table that has been compiled
    (`compileTable`, which starts with the LOU_ENDSEGMENT rule) and to which rules may still be added
    (`lou_compileString` runs the same `compileRule` on the same table, compileTranslationTable.c:4570-4590).
    `none` = some entry is rejected -/
def compileUnfinalised (es : List Entry) : Option Table :=
  es.foldlM compileEntry ((compileEntry initTable endSegmentEntry).getD initTable)

/-- `setDefaults` (4593) + `finalizeTable` (4490) on the fragment: no `base`, no `context` rules to re-file -/
def finalise (t : Table) : Table :=
  { t with numPasses := if t.numPasses == 0 then 1 else t.numPasses, finalized := true }

/-- `compileTable` + `setDefaults` + `finalizeTable` on a list of entries; `none` = compilation fails -/
def compile (es : List Entry) : Option Table := (compileUnfinalised es).map finalise

/-- `compileString` (4570-4590) on a table that may already be finalised: "Table is finalized" → 0, no effect.
    Returns the return value and the table afterwards -/
def compileString (t : Table) (e : Entry) : Bool × Table :=
  if t.finalized then (false, t)
  else match compileEntry t e with
    | some t' => (true, t')
    | none => (false, t)

end Lou.Compile
