/-
  Driver.lean — `_lou_translate` (lou_translateString.c:1134-1398) and
  `_lou_backTranslate` (lou_backTranslateString.c:158-356) with the per-pass
  engines as *parameters* (Layer A of DESIGN.md).

  The model follows the C statement by statement.  Everything the engines do is
  hidden behind `Engine`; the driver theorems quantify over every engine that
  satisfies the contract `EngineOK` (LouProofs/Contract.lean), and the tie to
  the code is trace validation: the harness records what every real pass
  consumed and produced (hook H4) and `Lou.Drv.replay*` must reproduce the
  API-level result from those records.
-/
import LouModel.Basic
import LouModel.PosMap

namespace Lou.Drv

/-- what the driver knows about a compiled table -/
structure TableInfo where
  corrections : Bool
  numPasses : Nat
  deriving Repr, DecidableEq

/-- what a pass receives from the driver that is visible at this level -/
structure PassIn where
  passNo : Nat
  chars : List Nat
  maxlen : Nat
  cpos : Int
  cstat : Int
  deriving Repr, DecidableEq

/-- what a pass hands back.  Forward: `map` has one entry per output element
    (input position of that element).  Backward: one entry per consumed input
    element (output position), i.e. `realInlen` entries. -/
structure PassOut where
  out : List Nat
  map : List Int
  realInlen : Nat
  cpos : Int
  cstat : Int
  ok : Bool := true        -- backward passes may return 0
  deriving Repr, DecidableEq

/-- what the driver derives from the optional arguments and hands to the engines -/
structure EngInit where
  mode : Nat
  typebuf : List Nat          -- forward only: typeform copy (zeros when typeform is NULL)
  haveEmphasis : Bool
  srcSpacing : Option (List Nat)
  deriving Repr, DecidableEq

/-- a deterministic engine: the result of a pass may depend on the initial data
    and on everything that happened in earlier passes of the same call -/
abbrev Engine := EngInit → List (PassIn × PassOut) → PassIn → PassOut

/-- caller's arguments (forward and backward) -/
structure Args where
  inbuf : List Nat
  outlen : Nat
  mode : Nat
  typeform : Option (List Nat)     -- forward: formtype per input element; backward: only presence matters
  spacing : Option (List Nat)
  wantOutputPos : Bool
  wantInputPos : Bool
  cursor : Option Int
  deriving Repr, DecidableEq

/-- API-visible result -/
structure Result where
  ret : Nat
  inlen : Int
  outlen : Int
  outbuf : List Nat
  typeform : Option (List Nat)
  outputPos : Option (List Int)
  inputPos : Option (List Int)
  cursor : Option Int
  errors : Nat := 0            -- error-level messages logged by the driver itself
  deriving Repr, DecidableEq

def EMPHASIS : Nat := 0x3fff

/-- `while (k < *inlen && inbufx[k]) k++` -/
def cutAtNul (l : List Nat) : List Nat := l.takeWhile (· != 0)

/-- forward: the pass numbers executed, in order (do-while: the first is always run) -/
def fwdPassList (t : TableInfo) : List Nat :=
  let start := if t.corrections then 0 else 1
  start :: (List.range' (start + 1) (t.numPasses - start))

/-- backward: `numPasses` down to `lastPass` (do-while as well) -/
def backPassList (t : TableInfo) : List Nat :=
  let last := if t.corrections then 0 else 1
  t.numPasses :: ((List.range' last (t.numPasses - last)).reverse)

def initFwd (a : Args) (input : List Nat) : EngInit :=
  let tb : List Nat := match a.typeform with
    | some tf => (List.range input.length).map (fun k => tf.getD k 0)
    | none => List.replicate input.length 0
  { mode := a.mode, typebuf := tb,
    haveEmphasis := tb.any (fun x => (x &&& EMPHASIS) != 0),
    srcSpacing := match a.spacing with
      | some (c :: rest) => if c == 'X'.toNat then none else some (c :: rest)
      | some [] => some []
      | none => none }

/-- forward composition (lou_translateString.c:1300-1311).
    `prev` = composed map so far (one entry more than the previous output),
    `pm`   = this pass's map with the end entry `realInlen` appended. -/
def composeFwd (prev : List Int) (pm : List Int) : List Int :=
  pm.map fun p => if p < 0 then prev.getD 0 0 else prev.getD p.toNat 0

structure FwdState where
  input : List Nat
  posMapping : List Int       -- composed, `output.length + 1` entries (empty before the first pass)
  output : List Nat
  cpos : Int
  cstat : Int
  hist : List (PassIn × PassOut)
  first : Bool
  deriving Repr

def fwdStep (e : Engine) (ini : EngInit) (maxlen : Nat) (s : FwdState) (passNo : Nat) : FwdState :=
  -- input of this pass: the original input for the first pass, else the previous output
  let input := if s.first then s.input else s.output
  let pin : PassIn := { passNo := passNo, chars := input, maxlen := maxlen, cpos := s.cpos, cstat := s.cstat }
  let po := e ini s.hist pin
  let pm := po.map ++ [(po.realInlen : Int)]
  let composed := if s.first then pm else composeFwd s.posMapping pm
  { input := input, posMapping := composed, output := po.out, cpos := po.cpos, cstat := po.cstat,
    hist := s.hist ++ [(pin, po)], first := false }

/-- final encoding of one cell (lou_translateString.c:1336-1352); `none` = no display mapping -/
def encodeCell (mode : Nat) (disp : Nat → Nat) (c : Nat) : Option Nat :=
  if hasBit mode mDotsIO then
    if hasBit mode mUcBrl then some ((c &&& 0xff) ||| LOU_ROW_BRAILLE) else some c
  else
    let ch := disp c
    if ch == 0 then none else some ch

def typeformCell (c : Nat) : Nat :=
  if (c &&& (LOU_DOT_7 ||| LOU_DOT_8)) != 0 then '8'.toNat else '0'.toNat

def failResult (a : Args) (errs : Nat) : Result :=
  { ret := 0, inlen := a.inbuf.length, outlen := a.outlen, outbuf := [], typeform := none,
    outputPos := none, inputPos := none, cursor := a.cursor, errors := errs }

/-- cursor initialisation (lou_translateString.c:1209-1238, without the compbrl bounds) -/
def fwdCursorInit (a : Args) : Int × Int :=
  match a.cursor with
  | some c => if c ≥ 0 then (c, 0) else (-1, 1)
  | none => (-1, 1)

/-- the pass loop of `_lou_translate` -/
def fwdRun (t : TableInfo) (e : Engine) (a : Args) : FwdState :=
  let input := cutAtNul a.inbuf
  let ini := initFwd a input
  let c := fwdCursorInit a
  let s0 : FwdState := { input := input, posMapping := [], output := [], cpos := c.1, cstat := c.2,
                         hist := [], first := true }
  (fwdPassList t).foldl (fwdStep e ini a.outlen) s0

/-- everything after the pass loop (lou_translateString.c:1328-1397) -/
def fwdFinish (disp : Nat → Nat) (a : Args) (s : FwdState) : Result :=
  let enc := s.output.map (encodeCell a.mode disp)
  if enc.any Option.isNone then failResult a 1
  else
    let outbuf := enc.filterMap id
    let olen := s.output.length
    let inlen' : Int := s.posMapping.getD olen 0
    let inputPos := PosMap.clampArr inlen' olen s.posMapping
    -- outputPos: entries pre-set to −1, then the scan
    let opFun := PosMap.scan inlen' olen s.posMapping (fun _ => -1)
    let outputPos := (List.range inlen'.toNat).map fun (i : Nat) => opFun (i : Int)
    let cursor' : Option Int := match a.cursor with
      | none => none
      | some c =>
        if c != -1 then
          if a.wantOutputPos then some (opFun c) else some s.cpos
        else some c
    { ret := 1, inlen := inlen', outlen := olen, outbuf := outbuf,
      typeform := a.typeform.map (fun _ => s.output.map typeformCell),
      outputPos := if a.wantOutputPos then some outputPos else none,
      inputPos := if a.wantInputPos then some inputPos else none,
      cursor := cursor' }

/-- `_lou_translate`.  `tbl = none` models a table list that does not compile. -/
def fwd (tbl : Option TableInfo) (disp : Nat → Nat) (e : Engine) (a : Args) : Result :=
  match tbl with
  | none => failResult a 1
  | some t => fwdFinish disp a (fwdRun t e a)

/-! ### backward -/

/-- input decoding (lou_backTranslateString.c:206-211), without the sentinel -/
def decodeDotsIO (c : Nat) : Nat :=
  (if c &&& LOU_DOTS = 0 ∧ c &&& 0xff00 = LOU_ROW_BRAILLE then (c &&& 0xff) ||| LOU_DOTS else c) ||| LOU_DOTS

def decodeInput (mode : Nat) (dotsFor : Nat → Nat) (l : List Nat) : List Nat :=
  l.map fun c => if hasBit mode mDotsIO then decodeDotsIO c else dotsFor c

structure BackState where
  input : List Nat
  posMapping : List Int       -- composed, indexed by position in the original input
  output : List Nat
  inlen : Int                 -- `*inlen`
  cpos : Int
  cstat : Int
  hist : List (PassIn × PassOut)
  first : Bool
  failed : Bool
  deriving Repr

/-- backward composition loop (lou_backTranslateString.c:280-306).  Returns the new
    composed map and the new `*inlen`.  `pm` = this pass's map with the end entry
    (`output.length` at index `realInlen`) in place. -/
def composeBackLoop (prev pm : List Int) (realInlen inputLen outLen : Nat) :
    Nat → Nat → List Int → Int → (List Int × Int)
  | 0, _, acc, inlen => (acc.reverse, inlen)
  | fuel + 1, k, acc, inlen =>
    if (k : Int) > inlen then (acc.reverse, inlen) else
    let pk := prev.getD k 0
    if pk < 0 then composeBackLoop prev pm realInlen inputLen outLen fuel (k + 1) (pm.getD 0 0 :: acc) inlen
    else if pk < realInlen then
      composeBackLoop prev pm realInlen inputLen outLen fuel (k + 1) (pm.getD pk.toNat 0 :: acc) inlen
    else if pk == realInlen then
      if realInlen < inputLen then ((((outLen : Int) :: acc).reverse), k)
      else composeBackLoop prev pm realInlen inputLen outLen fuel (k + 1) (pm.getD pk.toNat 0 :: acc) inlen
    else ((((outLen : Int) :: acc).reverse), k)

/-- the bookkeeping after a successful backward pass (lou_backTranslateString.c:274-307) -/
def backStepOk (s : BackState) (input : List Nat) (pin : PassIn) (po : PassOut) : BackState :=
  -- passPosMapping[realInlen] = output.length
  let pm := po.map.take po.realInlen ++ [(po.out.length : Int)]
  if s.first then
    { input := input, posMapping := pm, output := po.out,
      inlen := if po.realInlen < input.length then po.realInlen else s.inlen,
      cpos := po.cpos, cstat := po.cstat, hist := s.hist ++ [(pin, po)], first := false, failed := false }
  else
    let r := composeBackLoop s.posMapping pm po.realInlen input.length po.out.length (s.inlen.toNat + 1) 0 [] s.inlen
    { input := input, posMapping := r.1, output := po.out, inlen := r.2,
      cpos := po.cpos, cstat := po.cstat, hist := s.hist ++ [(pin, po)], first := false, failed := false }

def backStep (e : Engine) (ini : EngInit) (maxlen : Nat) (s : BackState) (passNo : Nat) : BackState :=
  if s.failed then s else
  let input := if s.first then s.input else s.output
  let pin : PassIn := { passNo := passNo, chars := input, maxlen := maxlen, cpos := s.cpos, cstat := s.cstat }
  let po := e ini s.hist pin
  if !po.ok then { s with failed := true } else backStepOk s input pin po

/-- the pass loop of `_lou_backTranslate` -/
def backRun (t : TableInfo) (dotsFor : Nat → Nat) (e : Engine) (a : Args) : BackState :=
  let src := cutAtNul a.inbuf
  let input := decodeInput a.mode dotsFor src
  let ini : EngInit := { mode := a.mode, typebuf := [], haveEmphasis := false, srcSpacing := none }
  let cpos : Int := match a.cursor with | some c => c | none => -1
  let s0 : BackState := { input := input, posMapping := [], output := [], inlen := src.length,
                          cpos := cpos, cstat := 0, hist := [], first := true, failed := false }
  (backPassList t).foldl (backStep e ini a.outlen) s0

/-- everything after the pass loop (lou_backTranslateString.c:322-355) -/
def backFinish (a : Args) (s : BackState) : Result :=
  if s.failed then failResult a 0
  else
    let olen := s.output.length
    let n := s.inlen.toNat
    let ipFun := PosMap.scan olen n s.posMapping (fun _ => -7777)
    let inputPos := (List.range olen).map fun (i : Nat) => ipFun (i : Int)
    let outputPos := PosMap.clampArr olen n s.posMapping
    let cursor' : Option Int := match a.cursor with
      | none => none
      | some c =>
        if c != -1 then
          if a.wantOutputPos then some (outputPos.getD c.toNat (-1)) else some s.cpos
        else some c
    { ret := 1, inlen := s.inlen, outlen := olen, outbuf := s.output,
      typeform := none,
      outputPos := if a.wantOutputPos then some outputPos else none,
      inputPos := if a.wantInputPos then some inputPos else none,
      cursor := cursor' }

/-- `_lou_backTranslate`. -/
def back (tbl : Option TableInfo) (dotsFor : Nat → Nat) (e : Engine) (a : Args) : Result :=
  match tbl with
  | none => failResult a 1
  | some t => backFinish a (backRun t dotsFor e a)

/-! ### replaying recorded passes (trace validation) -/

/-- an engine that replays recorded pass results, by position in the call -/
def replayEngine (recs : List PassOut) : Engine := fun _ hist _ =>
  recs.getD hist.length { out := [], map := [], realInlen := 0, cpos := 0, cstat := 0, ok := false }

end Lou.Drv
