/-
  Pass.lean — Layer B model of the multipass stages for LITERAL rules (property C06):
  the interpreters of the test / action byte-code (`passDoTest`, `passDoAction`,
  `back_passDoTest`, `back_passDoAction`), rule selection along the pass chain
  (`findForPassRule`, `findBackPassRule`) and the stage scanners (`makeCorrections`,
  `translatePass`, both directions), transcribed from lou_translateString.c and
  lou_backTranslateString.c and run on the logical table (= DUMP of the real compiler: the
  byte-code is the `dots` field of a pass rule, the chains are the FP / BP records).

  Fragment: first (`), last (~), look-back (_n), string / dots literals, replace brackets and
  the actions literal, omit (?) and copy (*).  Any other instruction met while a stage runs
  makes the whole stage `unsupported` (the check then skips the comparison) — never a guess.
  Cursor tracking is not modelled (the stages do not touch the cursor for these opcodes).
-/
import LouModel.Table

namespace Lou.Pass

open Lou Gen

structure Match where
  startMatch : Int
  startReplace : Int
  endReplace : Int
  endMatch : Int
  deriving Repr, DecidableEq

inductive TestRes where
  | unsupported
  | fail
  | ok (m : Match) (ic : Nat)
  deriving Repr, DecidableEq

/-- instruction word `i` of a program (0 beyond its end; never reached: every access is guarded by
    `ic < dotslen` as in the C loops) -/
def ins (p : List Nat) (i : Nat) : Nat := p[i]?.getD 0

def elem (l : List Nat) (i : Int) : Nat := if i < 0 then 0 else l[i.toNat]?.getD 0

/-- the literal of a string/dots instruction at `ic` -/
def literal (p : List Nat) (ic : Nat) : List Nat := (p.drop (ic + 2)).take (ins p (ic + 1))

/-- forward `matchCurrentInput`: compares while characters are left; the end segment mark never matches -/
def matchFwd (input : List Nat) (pos : Int) (lit : List Nat) : Bool :=
  (lit.zip (input.drop pos.toNat)).all (fun (l, c) => c != LOU_ENDSEGMENT && l == c)

/-- backward `matchCurrentInput` has no end test; a literal that runs over the end is compared with
    whatever follows the input, and even if that matches the next loop iteration fails on
    `pos > input->length`: in both cases the rule fails, which is what the model answers -/
def matchBack (input : List Nat) (pos : Int) (lit : List Nat) : Bool :=
  pos.toNat + lit.length ≤ input.length && (lit.zip (input.drop pos.toNat)).all (fun (l, c) => l == c)

/-- `passDoTest` (forward) on the literal fragment.  `fuel` bounds the number of instructions. -/
def fwdTest (p : List Nat) (input : List Nat) (startMatch : Int) :
    Nat → Int → Nat → Int → Int → TestRes
  | 0, _, _, _, _ => .fail
  | fuel + 1, pos, ic, sr, er =>
    if ic ≥ p.length then .fail
    else if pos > input.length ∨ pos < 0 then .fail
    else
      let op := ins p ic
      if op == pass_first then
        if pos != 0 then .fail else fwdTest p input startMatch fuel pos (ic + 1) sr er
      else if op == pass_last then
        if pos != input.length then .fail else fwdTest p input startMatch fuel pos (ic + 1) sr er
      else if op == pass_lookback then
        let pos' := pos - (ins p (ic + 1) : Int)
        if pos' < 0 then .fail else fwdTest p input startMatch fuel pos' (ic + 2) sr er
      else if op == pass_string || op == pass_dots then
        let lit := literal p ic
        if !matchFwd input pos lit then .fail
        else fwdTest p input startMatch fuel (pos + ins p (ic + 1)) (ic + ins p (ic + 1) + 2) sr er
      else if op == pass_startReplace then fwdTest p input startMatch fuel pos (ic + 1) pos er
      else if op == pass_endReplace then fwdTest p input startMatch fuel pos (ic + 1) sr pos
      else if op == pass_endTest then
        let endMatch := pos
        let sr' := if sr == -1 then startMatch else sr
        let er' := if sr == -1 then endMatch else er
        if sr' < startMatch ∨ er' == -1 ∨ er' < sr' ∨ endMatch < startMatch then .fail
        else .ok ⟨startMatch, sr', er', endMatch⟩ (ic + 1)
      else .unsupported

/-- `back_passDoTest` on the literal fragment -/
def backTest (p : List Nat) (input : List Nat) (startMatch : Int) :
    Nat → Int → Nat → Int → Int → TestRes
  | 0, _, _, _, _ => .fail
  | fuel + 1, pos, ic, sr, er =>
    if ic ≥ p.length then .fail
    else if pos > input.length then .fail
    else
      let op := ins p ic
      if op == pass_first then
        if pos != 0 then .fail else backTest p input startMatch fuel pos (ic + 1) sr er
      else if op == pass_last then
        if pos != input.length then .fail else backTest p input startMatch fuel pos (ic + 1) sr er
      else if op == pass_lookback then
        let pos' := pos - (ins p (ic + 1) : Int)
        if pos' < 0 then .fail else backTest p input startMatch fuel pos' (ic + 2) sr er
      else if op == pass_string || op == pass_dots then
        let lit := literal p ic
        if !matchBack input pos lit then .fail
        else backTest p input startMatch fuel (pos + ins p (ic + 1)) (ic + ins p (ic + 1) + 2) sr er
      else if op == pass_startReplace then backTest p input startMatch fuel pos (ic + 1) pos er
      else if op == pass_endReplace then backTest p input startMatch fuel pos (ic + 1) sr pos
      else if op == pass_endTest then
        let endMatch := pos
        let sr' := if sr == -1 then startMatch else sr
        let er' := if sr == -1 then endMatch else er
        if er' < sr' ∨ er' < startMatch ∨ endMatch < startMatch then .fail
        else .ok ⟨startMatch, sr', er', endMatch⟩ (ic + 1)
      else .unsupported

/-- the stage output so far: cells and the position map (forward: one entry per output cell = input
    position; backward: one entry per input position = output position, `none` = never written) -/
structure Acc where
  out : List Nat
  map : List Int
  deriving Repr, DecidableEq

inductive ActRes where
  | unsupported
  | fail (a : Acc)                      -- the output is full: the stage stops here, keeping what was written
  | ok (a : Acc) (newPos : Int)
  deriving Repr, DecidableEq

def slice (input : List Nat) (a b : Int) : List Nat :=
  if b ≤ a then [] else (input.drop a.toNat).take (b - a).toNat

def range (a b : Int) : List Int :=
  if b ≤ a then [] else (List.range (b - a).toNat).map (fun (k : Nat) => a + (k : Int))

/-- forward `copyCharacters` for an opcode other than `context` -/
def fwdCopy (input : List Nat) (frm to : Int) (max : Nat) (a : Acc) : Option Acc :=
  if to > frm then
    if a.out.length + (to - frm).toNat > max then none
    else some { out := a.out ++ slice input frm to, map := a.map ++ range frm to }
  else some a

/-- `passDoAction` (forward), instructions from `ic` on -/
def fwdActLoop (p : List Nat) (input : List Nat) (m : Match) (max : Nat) (destStartMatch : Nat) :
    Nat → Nat → Acc → Nat → Int → ActRes
  | 0, _, _, _, _ => .unsupported
  | fuel + 1, ic, a, destStartReplace, newPos =>
    if ic ≥ p.length then .ok a newPos
    else
      let op := ins p ic
      if op == pass_string || op == pass_dots then
        let n := ins p (ic + 1)
        if a.out.length + n > max then .fail a
        else fwdActLoop p input m max destStartMatch fuel (ic + n + 2)
              { out := a.out ++ literal p ic, map := a.map ++ List.replicate (literal p ic).length m.startReplace } destStartReplace newPos
      else if op == pass_omit then fwdActLoop p input m max destStartMatch fuel (ic + 1) a destStartReplace newPos
      else if op == pass_copy then
        let count := destStartReplace - destStartMatch
        -- memmove(&out[destStartMatch], &out[destStartReplace], count); length -= count
        let moved : Option (Acc × Nat) :=
          if count > 0 then
            if destStartReplace + count > max then none
            else
              let src := (a.out.drop destStartReplace).take count
              let out' := (a.out.take destStartMatch ++ src ++ a.out.drop (destStartMatch + src.length)).take (a.out.length - count)
              some ({ out := out', map := a.map.take (a.out.length - count) }, destStartMatch)
          else some (a, destStartReplace)
        match moved with
        | none => .fail a
        | some (a1, dsr) =>
          match fwdCopy input m.startReplace m.endReplace max a1 with
          | none => .fail a1
          | some a2 => fwdActLoop p input m max destStartMatch fuel (ic + 1) a2 dsr m.endMatch
      else .unsupported

def fwdAction (p : List Nat) (input : List Nat) (m : Match) (ic : Nat) (max : Nat) (a : Acc) : ActRes :=
  match fwdCopy input m.startMatch m.startReplace max a with
  | none => .fail a
  | some a1 => fwdActLoop p input m max a.out.length (p.length + 1) ic a1 a1.out.length m.endReplace

/-- backward position map: assignment `posMapping[k] = v` for k in [a, b) -/
def setRange (map : List Int) (a b : Int) (v : Int) : List Int :=
  map.mapIdx (fun i x => if a ≤ (i : Int) ∧ (i : Int) < b then v else x)

/-- backward `copyCharacters` for an opcode other than `context` -/
def backCopy (input : List Nat) (frm to : Int) (max : Nat) (a : Acc) : Option Acc :=
  if to > frm then
    if a.out.length + (to - frm).toNat > max then none
    else some { out := a.out ++ slice input frm to,
                map := a.map.mapIdx (fun i x => if frm ≤ (i : Int) ∧ (i : Int) < to then (a.out.length : Int) + ((i : Int) - frm) else x) }
  else some a

def backActLoop (p : List Nat) (input : List Nat) (m : Match) (max : Nat) (destStartMatch : Nat) :
    Nat → Nat → Acc → Nat → Int → ActRes
  | 0, _, _, _, _ => .unsupported
  | fuel + 1, ic, a, destStartReplace, newPos =>
    if ic ≥ p.length then .ok a newPos
    else
      let op := ins p ic
      if op == pass_string || op == pass_dots then
        let n := ins p (ic + 1)
        if a.out.length + n > max then .fail a
        else backActLoop p input m max destStartMatch fuel (ic + n + 2) { a with out := a.out ++ literal p ic } destStartReplace newPos
      else if op == pass_omit then backActLoop p input m max destStartMatch fuel (ic + 1) a destStartReplace newPos
      else if op == pass_copy then
        let count := destStartReplace - destStartMatch
        let a1dsr : Acc × Nat :=
          if count > 0 then
            let src := (a.out.drop destStartReplace).take count
            ({ a with out := (a.out.take destStartMatch ++ src ++ a.out.drop (destStartMatch + src.length)).take (a.out.length - count) },
             destStartMatch)
          else (a, destStartReplace)
        match backCopy input m.startReplace m.endReplace max a1dsr.1 with
        | none => .fail a1dsr.1
        | some a2 =>
          backActLoop p input m max destStartMatch fuel (ic + 1)
            { a2 with map := setRange a2.map m.endReplace m.endMatch a2.out.length } a1dsr.2 m.endMatch
      else .unsupported

def backAction (p : List Nat) (input : List Nat) (m : Match) (ic : Nat) (max : Nat) (a : Acc) : ActRes :=
  match backCopy input m.startMatch m.startReplace max a with
  | none => .fail a
  | some a1 =>
    backActLoop p input m max a.out.length (p.length + 1) ic
      { a1 with map := setRange a1.map m.startReplace m.endReplace a1.out.length } a1.out.length m.endReplace

/-! ### the key of a pass rule: `passFindCharacters` (compileTranslationTable.c) -/

/-- the characters a pass rule is filed under: the part of the first literal of the test that lies at or
    after the position the rule is tried at (look-back skips what lies before it); `some []` when the test
    does not start with a literal there; `none` for an instruction the compiler rejects -/
def findChars (p : List Nat) : Nat → Nat → Nat → Option (List Nat)
  | 0, _, _ => some []
  | fuel + 1, ic, lb =>
    if ic ≥ p.length then some []
    else
      let op := ins p ic
      if op == pass_string || op == pass_dots then
        let count := ins p (ic + 1)
        if count > lb then some ((p.drop (ic + 2 + lb)).take (count - lb))
        else findChars p fuel (ic + 2 + count) (lb - count)
      else if op == pass_attributes then
        if ins p (ic + 5) == ins p (ic + 6) && ins p (ic + 6) ≤ lb then findChars p fuel (ic + 7) (lb - ins p (ic + 6))
        else some []
      else if op == pass_swap || op == pass_groupstart || op == pass_groupend || op == pass_groupreplace then some []
      else if op == pass_eq || op == pass_lt || op == pass_gt || op == pass_lteq || op == pass_gteq then
        findChars p fuel (ic + 3) lb
      else if op == pass_lookback then findChars p fuel (ic + 2) (lb + ins p (ic + 1))
      else if op == pass_not || op == pass_startReplace || op == pass_endReplace || op == pass_first || op == pass_last
              || op == pass_copy || op == pass_omit || op == pass_plus || op == pass_hyphen then findChars p fuel (ic + 1) lb
      else if op == pass_endTest then some []
      else none

def keyOf (r : Rule) : Option (List Nat) := findChars r.dots (r.dots.length + 1) 0 0

def isPassOpcode (op : Nat) : Bool :=
  op == CTO_Correct || op == CTO_Context || op == CTO_Pass2 || op == CTO_Pass3 || op == CTO_Pass4

/-- a chain of pass rules is in order: longer keys first, definition order among equal lengths -/
def chainSorted : List Rule → Bool
  | [] => true
  | [_] => true
  | a :: b :: rest => (b.chars.length < a.chars.length || (b.chars.length == a.chars.length && a.idx < b.idx)) && chainSorted (b :: rest)

/-- what the compiler must have established for the pass rules of a table: every rule is filed under the
    key `passFindCharacters` yields for its program, sits in the chain of its own stage, and every chain is
    in order -/
def passTableOK (t : Table) : List String :=
  let keyBad := (t.rules.filter (fun r => isPassOpcode r.opcode)).filterMap fun r =>
    match keyOf r with
    | none => some s!"key:unsupported:{r.idx}"
    | some k => if k == r.chars then none else some s!"key:{r.idx}"
  let chainBad (back : Bool) (pc : Nat × List Nat) : List String :=
    let rs := rulesOf' t pc.2
    (if rs.length != pc.2.length then [s!"chain:dangling:{pc.1}"] else []) ++
    (if rs.any (fun r => r.opcode != opcodeOfPass' pc.1) then [s!"chain:stage:{pc.1}"] else []) ++
    (if chainSorted rs then [] else [s!"chain:order:{if back then "b" else "f"}{pc.1}"])
  keyBad ++ (t.forPass.flatMap (chainBad false)) ++ (t.backPass.flatMap (chainBad true))
where
  rulesOf' (t : Table) (chain : List Nat) : List Rule := chain.filterMap t.rule?
  opcodeOfPass' (n : Nat) : Nat :=
    if n == 0 then CTO_Correct else if n == 1 then CTO_Context else if n == 2 then CTO_Pass2
    else if n == 3 then CTO_Pass3 else CTO_Pass4

/-! ### rule selection: the first rule of the chain whose test succeeds -/

inductive Sel where
  | unsupported
  | none
  | rule (r : Rule) (m : Match) (ic : Nat)
  deriving Repr, DecidableEq

/-- opcode a rule of the chain of pass `n` must have (`findBackPassRule` filters; the forward chains
    hold nothing else) -/
def opcodeOfPass (n : Nat) : Nat :=
  if n == 0 then CTO_Correct else if n == 1 then CTO_Context else if n == 2 then CTO_Pass2
  else if n == 3 then CTO_Pass3 else CTO_Pass4

def select (back : Bool) (pass : Nat) (rules : List Rule) (input : List Nat) (pos : Int) : Sel :=
  match rules with
  | [] => .none
  | r :: rest =>
    if back && r.opcode != opcodeOfPass pass then select back pass rest input pos
    else
      match (if back then backTest else fwdTest) r.dots input pos (r.dots.length + 1) pos 0 (-1) (-1) with
      | .unsupported => .unsupported
      | .ok m ic => .rule r m ic
      | .fail => select back pass rest input pos

/-! ### the stage scanners -/

structure StageOut where
  out : List Nat
  map : List Int
  realInlen : Nat
  applied : List Nat := []      -- indices of the applied rules, in order
  deriving Repr, DecidableEq

inductive StageRes where
  | unsupported
  | fuel                        -- the iteration bound was hit (never, see LouProofs/C06Pass)
  | done (o : StageOut)
  deriving Repr, DecidableEq

def isSpaceDots (t : Table) (d : Nat) : Bool := (t.getDots d).attrs &&& CTC_Space != 0

/-- `while (checkDotsAttr(input[pos], CTC_Space)) if (++pos == length) break;` -/
def skipSpaces (t : Table) (input : List Nat) : Nat → Nat → Nat
  | 0, pos => pos
  | fuel + 1, pos =>
    if pos < input.length ∧ isSpaceDots t (input[pos]?.getD 0) then skipSpaces t input fuel (pos + 1) else pos

/-- forward stage.  `pass = 0`: makeCorrections (no blank skipping at a failure); 2..4: translatePass -/
def fwdLoop (t : Table) (pass : Nat) (rules : List Rule) (input : List Nat) (max : Nat) :
    Nat → Int → Bool → Acc → List Nat → StageRes
  | 0, _, _, _, _ => .fuel
  | fuel + 1, pos, posInc, a, applied =>
    let finish (p : Int) (a : Acc) : StageRes :=
      let p' := if pass == 0 then p.toNat else skipSpaces t input input.length p.toNat
      .done { out := a.out, map := a.map, realInlen := p', applied := applied }
    if pos ≥ input.length then .done { out := a.out, map := a.map, realInlen := pos.toNat, applied := applied }
    else
      let sel := if posInc then select false pass rules input pos else Sel.none
      match sel with
      | .unsupported => .unsupported
      | .none =>
        if a.out.length + 1 > max then finish pos a
        else fwdLoop t pass rules input max fuel (pos + 1) true
              { out := a.out ++ [elem input pos], map := a.map ++ [pos] } applied
      | .rule r m ic =>
        match fwdAction r.dots input m ic max a with
        | .unsupported => .unsupported
        | .fail a' => finish pos a'
        | .ok a' newPos => fwdLoop t pass rules input max fuel newPos (newPos != pos) a' (applied ++ [r.idx])

def rulesOf (t : Table) (chain : List Nat) : List Rule := chain.filterMap t.rule?

def fwdStage (t : Table) (pass : Nat) (input : List Nat) (max : Nat) : StageRes :=
  fwdLoop t pass (rulesOf t (t.forPassChain pass)) input max (2 * input.length + 2) 0 true ⟨[], []⟩ []

/-- backward stage; the map has one entry per input position, unset entries keep `unset` -/
def unset : Int := -7777

def backLoop (t : Table) (pass : Nat) (rules : List Rule) (input : List Nat) (max : Nat) :
    Nat → Int → Bool → Acc → List Nat → StageRes
  | 0, _, _, _, _ => .fuel
  | fuel + 1, pos, posInc, a, applied =>
    let finish (p : Int) (a : Acc) : StageRes :=
      if pass == 0 then .done { out := a.out, map := a.map, realInlen := p.toNat, applied := applied }
      else
        let p' := skipSpaces t input input.length p.toNat
        .done { out := a.out, map := setRange a.map p p' a.out.length, realInlen := p', applied := applied }
    if pos ≥ input.length then .done { out := a.out, map := a.map, realInlen := pos.toNat, applied := applied }
    else
      let sel := if posInc then select true pass rules input pos else Sel.none
      match sel with
      | .unsupported => .unsupported
      | .none =>
        if a.out.length + 1 > max then finish pos a
        else backLoop t pass rules input max fuel (pos + 1) true
              { out := a.out ++ [elem input pos], map := setRange a.map pos (pos + 1) a.out.length } applied
      | .rule r m ic =>
        match backAction r.dots input m ic max a with
        | .unsupported => .unsupported
        | .fail a' => finish pos a'
        | .ok a' newPos => backLoop t pass rules input max fuel newPos (newPos > pos) a' (applied ++ [r.idx])

def backStage (t : Table) (pass : Nat) (input : List Nat) (max : Nat) : StageRes :=
  backLoop t pass (rulesOf t (t.backPassChain pass)) input max (2 * input.length + 2) 0 true
    ⟨[], List.replicate input.length unset⟩ []

end Lou.Pass
