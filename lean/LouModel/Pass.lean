/-
  Pass.lean — Layer B model of the multipass stages for LITERAL rules (property C06):
  the interpreters of the test / action byte-code (`passDoTest`, `passDoAction`,
  `back_passDoTest`, `back_passDoAction`), rule selection along the pass chain
  (`findForPassRule`, `findBackPassRule`) and the stage scanners (`makeCorrections`,
  `translatePass`, both directions), transcribed from lou_translateString.c and
  lou_backTranslateString.c and run on the logical table (= DUMP of the real compiler: the
  byte-code is the `dots` field of a pass rule, the chains are the FP / BP records).

  Fragment: first (`), last (~), look-back (_n), string / dots literals, negation (!), attribute
  operands ($a, $l1-3, %class …) with their repeat counts, tests and assignments of the pass
  variables (#n=k, #n<k, #n+ …), replace brackets and the actions literal, omit (?) and copy (*).
  Any other instruction (swap, grouping, look-ahead search) met while a stage runs makes the whole
  stage `unsupported` (the check then skips the comparison) — never a guess.
  Cursor tracking is not modelled (the stages do not touch the cursor for these opcodes).
-/
import LouModel.Table

namespace Lou.Pass

open Lou Gen

structure Match where
  startMatch : Int
  startReplace : Int
  endReplace : Int
  endMatch : Int
  deriving Repr, DecidableEq

inductive TestRes where
  | unsupported
  | fail
  | ok (m : Match) (ic : Nat)
  deriving Repr, DecidableEq

/-- instruction word `i` of a program (0 beyond its end; never reached: every access is guarded by
    `ic < dotslen` as in the C loops) -/
def ins (p : List Nat) (i : Nat) : Nat := p[i]?.getD 0

def elem (l : List Nat) (i : Int) : Nat := if i < 0 then 0 else l[i.toNat]?.getD 0

/-- the literal of a string/dots instruction at `ic` -/
def literal (p : List Nat) (ic : Nat) : List Nat := (p.drop (ic + 2)).take (ins p (ic + 1))

/-- forward `matchCurrentInput`: compares while characters are left; the end segment mark never matches -/
def matchFwd (input : List Nat) (pos : Int) (lit : List Nat) : Bool :=
  (lit.zip (input.drop pos.toNat)).all (fun (l, c) => c != LOU_ENDSEGMENT && l == c)

/-- backward `matchCurrentInput` has no end test; a literal that runs over the end is compared with
    whatever follows the input, and even if that matches the next loop iteration fails on
    `pos > input->length`: in both cases the rule fails, which is what the model answers -/
def matchBack (input : List Nat) (pos : Int) (lit : List Nat) : Bool :=
  pos.toNat + lit.length ≤ input.length && (lit.zip (input.drop pos.toNat)).all (fun (l, c) => l == c)

/-- the 64-bit attribute mask of an attribute operand (four instruction words) -/
def attrMask (p : List Nat) (ic : Nat) : Nat :=
  ((ins p (ic + 1) * 65536 + ins p (ic + 2)) * 65536 + ins p (ic + 3)) * 65536 + ins p (ic + 4)

/-- attributes of an element as a stage sees them: characters (correct) or cells (pass2-4) -/
def attrsAt (t : Table) (dotsSide : Bool) (x : Nat) : Nat :=
  if dotsSide then (t.getDots x).attrs else (t.getChar x).attrs

/-- the mandatory repetitions of an attribute operand: (all matched, position reached).  `neg` = the operand is
    negated (forward only: the backward interpreter negates the outcome instead); `seg` = the end-segment mark
    never matches (forward only) -/
def attrMin (t : Table) (dotsSide neg seg : Bool) (mask : Nat) (input : List Nat) : Nat → Int → Bool × Int
  | 0, pos => (true, pos)
  | k + 1, pos =>
    if pos ≥ input.length then (false, pos)
    else if seg && elem input pos == LOU_ENDSEGMENT then (false, pos)
    else if ((attrsAt t dotsSide (elem input pos) &&& mask) != 0) == neg then (false, pos)
    else attrMin t dotsSide neg seg mask input k (pos + 1)

/-- the optional repetitions: stops at the first element that does not qualify -/
def attrMax (t : Table) (dotsSide neg seg : Bool) (mask : Nat) (input : List Nat) : Nat → Int → Bool × Int
  | 0, pos => (true, pos)
  | k + 1, pos =>
    if pos ≥ input.length then (true, pos)
    else if seg && elem input pos == LOU_ENDSEGMENT then (false, pos)
    else if ((attrsAt t dotsSide (elem input pos) &&& mask) != 0) == neg then (true, pos)
    else attrMax t dotsSide neg seg mask input k (pos + 1)

/-- an attribute operand with counts min..max -/
def attrOperand (t : Table) (dotsSide neg seg : Bool) (p : List Nat) (ic : Nat) (input : List Nat) (pos : Int) : Bool × Int :=
  let mask := attrMask p ic
  let r := attrMin t dotsSide neg seg mask input (ins p (ic + 5)) pos
  if r.1 then attrMax t dotsSide neg seg mask input (ins p (ic + 6) - ins p (ic + 5)) r.2 else r

/-- `_lou_handlePassVariableTest`: `some outcome` for a comparison instruction -/
def varTest (p : List Nat) (ic : Nat) (vars : List Nat) : Option Bool :=
  let op := ins p ic
  let v := vars[ins p (ic + 1)]?.getD 0
  let k := ins p (ic + 2)
  if op == pass_eq then some (v == k)
  else if op == pass_lt then some (v < k)
  else if op == pass_gt then some (v > k)
  else if op == pass_lteq then some (v ≤ k)
  else if op == pass_gteq then some (v ≥ k)
  else none

/-- the check after every operand: `if ((!notOperator && !itsTrue) || (notOperator && itsTrue)) return 0;` —
    the test goes on with `k` unless the outcome equals the pending negation -/
def post (neg itsTrue : Bool) (k : TestRes) : TestRes := if itsTrue == neg then .fail else k

@[simp] theorem post_ok (neg b : Bool) (k : TestRes) (m : Match) (ic : Nat) :
    post neg b k = .ok m ic ↔ (b == neg) = false ∧ k = .ok m ic := by
  unfold post; split <;> simp_all

/-- the rule a swap instruction refers to.  In the logical table the two reference words of an instruction hold the
    INDEX of the rule (the DUMP replaces the arena offset by it) -/
def refRule (t : Table) (p : List Nat) (ic : Nat) : Option Rule := t.rule? (ins p (ic + 1) * 65536 + ins p (ic + 2))

/-- is `x` one of the elements a swap rule lists?  (`swapdd` stores its cells at the odd positions) -/
def swapMember (r : Rule) (x : Nat) : Bool :=
  if r.opcode == CTO_SwapDd then (List.range (r.chars.length / 2)).any (fun k => r.chars[2 * k + 1]?.getD 0 == x)
  else r.chars.any (· == x)

/-- forward `swapTest`: `min` members are required, up to `max` are taken -/
def swapMin (r : Rule) (input : List Nat) : Nat → Int → Option Int
  | 0, p => some p
  | k + 1, p => if p ≥ input.length then none else if swapMember r (elem input p) then swapMin r input k (p + 1) else none

def swapMax (r : Rule) (input : List Nat) : Nat → Int → Int
  | 0, p => p
  | k + 1, p => if p ≥ input.length then p else if swapMember r (elem input p) then swapMax r input k (p + 1) else p

def swapOperand (r : Rule) (p : List Nat) (ic : Nat) (input : List Nat) (pos : Int) : Option Int :=
  match swapMin r input (ins p (ic + 3)) pos with
  | none => none
  | some q => if ins p (ic + 3) == ins p (ic + 4) then some q else some (swapMax r input (ins p (ic + 4) - ins p (ic + 3)) q)

/-- the context a test runs in: the table, which side the stage works on, the pass variables -/
structure Ctx where
  t : Table
  dotsSide : Bool
  vars : List Nat

/-- `passDoTest` (forward).  `fuel` bounds the number of instructions; `neg` is the pending `!`. -/
def fwdTest (c : Ctx) (p : List Nat) (input : List Nat) (startMatch : Int) :
    Nat → Int → Nat → Int → Int → Bool → TestRes
  | 0, _, _, _, _, _ => .fail
  | fuel + 1, pos, ic, sr, er, neg =>
    if ic ≥ p.length then .fail
    else if pos > input.length ∨ pos < 0 then .fail
    else
      let op := ins p ic
      if op == pass_not then fwdTest c p input startMatch fuel pos (ic + 1) sr er (!neg)
      else if op == pass_first then post neg (pos == 0) (fwdTest c p input startMatch fuel pos (ic + 1) sr er false)
      else if op == pass_last then post neg (pos == input.length) (fwdTest c p input startMatch fuel pos (ic + 1) sr er false)
      else if op == pass_lookback then
        let pos' := pos - (ins p (ic + 1) : Int)
        -- forward: the position stays negative (only `searchPos` is reset), so even under `!` the next
        -- instruction fails on it
        if pos' < 0 then post neg false (fwdTest c p input startMatch fuel pos' (ic + 2) sr er false)
        else post neg true (fwdTest c p input startMatch fuel pos' (ic + 2) sr er false)
      else if op == pass_string || op == pass_dots then
        post neg (matchFwd input pos (literal p ic)) (fwdTest c p input startMatch fuel (pos + ins p (ic + 1)) (ic + ins p (ic + 1) + 2) sr er false)
      else if op == pass_startReplace then post neg true (fwdTest c p input startMatch fuel pos (ic + 1) pos er false)
      else if op == pass_endReplace then post neg true (fwdTest c p input startMatch fuel pos (ic + 1) sr pos false)
      else if op == pass_attributes then
        -- the operand takes the `!` into account itself and clears it
        let r := attrOperand c.t c.dotsSide neg true p ic input pos
        if r.1 then fwdTest c p input startMatch fuel r.2 (ic + 7) sr er false else .fail
      else if op == pass_swap then
        match refRule c.t p ic with
        | none => .unsupported
        | some r =>
          match swapOperand r p ic input pos with
          | none => post neg false (fwdTest c p input startMatch fuel pos (ic + 5) sr er false)
          | some q => post neg true (fwdTest c p input startMatch fuel q (ic + 5) sr er false)
      else if op == pass_endTest then
        let endMatch := pos
        let sr' := if sr == -1 then startMatch else sr
        let er' := if sr == -1 then endMatch else er
        if sr' < startMatch ∨ er' == -1 ∨ er' < sr' ∨ endMatch < startMatch then .fail
        else .ok ⟨startMatch, sr', er', endMatch⟩ (ic + 1)
      else
        match varTest p ic c.vars with
        | some b => post neg b (fwdTest c p input startMatch fuel pos (ic + 3) sr er false)
        | none => .unsupported

/-- `back_passDoTest` on the literal fragment -/
def backTest (c : Ctx) (p : List Nat) (input : List Nat) (startMatch : Int) :
    Nat → Int → Nat → Int → Int → Bool → TestRes
  | 0, _, _, _, _, _ => .fail
  | fuel + 1, pos, ic, sr, er, neg =>
    if ic ≥ p.length then .fail
    else if pos > input.length then .fail
    else
      let op := ins p ic
      if op == pass_not then backTest c p input startMatch fuel pos (ic + 1) sr er (!neg)
      else if op == pass_first then post neg (pos == 0) (backTest c p input startMatch fuel pos (ic + 1) sr er false)
      else if op == pass_last then post neg (pos == input.length) (backTest c p input startMatch fuel pos (ic + 1) sr er false)
      else if op == pass_lookback then
        let pos' := pos - (ins p (ic + 1) : Int)
        if pos' < 0 then post neg false (backTest c p input startMatch fuel 0 (ic + 2) sr er false)
        else post neg true (backTest c p input startMatch fuel pos' (ic + 2) sr er false)
      else if op == pass_string || op == pass_dots then
        post neg (matchBack input pos (literal p ic)) (backTest c p input startMatch fuel (pos + ins p (ic + 1)) (ic + ins p (ic + 1) + 2) sr er false)
      else if op == pass_startReplace then post neg true (backTest c p input startMatch fuel pos (ic + 1) pos er false)
      else if op == pass_endReplace then post neg true (backTest c p input startMatch fuel pos (ic + 1) sr pos false)
      else if op == pass_attributes then
        -- the backward interpreter evaluates the operand plainly and lets the `!` negate its outcome
        let r := attrOperand c.t c.dotsSide false false p ic input pos
        post neg r.1 (backTest c p input startMatch fuel r.2 (ic + 7) sr er false)
      else if op == pass_endTest then
        let endMatch := pos
        let sr' := if sr == -1 then startMatch else sr
        let er' := if sr == -1 then endMatch else er
        if er' < sr' ∨ er' < startMatch ∨ endMatch < startMatch then .fail
        else .ok ⟨startMatch, sr', er', endMatch⟩ (ic + 1)
      else
        match varTest p ic c.vars with
        | some b => post neg b (backTest c p input startMatch fuel pos (ic + 3) sr er false)
        | none => .unsupported

/-- the stage output so far: cells and the position map (forward: one entry per output cell = input
    position; backward: one entry per input position = output position, `none` = never written) -/
structure Acc where
  out : List Nat
  map : List Int
  deriving Repr, DecidableEq

inductive ActRes where
  | unsupported
  | fail (a : Acc) (vars : List Nat)    -- the output is full: the stage stops here, keeping what was written
  | ok (a : Acc) (newPos : Int) (vars : List Nat)
  deriving Repr, DecidableEq

def slice (input : List Nat) (a b : Int) : List Nat :=
  if b ≤ a then [] else (input.drop a.toNat).take (b - a).toNat

def range (a b : Int) : List Int :=
  if b ≤ a then [] else (List.range (b - a).toNat).map (fun (k : Nat) => a + (k : Int))

/-- `_lou_handlePassVariableAction`: the new variables and the instruction length, for an assignment -/
def varAction (p : List Nat) (ic : Nat) (vars : List Nat) : Option (List Nat × Nat) :=
  let op := ins p ic
  let i := ins p (ic + 1)
  let v := vars[i]?.getD 0
  if op == pass_eq then some (vars.set i (ins p (ic + 2)), 3)
  else if op == pass_hyphen then some (vars.set i (v - 1), 2)
  else if op == pass_plus then some (vars.set i (v + 1), 2)
  else none

/-- position of `x` among the elements of a swap rule -/
def swapIndex (r : Rule) (x : Nat) : Option Nat :=
  if r.opcode == CTO_SwapDd then (List.range (r.chars.length / 2)).find? (fun k => r.chars[2 * k + 1]?.getD 0 == x)
  else (List.range r.chars.length).find? (fun k => r.chars[k]?.getD 0 == x)

/-- start of the `n`-th replacement in the length-prefixed list (`k += replacements[k]`) -/
def replOffset (repl : List Nat) : Nat → Nat → Nat
  | 0, k => k
  | n + 1, k => replOffset repl n (k + repl[k]?.getD 0)

/-- forward `swapReplace` for one input element: what it appends (none = output full) -/
def swapOne (r : Rule) (x : Nat) (p : Int) (max : Nat) (a : Acc) : Option Acc :=
  match swapIndex r x with
  | none => some a                              -- not a member: nothing is written for it
  | some i =>
    if r.opcode == CTO_SwapCc then
      if a.out.length + 1 > max then none
      else some { out := a.out ++ [r.dots[i]?.getD 0], map := a.map ++ [p] }
    else
      let k := replOffset r.dots i 0
      let l := r.dots[k]?.getD 0 - 1
      if r.dots[k]?.getD 0 == 0 then none     -- `if (length < 0) return 0`
      else if a.out.length + l > max then none
      else
        let cells := (r.dots.drop (k + 1)).take l
        some { out := a.out ++ cells, map := a.map ++ List.replicate cells.length p }

def swapReplace (r : Rule) (input : List Nat) (max : Nat) : Nat → Int → Acc → Acc × Bool
  | 0, _, a => (a, true)
  | n + 1, p, a =>
    match swapOne r (elem input p) p max a with
    | none => (a, false)
    | some a' => swapReplace r input max n (p + 1) a'

/-- forward `copyCharacters` for an opcode other than `context` -/
def fwdCopy (input : List Nat) (frm to : Int) (max : Nat) (a : Acc) : Option Acc :=
  if to > frm then
    if a.out.length + (to - frm).toNat > max then none
    else some { out := a.out ++ slice input frm to, map := a.map ++ range frm to }
  else some a

/-- `passDoAction` (forward), instructions from `ic` on -/
def fwdActLoop (t : Table) (p : List Nat) (input : List Nat) (m : Match) (max : Nat) (destStartMatch : Nat) :
    Nat → Nat → Acc → Nat → Int → List Nat → ActRes
  | 0, _, _, _, _, _ => .unsupported
  | fuel + 1, ic, a, destStartReplace, newPos, vars =>
    if ic ≥ p.length then .ok a newPos vars
    else
      let op := ins p ic
      if op == pass_string || op == pass_dots then
        let n := ins p (ic + 1)
        if a.out.length + n > max then .fail a vars
        else fwdActLoop t p input m max destStartMatch fuel (ic + n + 2)
              { out := a.out ++ literal p ic, map := a.map ++ List.replicate (literal p ic).length m.startReplace } destStartReplace newPos vars
      else if op == pass_omit then fwdActLoop t p input m max destStartMatch fuel (ic + 1) a destStartReplace newPos vars
      else if op == pass_copy then
        let count := destStartReplace - destStartMatch
        -- memmove(&out[destStartMatch], &out[destStartReplace], count); length -= count
        let moved : Option (Acc × Nat) :=
          if count > 0 then
            if destStartReplace + count > max then none
            else
              let src := (a.out.drop destStartReplace).take count
              let out' := (a.out.take destStartMatch ++ src ++ a.out.drop (destStartMatch + src.length)).take (a.out.length - count)
              some ({ out := out', map := a.map.take (a.out.length - count) }, destStartMatch)
          else some (a, destStartReplace)
        match moved with
        | none => .fail a vars
        | some (a1, dsr) =>
          match fwdCopy input m.startReplace m.endReplace max a1 with
          | none => .fail a1 vars
          | some a2 => fwdActLoop t p input m max destStartMatch fuel (ic + 1) a2 dsr m.endMatch vars
      else if op == pass_swap then
        match refRule t p ic with
        | none => .unsupported
        | some r =>
          let res := swapReplace r input max (m.endReplace - m.startReplace).toNat m.startReplace a
          if res.2 then fwdActLoop t p input m max destStartMatch fuel (ic + 3) res.1 destStartReplace newPos vars
          else .fail res.1 vars
      else
        match varAction p ic vars with
        | some (vars', len) => fwdActLoop t p input m max destStartMatch fuel (ic + len) a destStartReplace newPos vars'
        | none => .unsupported

def fwdAction (t : Table) (p : List Nat) (input : List Nat) (m : Match) (ic : Nat) (max : Nat) (a : Acc) (vars : List Nat) : ActRes :=
  match fwdCopy input m.startMatch m.startReplace max a with
  | none => .fail a vars
  | some a1 => fwdActLoop t p input m max a.out.length (p.length + 1) ic a1 a1.out.length m.endReplace vars

/-- backward position map: assignment `posMapping[k] = v` for k in [a, b) -/
def setRange (map : List Int) (a b : Int) (v : Int) : List Int :=
  map.mapIdx (fun i x => if a ≤ (i : Int) ∧ (i : Int) < b then v else x)

/-- backward `copyCharacters` for an opcode other than `context` -/
def backCopy (input : List Nat) (frm to : Int) (max : Nat) (a : Acc) : Option Acc :=
  if to > frm then
    if a.out.length + (to - frm).toNat > max then none
    else some { out := a.out ++ slice input frm to,
                map := a.map.mapIdx (fun i x => if frm ≤ (i : Int) ∧ (i : Int) < to then (a.out.length : Int) + ((i : Int) - frm) else x) }
  else some a

def backActLoop (p : List Nat) (input : List Nat) (m : Match) (max : Nat) (destStartMatch : Nat) :
    Nat → Nat → Acc → Nat → Int → List Nat → ActRes
  | 0, _, _, _, _, _ => .unsupported
  | fuel + 1, ic, a, destStartReplace, newPos, vars =>
    if ic ≥ p.length then .ok a newPos vars
    else
      let op := ins p ic
      if op == pass_string || op == pass_dots then
        let n := ins p (ic + 1)
        if a.out.length + n > max then .fail a vars
        else backActLoop p input m max destStartMatch fuel (ic + n + 2) { a with out := a.out ++ literal p ic } destStartReplace newPos vars
      else if op == pass_omit then backActLoop p input m max destStartMatch fuel (ic + 1) a destStartReplace newPos vars
      else if op == pass_copy then
        let count := destStartReplace - destStartMatch
        -- `if (destStartReplace + count > output->maxlength) return 0;` (the moved block lies inside the buffer)
        if count > 0 && destStartReplace + count > max then .fail a vars else
        let a1dsr : Acc × Nat :=
          if count > 0 then
            let src := (a.out.drop destStartReplace).take count
            ({ a with out := (a.out.take destStartMatch ++ src ++ a.out.drop (destStartMatch + src.length)).take (a.out.length - count) },
             destStartMatch)
          else (a, destStartReplace)
        match backCopy input m.startReplace m.endReplace max a1dsr.1 with
        | none => .fail a1dsr.1 vars
        | some a2 =>
          backActLoop p input m max destStartMatch fuel (ic + 1)
            { a2 with map := setRange a2.map m.endReplace m.endMatch a2.out.length } a1dsr.2 m.endMatch vars
      else
        match varAction p ic vars with
        | some (vars', len) => backActLoop p input m max destStartMatch fuel (ic + len) a destStartReplace newPos vars'
        | none => .unsupported

def backAction (p : List Nat) (input : List Nat) (m : Match) (ic : Nat) (max : Nat) (a : Acc) (vars : List Nat) : ActRes :=
  match backCopy input m.startMatch m.startReplace max a with
  | none => .fail a vars
  | some a1 =>
    backActLoop p input m max a.out.length (p.length + 1) ic
      { a1 with map := setRange a1.map m.startReplace m.endReplace a1.out.length } a1.out.length m.endReplace vars

/-! ### the key of a pass rule: `passFindCharacters` (compileTranslationTable.c) -/

/-- the characters a pass rule is filed under: the part of the first literal of the test that lies at or
    after the position the rule is tried at (look-back skips what lies before it); `some []` when the test
    does not start with a literal there; `none` for an instruction the compiler rejects -/
def findChars (p : List Nat) : Nat → Nat → Nat → Option (List Nat)
  | 0, _, _ => some []
  | fuel + 1, ic, lb =>
    if ic ≥ p.length then some []
    else
      let op := ins p ic
      if op == pass_string || op == pass_dots then
        let count := ins p (ic + 1)
        if count > lb then some ((p.drop (ic + 2 + lb)).take (count - lb))
        else findChars p fuel (ic + 2 + count) (lb - count)
      else if op == pass_attributes then
        if ins p (ic + 5) == ins p (ic + 6) && ins p (ic + 6) ≤ lb then findChars p fuel (ic + 7) (lb - ins p (ic + 6))
        else some []
      else if op == pass_swap || op == pass_groupstart || op == pass_groupend || op == pass_groupreplace then some []
      else if op == pass_eq || op == pass_lt || op == pass_gt || op == pass_lteq || op == pass_gteq then
        findChars p fuel (ic + 3) lb
      else if op == pass_lookback then findChars p fuel (ic + 2) (lb + ins p (ic + 1))
      else if op == pass_not || op == pass_startReplace || op == pass_endReplace || op == pass_first || op == pass_last
              || op == pass_copy || op == pass_omit || op == pass_plus || op == pass_hyphen then findChars p fuel (ic + 1) lb
      else if op == pass_endTest then some []
      else none

def keyOf (r : Rule) : Option (List Nat) := findChars r.dots (r.dots.length + 1) 0 0

def isPassOpcode (op : Nat) : Bool :=
  op == CTO_Correct || op == CTO_Context || op == CTO_Pass2 || op == CTO_Pass3 || op == CTO_Pass4

/-- a chain of pass rules is in order: longer keys first, definition order among equal lengths -/
def chainSorted : List Rule → Bool
  | [] => true
  | [_] => true
  | a :: b :: rest => (b.chars.length < a.chars.length || (b.chars.length == a.chars.length && a.idx < b.idx)) && chainSorted (b :: rest)

/-- what the compiler must have established for the pass rules of a table: every rule is filed under the
    key `passFindCharacters` yields for its program, sits in the chain of its own stage, and every chain is
    in order -/
def passTableOK (t : Table) : List String :=
  let keyBad := (t.rules.filter (fun r => isPassOpcode r.opcode)).filterMap fun r =>
    match keyOf r with
    | none => some s!"key:unsupported:{r.idx}"
    | some k => if k == r.chars then none else some s!"key:{r.idx}"
  let chainBad (back : Bool) (pc : Nat × List Nat) : List String :=
    let rs := rulesOf' t pc.2
    (if rs.length != pc.2.length then [s!"chain:dangling:{pc.1}"] else []) ++
    (if rs.any (fun r => r.opcode != opcodeOfPass' pc.1) then [s!"chain:stage:{pc.1}"] else []) ++
    (if chainSorted rs then [] else [s!"chain:order:{if back then "b" else "f"}{pc.1}"])
  keyBad ++ (t.forPass.flatMap (chainBad false)) ++ (t.backPass.flatMap (chainBad true))
where
  rulesOf' (t : Table) (chain : List Nat) : List Rule := chain.filterMap t.rule?
  opcodeOfPass' (n : Nat) : Nat :=
    if n == 0 then CTO_Correct else if n == 1 then CTO_Context else if n == 2 then CTO_Pass2
    else if n == 3 then CTO_Pass3 else CTO_Pass4

/-! ### rule selection: the first rule of the chain whose test succeeds -/

inductive Sel where
  | unsupported
  | none
  | rule (r : Rule) (m : Match) (ic : Nat)
  deriving Repr, DecidableEq

/-- opcode a rule of the chain of pass `n` must have (`findBackPassRule` filters; the forward chains
    hold nothing else) -/
def opcodeOfPass (n : Nat) : Nat :=
  if n == 0 then CTO_Correct else if n == 1 then CTO_Context else if n == 2 then CTO_Pass2
  else if n == 3 then CTO_Pass3 else CTO_Pass4

def select (c : Ctx) (back : Bool) (pass : Nat) (rules : List Rule) (input : List Nat) (pos : Int) : Sel :=
  match rules with
  | [] => .none
  | r :: rest =>
    if back && r.opcode != opcodeOfPass pass then select c back pass rest input pos
    else
      match (if back then backTest else fwdTest) c r.dots input pos (r.dots.length + 1) pos 0 (-1) (-1) false with
      | .unsupported => .unsupported
      | .ok m ic => .rule r m ic
      | .fail => select c back pass rest input pos

/-! ### the stage scanners -/

structure StageOut where
  out : List Nat
  map : List Int
  realInlen : Nat
  applied : List Nat := []      -- indices of the applied rules, in order
  deriving Repr, DecidableEq

inductive StageRes where
  | unsupported
  | fuel                        -- the iteration bound was hit (never, see LouProofs/C06Pass)
  | done (o : StageOut)
  deriving Repr, DecidableEq

def isSpaceDots (t : Table) (d : Nat) : Bool := (t.getDots d).attrs &&& CTC_Space != 0

/-- `while (checkDotsAttr(input[pos], CTC_Space)) if (++pos == length) break;` -/
def skipSpaces (t : Table) (input : List Nat) : Nat → Nat → Nat
  | 0, pos => pos
  | fuel + 1, pos =>
    if pos < input.length ∧ isSpaceDots t (input[pos]?.getD 0) then skipSpaces t input fuel (pos + 1) else pos

/-- forward stage.  `pass = 0`: makeCorrections (no blank skipping at a failure); 2..4: translatePass -/
def fwdLoop (t : Table) (pass : Nat) (rules : List Rule) (input : List Nat) (max : Nat) :
    Nat → Int → Bool → Acc → List Nat → List Nat → StageRes
  | 0, _, _, _, _, _ => .fuel
  | fuel + 1, pos, posInc, a, applied, vars =>
    let finish (p : Int) (a : Acc) : StageRes :=
      let p' := if pass == 0 then p.toNat else skipSpaces t input input.length p.toNat
      .done { out := a.out, map := a.map, realInlen := p', applied := applied }
    if pos ≥ input.length then .done { out := a.out, map := a.map, realInlen := pos.toNat, applied := applied }
    else
      let sel := if posInc then select ⟨t, pass != 0, vars⟩ false pass rules input pos else Sel.none
      match sel with
      | .unsupported => .unsupported
      | .none =>
        if a.out.length + 1 > max then finish pos a
        else fwdLoop t pass rules input max fuel (pos + 1) true
              { out := a.out ++ [elem input pos], map := a.map ++ [pos] } applied vars
      | .rule r m ic =>
        match fwdAction t r.dots input m ic max a vars with
        | .unsupported => .unsupported
        | .fail a' _ => finish pos a'
        | .ok a' newPos vars' => fwdLoop t pass rules input max fuel newPos (newPos != pos) a' (applied ++ [r.idx]) vars'

def rulesOf (t : Table) (chain : List Nat) : List Rule := chain.filterMap t.rule?

def fwdStage (t : Table) (pass : Nat) (input : List Nat) (max : Nat) : StageRes :=
  fwdLoop t pass (rulesOf t (t.forPassChain pass)) input max (2 * input.length + 2) 0 true ⟨[], []⟩ [] (List.replicate NUMVAR 0)

/-- backward stage; the map has one entry per input position, unset entries keep `unset` -/
def unset : Int := -7777

def backLoop (t : Table) (pass : Nat) (rules : List Rule) (input : List Nat) (max : Nat) :
    Nat → Int → Bool → Acc → List Nat → List Nat → StageRes
  | 0, _, _, _, _, _ => .fuel
  | fuel + 1, pos, posInc, a, applied, vars =>
    let finish (p : Int) (a : Acc) : StageRes :=
      if pass == 0 then .done { out := a.out, map := a.map, realInlen := p.toNat, applied := applied }
      else
        let p' := skipSpaces t input input.length p.toNat
        .done { out := a.out, map := setRange a.map p p' a.out.length, realInlen := p', applied := applied }
    if pos ≥ input.length then .done { out := a.out, map := a.map, realInlen := pos.toNat, applied := applied }
    else
      let sel := if posInc then select ⟨t, pass != 0, vars⟩ true pass rules input pos else Sel.none
      match sel with
      | .unsupported => .unsupported
      | .none =>
        if a.out.length + 1 > max then finish pos a
        else backLoop t pass rules input max fuel (pos + 1) true
              { out := a.out ++ [elem input pos], map := setRange a.map pos (pos + 1) a.out.length } applied vars
      | .rule r m ic =>
        match backAction r.dots input m ic max a vars with
        | .unsupported => .unsupported
        | .fail a' _ => finish pos a'
        | .ok a' newPos vars' => backLoop t pass rules input max fuel newPos (newPos > pos) a' (applied ++ [r.idx]) vars'

def backStage (t : Table) (pass : Nat) (input : List Nat) (max : Nat) : StageRes :=
  backLoop t pass (rulesOf t (t.backPassChain pass)) input max (2 * input.length + 2) 0 true
    ⟨[], List.replicate input.length unset⟩ [] (List.replicate NUMVAR 0)

end Lou.Pass
