/-
  Proto.lean — line protocol of the model driver (`loumodel`).  One input line,
  one output line.  An operation the model does not cover answers `UNSUPPORTED`,
  a malformed line `BADOP` (never a default value).
-/
import LouModel.Basic
import LouModel.Driver

namespace Lou.Proto
open Lou Lou.Drv

def parsePairs (s : String) : Option (List (Nat × Nat)) :=
  if s == "." then some [] else
  (s.splitOn ",").mapM fun t =>
    match t.splitOn ":" with
    | [a, b] => do
      let x ← hexNat? a.toList
      let y ← hexNat? b.toList
      pure (x, y)
    | _ => none

def lookupFn (ps : List (Nat × Nat)) (dflt : Nat) : Nat → Nat := fun k =>
  match ps.find? (fun p => p.1 == k) with
  | some p => p.2
  | none => dflt

def parsePasses : List String → Option (List PassOut)
  | [] => some []
  | o :: m :: r :: cp :: cs :: rest => do
    let out ← parseWide o
    let map ← parseInts m
    let real ← r.toNat?
    let cpos ← cp.toInt?
    let cstat ← cs.toInt?
    let tl ← parsePasses rest
    pure ({ out := out, map := map, realInlen := real, cpos := cpos, cstat := cstat, ok := true } :: tl)
  | _ => none

def showOptInts : Option (List Int) → String
  | none => "-"
  | some l => showInts l

def showResult (r : Result) (fwdDir : Bool) : String :=
  let tf := match r.typeform with
    | some t => if fwdDir then showWide t else "-"
    | none => "-"
  s!"R {r.ret} {r.inlen} {r.outlen} {showWide r.outbuf} tf={tf} op={showOptInts r.outputPos} ip={showOptInts r.inputPos} cur={match r.cursor with | some c => toString c | none => "-"}"

/-- `EngineOK` clauses evaluated on one recorded pass (see LouProofs/Contract.lean);
    forward: E1 out ≤ max, E2 |map| = |out|, E3 realInlen ≤ |in|, E4 −1 ≤ map[k] ≤ |in|.
    Returns the names of the failing clauses. -/
def failedFwd (pin : PassIn) (po : PassOut) : List String :=
  (if po.out.length ≤ pin.maxlen then [] else ["E1"]) ++
  (if po.map.length == po.out.length then [] else ["E2"]) ++
  (if po.realInlen ≤ pin.chars.length then [] else ["E3"]) ++
  (if po.map.all (fun p => -1 ≤ p && p ≤ (pin.chars.length : Int)) then [] else ["E4"])

/-- backward: E1, E2' |map| = realInlen, E3, E4' 0 ≤ map[i] ≤ |out| -/
def failedBack (pin : PassIn) (po : PassOut) : List String :=
  (if po.out.length ≤ pin.maxlen then [] else ["E1"]) ++
  (if po.map.length == po.realInlen then [] else ["E2"]) ++
  (if po.realInlen ≤ pin.chars.length then [] else ["E3"]) ++
  (if po.map.all (fun p => 0 ≤ p && p ≤ (po.out.length : Int)) then [] else ["E4"])

def passOKFwd (pin : PassIn) (po : PassOut) : Bool := (failedFwd pin po).isEmpty
def passOKBack (pin : PassIn) (po : PassOut) : Bool := (failedBack pin po).isEmpty

def nonNeg (po : PassOut) : Bool := po.map.all (fun p => 0 ≤ p)

def historyFwd (t : TableInfo) (e : Engine) (a : Args) : List (PassIn × PassOut) :=
  (fwdRun t e a).hist

def historyBack (t : TableInfo) (dotsFor : Nat → Nat) (e : Engine) (a : Args) : List (PassIn × PassOut) :=
  (backRun t dotsFor e a).hist

def boolStr (b : Bool) : String := if b then "1" else "0"

/-- TRACE F|B corr numPasses mode outcap cursor argmask in tf disp npass {out map real cpos cstat}* -/
def handleTrace (toks : List String) : String :=
  match toks with
  | dir :: corr :: np :: mode :: outcap :: cursor :: argmask :: inh :: tfh :: disp :: npass :: rest =>
    let r : Option String := do
      let corr ← corr.toNat?
      let np ← np.toNat?
      let mode ← mode.toNat?
      let outcap ← outcap.toNat?
      let argmask ← argmask.toNat?
      let inb ← parseWide inh
      let tf ← if tfh == "-" then some [] else parseWide tfh
      let pairs ← parsePairs disp
      let npass ← npass.toNat?
      let recs ← parsePasses rest
      if recs.length != npass then none else
      let cur : Option Int ← (if cursor == "-" then some none else cursor.toInt?.map some)
      let a : Args := {
        inbuf := inb, outlen := outcap, mode := mode,
        typeform := if hasBit argmask 1 then some tf else none,
        spacing := if hasBit argmask 2 then some [] else none,
        wantOutputPos := hasBit argmask 4, wantInputPos := hasBit argmask 8,
        cursor := if hasBit argmask 16 then cur else none }
      let t : TableInfo := { corrections := corr != 0, numPasses := np }
      let e := replayEngine recs
      if dir == "F" then
        let res := fwd (some t) (lookupFn pairs 0) e a
        let h := historyFwd t e a
        let ins := String.join (h.map fun (pi, _) => s!" | I {pi.passNo} {showWide pi.chars} {pi.maxlen}")
        let eok := h.all (fun (pi, po) => passOKFwd pi po)
        let nn := h.all (fun (_, po) => nonNeg po)
        let fl := String.join ((h.map fun (pi, po) => failedFwd pi po).flatten.eraseDups)
        pure (showResult res true ++ ins ++ s!" | N {h.length} EOK={boolStr eok} NN={boolStr nn} F={fl}")
      else if dir == "B" then
        let res := back (some t) (lookupFn pairs 0) e a
        let h := historyBack t (lookupFn pairs 0) e a
        let ins := String.join (h.map fun (pi, _) => s!" | I {pi.passNo} {showWide pi.chars} {pi.maxlen}")
        let eok := h.all (fun (pi, po) => passOKBack pi po)
        let fl := String.join ((h.map fun (pi, po) => failedBack pi po).flatten.eraseDups)
        pure (showResult res false ++ ins ++ s!" | N {h.length} EOK={boolStr eok} NN=1 F={fl}")
      else none
    r.getD "BADOP"
  | _ => "BADOP"

/-- handler of this module: `none` = not my operation -/
def handle? (toks : List String) : Option String :=
  match toks with
  | "TRACE" :: rest => some (handleTrace rest)
  | _ => none

end Lou.Proto
