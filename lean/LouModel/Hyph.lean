/-
  Hyph.lean — hyphenation (property C17).

  * `specDigits` / `specText`   the property, written as it is stated: no automaton,
                                only "longest suffix of the text read so far that is a
                                prefix of some pattern".
  * `compileDict`               compileHyphenation (compileTranslationTable.c:2540-2651)
                                with its helpers hyphenHashLookup/Insert, hyphenGetNewState,
                                hyphenAddTrans: states = prefixes in insertion order,
                                transitions appended, pattern strings without leading
                                zeros, fallback states, 32-bit state numbers.
  * `hyphenateWalk`             hyphenateWord (lou_translateString.c:1456-1528): the walk
                                over ".word." with the fallback loop and the `limit` clamp.
  * `louHyphenate…`             lou_hyphenate (lou_translateString.c:4074-4156): text mode
                                over a character-class oracle, braille mode as the mapping
                                step over a given back-translation result.
  * `parseDict`                 the lexer path of a dictionary file: getAChar (ASCII-8),
                                _lou_getALine, getToken, parseChars, the digit/letter split.

  Core Lean only.  Characters, digits and state numbers are `Nat`.
-/
import LouModel.Basic

namespace Lou.Hyph

/-! ## patterns -/

/-- one dictionary pattern: the digit before the first letter, then every letter with the
    digit that follows it (`a1bc3` = `⟨0, [(a,1),(b,0),(c,3)]⟩`).  Digits are values 0–9. -/
structure Pat where
  d0 : Nat
  rest : List (Nat × Nat)
deriving DecidableEq, Repr

def Pat.letters (p : Pat) : List Nat := p.rest.map (·.1)
def Pat.digits (p : Pat) : List Nat := p.d0 :: p.rest.map (·.2)

def DOT : Nat := 46

/-- compileHyphenation 2577-2589: a digit overwrites the digit slot in front of the next
    letter, any other character is a letter and opens a new slot `'0'`. -/
def splitAux : List Nat → Nat → List (Nat × Nat) → Pat
  -- remaining input, d0, finished (letter, digit) pairs reversed (head = the open slot)
  | [], d0, acc => ⟨d0, acc.reverse⟩
  | c :: cs, d0, acc =>
    if 48 ≤ c ∧ c ≤ 57 then
      match acc with
      | [] => splitAux cs (c - 48) []
      | (l, _) :: acc' => splitAux cs d0 ((l, c - 48) :: acc')
    else splitAux cs d0 ((c, 0) :: acc)

def splitPattern (hyph : List Nat) : Pat := splitAux hyph 0 []

/-- `for (i = 0; pattern[i] == '0'; i++)` + the copy of `&pattern[i]` (2590-2603) -/
def stripZeros (ds : List Nat) : List Nat := ds.dropWhile (· == 0)

/-! ## the property, as stated -/

/-- `s` is a prefix of some dictionary pattern's letter string -/
def isPatPrefix (pats : List Pat) (s : List Nat) : Bool :=
  pats.any (fun p => s.isPrefixOf p.letters)

/-- the digit string of the pattern with letters `s`; a letter string that occurs on
    several lines keeps the digits of its last line (the later line replaces the earlier) -/
def digitsOf (pats : List Pat) (s : List Nat) : Option (List Nat) :=
  (pats.reverse.find? (fun p => p.letters == s)).map (·.digits)

/-- the longest suffix of `u` that satisfies `pred`: the whole of `u`, else the same for `u`
    without its first character, down to the empty string -/
def longestSuffix (pred : List Nat → Bool) : List Nat → Option (List Nat)
  | [] => if pred [] then some [] else none
  | c :: t => if pred (c :: t) then some (c :: t) else longestSuffix pred t

/-- the digit contributed to word position `q` (the point in front of letter `q`) when the
    `i`-th character of the dot-delimited text `prep` has just been read: the longest suffix
    `s` of the text read so far that is a prefix of some pattern, if it is itself a pattern,
    lies on `prep[i+1-|s| .. i]`; its digit `m` stands in front of `prep[i+1-|s|+m]`, which is
    letter `i-|s|+m` of the word. -/
def contrib (pats : List Pat) (prep : List Nat) (i q : Nat) : Nat :=
  match longestSuffix (isPatPrefix pats) (prep.take (i + 1)) with
  | none => 0
  | some s =>
    match digitsOf pats s with
    | none => 0
    | some ds => if i ≤ q + s.length then ds.getD (q + s.length - i) 0 else 0

/-- the text the patterns are matched against: `.` + lower-cased word + `.` -/
def prepWord (lower : Nat → Nat) (w : List Nat) : List Nat := DOT :: (w.map lower ++ [DOT])

/-- largest digit contributed at position `q` over the whole walk -/
def specDigitAt (pats : List Pat) (prep : List Nat) (q : Nat) : Nat :=
  (List.range prep.length).foldl (fun m i => max m (contrib pats prep i q)) 0

/-- SPEC: the largest digit at every position of the word -/
def specDigits (pats : List Pat) (lower : Nat → Nat) (w : List Nat) : List Nat :=
  (List.range w.length).map (specDigitAt pats (prepWord lower w))

/-! ## compileHyphenation -/

/-- `#define DEFAULTSTATE 0xffffffff`: "not found" of hyphenHashLookup and the fallback of state 0 -/
def DEFAULTSTATE : Nat := 0xffffffff

/-- `HyphenationState` (internal.h:388-394); `pat = none` ⇔ `hyphenPattern == 0`;
    `trans` in array order (`numTrans = trans.length`) -/
structure HState where
  pat : Option (List Nat) := none
  fallback : Nat := DEFAULTSTATE
  trans : List (Nat × Nat) := []
deriving DecidableEq, Repr

abbrev Dict := Array HState

/-- the compiler's working state: `dict.states` (`numStates = states.size`) and the hash
    table.  The table is kept as the list of its entries, newest first: a lookup in the C
    walks one bucket newest-first comparing whole keys, so for equal keys it returns the
    newest entry, exactly as `List.lookup` does; buckets only speed it up. -/
structure CState where
  states : Array HState
  hash : List (List Nat × Nat)

/-- hyphenHashLookup (2494-2507): the empty key is state 0, a missing key is DEFAULTSTATE -/
def lookupH (hash : List (List Nat × Nat)) (key : List Nat) : Nat :=
  if key.isEmpty then 0 else (hash.lookup key).getD DEFAULTSTATE

/-- hyphenGetNewState (2509-2522) -/
def newState (cs : CState) (key : List Nat) : CState × Nat :=
  (⟨cs.states.push {}, (key, cs.states.size) :: cs.hash⟩, cs.states.size)

def modifyAt (a : Array HState) (i : Nat) (f : HState → HState) : Array HState :=
  if h : i < a.size then a.set i (f a[i]) else a

/-- hyphenAddTrans (2526-2538); `newState` is an `unsigned int` field -/
def addTrans (cs : CState) (s1 s2 ch : Nat) : CState :=
  { cs with states := modifyAt cs.states s1 (fun st => { st with trans := st.trans ++ [(ch, s2 % 4294967296)] }) }

def setPat (cs : CState) (s : Nat) (p : List Nat) : CState :=
  { cs with states := modifyAt cs.states s (fun st => { st with pat := some p }) }

/-- "now, put in the prefix transitions" (2605-2614).  `rw` is the current `word` reversed,
    `last` the state of `word`, which was just created.  The `[]` case is not reachable
    (the empty word is always found). -/
def linkUp (cs : CState) : List Nat → Nat → CState
  | [], _ => cs
  | ch :: rest, last =>
    let found := lookupH cs.hash rest.reverse
    if found ≠ DEFAULTSTATE then addTrans cs found last ch
    else
      let (cs', n) := newState cs rest.reverse
      linkUp (addTrans cs' n last ch) rest n

/-- one dictionary line (2577-2614) -/
def addPattern (cs : CState) (p : Pat) : CState :=
  let w := p.letters
  let s := stripZeros p.digits
  let found := lookupH cs.hash w
  if found ≠ DEFAULTSTATE then setPat cs found s
  else
    let (cs1, n) := newState cs w
    linkUp (setPat cs1 n s) w.reverse n

/-- the inner loops of "put in the fallback states" (2619-2625): `word` = key[j..] for
    j = 1, 2, … until a lookup succeeds; called with `key.tail` -/
def fbSearch (hash : List (List Nat × Nat)) : List Nat → Nat
  | [] => lookupH hash []
  | c :: cs =>
    let s := lookupH hash (c :: cs)
    if s ≠ DEFAULTSTATE then s else fbSearch hash cs

/-- 2617-2628.  The C visits the entries bucket by bucket, here they are visited in list
    order; every entry writes only the slot of its own state, so the order is immaterial.
    `fallbackState` is an `unsigned int` field. -/
def setFallbacks (cs : CState) : Array HState :=
  cs.hash.foldl (fun st e =>
    if e.2 ≠ 0 then modifyAt st e.2 (fun s => { s with fallback := fbSearch cs.hash e.1.tail % 4294967296 }) else st)
    cs.states

def initC : CState := ⟨#[{}], []⟩

def compileC (pats : List Pat) : CState := pats.foldl addPattern initC

/-- the automaton compileHyphenation leaves in the table -/
def compileDict (pats : List Pat) : Dict := setFallbacks (compileC pats)

/-! ## hyphenateWord -/

inductive HFault where
  | negOffset   -- hyphens[patternOffset + k] with a negative index
  | badState    -- statesArray[stateNum] beyond the array
  | fuel        -- the fallback loop did not come to an end
deriving DecidableEq, Repr

structure SeekR where
  next : Option Nat      -- `some s`: stateFound with stateNum = s; `none`: nextLetter (state := 0)
  ticks : Nat
  fault : Option HFault

/-- the `while (1)` of hyphenateWord (1486-1507) -/
def seek (d : Dict) (ch : Nat) : Nat → Nat → Nat → SeekR
  | 0, _, t => ⟨none, t, some .fuel⟩
  | f + 1, st, t =>
    if st = DEFAULTSTATE then ⟨none, t + 1, none⟩
    else
      match d[st]? with
      | none => ⟨none, t + 1, some .badState⟩
      | some s =>
        match s.trans.find? (fun e => e.1 == ch) with
        | some e => ⟨some e.2, t + 1, none⟩
        | none => seek d ch f s.fallback (t + 1)

/-- `if (hyphens[q] < d) hyphens[q] = d` -/
def maxAt : List Nat → Nat → Nat → List Nat
  | [], _, _ => []
  | x :: xs, 0, d => (if x < d then d else x) :: xs
  | x :: xs, q + 1, d => x :: maxAt xs q d

/-- 1515-1531: patternOffset, the `limit` clamp and the max loop, which starts at
    `k = (patternOffset < 0) ? -patternOffset : 0` (a digit in front of a leading '.' has no
    position in the word).  Returns the new array and whether a negative index was touched
    (instrumentation: `applyPat_spec` shows it never is). -/
def applyPat (h : List Nat) (n i : Nat) (s : List Nat) : List Nat × Bool :=
  let L : Int := s.length
  let off : Int := (i : Int) + 1 - L
  let limit : Int := min L ((n : Int) - off)
  let k0 : Nat := if off < 0 then (-off).toNat else 0
  (List.range' k0 (limit.toNat - k0)).foldl (fun (acc : List Nat × Bool) (k : Nat) =>
    let idx : Int := off + (k : Int)
    if idx < 0 then (acc.1, true) else (maxAt acc.1 idx.toNat (s.getD k 0), acc.2)) (h, false)

structure Walk where
  hyphens : List Nat
  state : Nat
  ticks : Nat
  fault : Option HFault
deriving Repr

def orFault (a b : Option HFault) : Option HFault := match a with | some x => some x | none => b

/-- one iteration of `for (i = 0; i < wordSize + 2; i++)` (1484-1524).  Fuel of the inner loop:
    a state reached after `i` characters lies at depth ≤ `i` and every fallback goes to a
    strictly shorter prefix (`seek_spec`); `d.size + 2` covers any acyclic fallback chain. -/
def walkStep (d : Dict) (n : Nat) (w : Walk) (i ch : Nat) : Walk :=
  let r := seek d ch (max (i + 3) (d.size + 2)) w.state w.ticks
  match r.next with
  | none => { w with state := 0, ticks := r.ticks, fault := orFault w.fault r.fault }
  | some st =>
    match d[st]? with
    | none => { w with state := st, ticks := r.ticks, fault := orFault w.fault (some .badState) }
    | some s =>
      match s.pat with
      | none => { w with state := st, ticks := r.ticks, fault := orFault w.fault r.fault }
      | some p =>
        let (h, neg) := applyPat w.hyphens n i p
        { hyphens := h, state := st, ticks := r.ticks,
          fault := orFault w.fault (if neg then some .negOffset else none) }

def walkFrom (d : Dict) (n : Nat) : List Nat → Nat → Walk → Walk
  | [], _, w => w
  | ch :: rest, i, w => walkFrom d n rest (i + 1) (walkStep d n w i ch)

/-- hyphenateWord with everything observable: digits (as values; the C holds `'0' + d`),
    the final state, the number of iterations of the inner loop (hook site 6) and the first
    out-of-range access.  The digits are those of a run in which an out-of-range access is
    simply left out. -/
def hyphenateWalk (d : Dict) (lower : Nat → Nat) (w : List Nat) : Walk :=
  walkFrom d w.length (prepWord lower w) 0 ⟨List.replicate w.length 0, 0, 0, none⟩

def hyphenateWord (d : Dict) (lower : Nat → Nat) (w : List Nat) : List Nat :=
  (hyphenateWalk d lower w).hyphens

/-- the bounds-instrumented view of the same run -/
def hyphenateWordX (d : Dict) (lower : Nat → Nat) (w : List Nat) : Except HFault (List Nat) :=
  match (hyphenateWalk d lower w).fault with
  | some f => .error f
  | none => .ok (hyphenateWalk d lower w).hyphens

/-! ## lou_hyphenate -/

structure Classes where
  isLetter : Nat → Bool     -- getChar(c)->attributes & CTC_Letter
  lower : Nat → Nat         -- toLowercase(table, getChar(c))
  isHyphen : Nat → Bool     -- isHyphen(table, c)

/-- the caller's `hyphens` array seen through its first `data.length` cells, plus a flag
    raised by any write beyond them -/
structure TBuf where
  data : List Nat
  oob : Bool
deriving Repr, DecidableEq

def TBuf.write (b : TBuf) (i v : Nat) : TBuf :=
  if i < b.data.length then { b with data := b.data.set i v } else { b with oob := true }

def TBuf.writeRange (b : TBuf) (start : Nat) : List Nat → TBuf
  | [] => b
  | v :: vs => (b.write start v).writeRange (start + 1) vs

def HYPHSTRING : Nat := 100
def MAXSTRING : Nat := 2048

/-- first index ≥ `k` whose character satisfies `p`, else the length -/
def findFrom (p : Nat → Bool) (text : List Nat) : Nat → Nat → Nat
  | 0, k => k
  | fuel + 1, k => if k < text.length ∧ !p (text.getD k 0) then findFrom p text fuel (k + 1) else k

/-- "normalize to '0', '1' or '2'" inner loop (4129-4133) -/
def normalise (b : TBuf) : Nat → Nat → TBuf
  | 0, _ => b
  | cnt + 1, k => normalise (b.write k (if (b.data.getD k 0) % 2 = 1 then 49 else 48)) cnt (k + 1)

/-- the word-run loop (4110-4137).  `none` = `return 0`. -/
def wordLoop (d : Dict) (cl : Classes) (text : List Nat) : Nat → Nat → TBuf → Option TBuf
  | 0, _, b => some b
  | fuel + 1, ws0, b =>
    let n := text.length
    let ws := findFrom cl.isLetter text n ws0
    if ws ≥ n then some b else
    let we := findFrom (fun c => !cl.isLetter c) text n (ws + 1)
    let word := (text.drop ws).take (we - ws)
    if word.length + 3 > MAXSTRING then none else
    let hy := hyphenateWord d cl.lower word
    let b := (b.writeRange ws (hy.map (· + 48))).write we 0
    let b := b.write ws
      (if ws ≥ 2 ∧ cl.isHyphen (text.getD (ws - 1) 0) ∧ cl.isLetter (text.getD (ws - 2) 0) then 50 else 48)
    let b := normalise b (we - (ws + 1)) (ws + 1)
    if we = n then some b else wordLoop d cl text fuel (we + 1) (b.write we 48)

/-- 4105-4107 and the loop, on a text of `text.length` characters: the `textLen + 1` cells of
    `textHyphens` -/
def textHyphens (d : Dict) (cl : Classes) (text : List Nat) (init : List Nat) : Option TBuf :=
  let n := text.length
  let b : TBuf := ⟨init, false⟩
  let b := (b.writeRange 0 (List.replicate n 48)).write n 0
  wordLoop d cl text (n + 1) 0 b

/-- lou_hyphenate, mode 0.  `dict = none` ⇔ no table or `hyphenStatesArray == 0`.
    `init` is what the caller's array held (`inlen + 1` cells are observed).
    Result: return value and the array afterwards. -/
def louHyphenateText (dict : Option Dict) (cl : Classes) (inbuf : List Nat) (init : List Nat) : Nat × TBuf :=
  match dict with
  | none => (0, ⟨init, false⟩)
  | some d =>
    if inbuf.length ≥ HYPHSTRING then (0, ⟨init, false⟩) else
    match textHyphens d cl inbuf init with
    | none => (0, ⟨init, false⟩)   -- not reachable below HYPHSTRING; the C leaves partial writes
    | some b => (1, b)

/-- "map hyphen positions if the input was braille" (4140-4151) -/
def mapLoop (inlen : Nat) : List (Nat × Int) → Int → TBuf → TBuf
  | [], _, b => b
  | (h, bp) :: rest, prev, b =>
    if bp > (inlen : Int) ∨ bp < 0 then b
    else if bp > prev then mapLoop inlen rest bp (b.write bp.toNat h) else mapLoop inlen rest prev b

/-- lou_hyphenate, mode ≠ 0, after the call of lou_backTranslate: `bt = none` when that call
    failed, else the text (`textLen` characters) and `inputPos[0..textLen)`. -/
def louHyphenateBraille (dict : Option Dict) (cl : Classes) (inlen : Nat)
    (bt : Option (List Nat × List Int)) (init : List Nat) : Nat × TBuf :=
  match dict with
  | none => (0, ⟨init, false⟩)
  | some d =>
    if inlen ≥ HYPHSTRING then (0, ⟨init, false⟩) else
    match bt with
    | none => (0, ⟨init, false⟩)
    | some (text, inputPos) =>
      match textHyphens d cl text (List.replicate (text.length + 1) 0) with
      | none => (0, ⟨init, false⟩)
      | some th =>
        let b : TBuf := ⟨init, false⟩
        let b := (b.writeRange 0 (List.replicate inlen 48)).write inlen 0
        (1, mapLoop inlen (th.data.zip inputPos) (-1) b)

/-! ## the property for lou_hyphenate in text mode, as stated -/

/-- start of the run of letters that contains position `k` (itself a letter) -/
def runStartAt (cl : Classes) (text : List Nat) : Nat → Nat
  | 0 => 0
  | k + 1 => if cl.isLetter (text.getD k 0) then runStartAt cl text k else k + 1

/-- position `k` of the result: `'0'` for a non-letter; for the first letter of a run `'2'`
    after a hyphen character between letters, else `'0'`; for any other letter `'1'` exactly
    where the largest digit contributed at that point of its run is odd -/
def specChar (pats : List Pat) (cl : Classes) (text : List Nat) (k : Nat) : Nat :=
  if !cl.isLetter (text.getD k 0) then 48 else
  let a := runStartAt cl text k
  if a = k then
    if k ≥ 2 ∧ cl.isHyphen (text.getD (k - 1) 0) ∧ cl.isLetter (text.getD (k - 2) 0) then 50 else 48
  else
    let b := findFrom (fun c => !cl.isLetter c) text text.length k
    let run := (text.drop a).take (b - a)
    if specDigitAt pats (prepWord cl.lower run) (k - a) % 2 = 1 then 49 else 48

/-- SPEC of text mode: `inlen` characters and the NUL -/
def specText (pats : List Pat) (cl : Classes) (text : List Nat) : List Nat :=
  (List.range text.length).map (specChar pats cl text) ++ [0]

/-! ## the dictionary file -/

/-- getAChar for an "ASCII 8" file + _lou_getALine (289-358): lines are cut at LF, CR is
    dropped, a line holds at most MAXSTRING-1 characters (the character that arrives when the
    line is full is consumed and lost), a last line without LF counts when it is not empty. -/
def getLines : List Nat → List Nat → List (List Nat) → List (List Nat)
  -- remaining bytes, current line reversed, finished lines reversed
  | [], cur, acc => (if cur.isEmpty then acc else cur.reverse :: acc).reverse
  | c :: cs, cur, acc =>
    if c = 13 then getLines cs cur acc
    else if c = 10 ∨ cur.length ≥ MAXSTRING - 1 then getLines cs [] (cur.reverse :: acc)
    else getLines cs (c :: cur) acc

/-- getToken (371-392), all tokens of a line -/
def tokensOf : List Nat → List Nat → List (List Nat) → List (List Nat)
  | [], cur, acc => (if cur.isEmpty then acc else cur.reverse :: acc).reverse
  | c :: cs, cur, acc =>
    if c ≤ 32 then tokensOf cs [] (if cur.isEmpty then acc else cur.reverse :: acc)
    else tokensOf cs (c :: cur) acc

def hexDig (d : Nat) : Option Nat :=
  if 48 ≤ d ∧ d ≤ 57 then some (d - 48)
  else if 97 ≤ d ∧ d ≤ 102 then some (d - 97 + 10)
  else if 65 ≤ d ∧ d ≤ 70 then some (d - 65 + 10)
  else none

/-- hexValue (1258-1277) for 4 digits; `none` = compileError -/
def hexValue4 (tok : Array Nat) (at_ : Nat) : Option Nat := do
  let a ← hexDig (tok.getD at_ 0)
  let b ← hexDig (tok.getD (at_ + 1) 0)
  let c ← hexDig (tok.getD (at_ + 2) 0)
  let e ← hexDig (tok.getD (at_ + 3) 0)
  pure (a * 4096 + b * 256 + c * 16 + e)

def first0Bit : List Nat := [0x80, 0xC0, 0xE0, 0xF0, 0xF8, 0xFC, 0xFE]

/-- `for (numBytes = MAXBYTES - 1; numBytes > 0; numBytes--) if (ch >= first0Bit[numBytes]) break;` -/
def numBytesOf (ch : Nat) : Nat :=
  if ch ≥ 0xFE then 6 else if ch ≥ 0xFC then 5 else if ch ≥ 0xF8 then 4 else if ch ≥ 0xF0 then 3
  else if ch ≥ 0xE0 then 2 else if ch ≥ 0xC0 then 1 else 0

/-- the continuation-byte loop of parseChars (1379-1393), including the
    "invalid UTF-8. Assuming Latin-1" branch whose `continue` stays in this loop -/
def utfLoop (tok : Array Nat) (n lastIn : Nat) : Nat → Nat → Nat → Array Nat → Option (Nat × Nat × Array Nat)
  | 0, i, utf, out => some (i, utf, out)
  | k + 1, i, utf, out =>
    if i ≥ MAXSTRING - 1 ∨ i ≥ n then some (i, utf, out)
    else if out.size ≥ MAXSTRING - 1 then none
    else
      let c := tok.getD i 0
      if c < 128 ∨ (c &&& 0x40) ≠ 0 then utfLoop tok n lastIn k (lastIn + 1) utf (out.push (tok.getD lastIn 0))
      else utfLoop tok n lastIn k (i + 1) (((utf <<< 6) + (c &&& 0x3f)) % 4294967296) out

/-- parseChars (1283-1408) of a 16-bit build; `none` where the C reports a compile error -/
def parseCharsLoop (tok : Array Nat) (n : Nat) : Nat → Nat → Array Nat → Option (List Nat)
  | 0, _, out => some out.toList
  | fuel + 1, i, out =>
    if i ≥ n then some out.toList else
    let ch := tok.getD i 0 &&& 0xff
    let i := i + 1
    if ch < 128 then
      if ch = 92 then
        let e := tok.getD i 0      -- token->chars[length] is the terminating 0
        let r : Option (Nat × Nat) :=
          if e = 92 then some (92, i)
          else if e = 101 then some (0x1b, i)
          else if e = 102 then some (12, i)
          else if e = 110 then some (10, i)
          else if e = 114 then some (13, i)
          else if e = 115 then some (32, i)
          else if e = 116 then some (9, i)
          else if e = 118 then some (11, i)
          else if e = 119 then some (0xffff, i)
          else if e = 34 then some (28, i)
          else if e = 88 ∨ e = 120 then
            if n - i > 4 then (hexValue4 tok (i + 1)).map (fun v => (v, i + 4)) else some (e, i)
          else none
        match r with
        | none => none
        | some (v, i) =>
          if out.size ≥ MAXSTRING - 1 then none
          else parseCharsLoop tok n fuel (i + 1) (out.push (v % 65536))
      else
        if out.size ≥ MAXSTRING - 1 then none
        else parseCharsLoop tok n fuel i (out.push ch)
    else
      let nb := numBytesOf ch
      let utf := ch &&& (0xff - first0Bit.getD nb 0)
      match utfLoop tok n i nb i utf out with
      | none => none
      | some (i, utf, out) =>
        if out.size ≥ MAXSTRING - 1 then none
        else if utf > 0xffff then none
        else parseCharsLoop tok n fuel i (out.push utf)

def parseChars (tok : List Nat) : Option (List Nat) :=
  parseCharsLoop tok.toArray tok.length (tok.length + 1) 0 #[]

def startsWith (pre tok : List Nat) : Bool := pre.isPrefixOf tok

/-- the tokens compileHyphenation looks at: the second token of line 1 (the first one is the
    charset name that made compileRule call compileHyphenation) and the first token of every
    further line (2566-2573, 2615) -/
def dictTokens (lines : List (List Nat)) : Option (Bool × List (List Nat)) :=
  match lines with
  | [] => none
  | l1 :: more =>
    match tokensOf l1 [] [] with
    | [] => none
    | first :: t1 =>
      if startsWith [73, 83, 79] first ∨ startsWith [85, 84, 70, 45, 56] first then
        some (first.head? == some 73,
              t1.take 1 ++ more.filterMap (fun l => (tokensOf l [] []).head?))
      else none

/-- bytes of a dictionary file → patterns in file order.  `none`: not recognised as a
    dictionary (compileRule would treat the lines as table rules), an encoding other than
    ASCII-8, or a line on which the C reports a compile error (the table then fails). -/
def parseDict (bytes : List Nat) : Option (List Pat) :=
  match bytes with
  | a :: b :: _ =>
    if a < 128 ∧ b < 128 then
      match dictTokens (getLines bytes [] []) with
      | none => none
      | some (iso, toks) =>
        (toks.mapM (fun t => if iso then some t else parseChars t)).map fun hs =>
          (hs.filter (fun h => !(h.isEmpty || h.head? == some 35 || h.head? == some 37 || h.head? == some 60))).map splitPattern
    else none
  | _ => none

end Lou.Hyph
