/-
  Cache.lean — the table cache of liblouis as a state machine over call histories.

  Transcribes (compileTranslationTable.c, line numbers of the tree under test):
    getTable                         5127-5220   two chains, lookup by length + memcmp,
                                                 move-to-front, compile only what is missing,
                                                 insertion only after a successful compileTable
    _lou_getTable / lou_getTable /
    _lou_getTranslationTable /
    _lou_getDisplayTable             5088-5125   getTable (+ finalizeTable on the translation table)
    lou_compileString                5442-5450   getTable(list, list) + compileString (refused on a
                                                 finalized table, 4584-4587)
    allocateSpaceInTranslationTable   428-463    realloc + "update references to the old table"
    compileTable                     4970-5056   allocate, compile, free both tables on failure
    lou_free                         5376-5429
    initStringBufferPool             lou_translateString.c:67-78, lou_backTranslateString.c:61-72
                                                 (one malloc'ed header each, never freed)
  The scratch buffers are the state machine of `Alloc.lean`.

  What is NOT modelled is what a compilation *produces*: whether `compileTable` succeeds for the
  lists it is asked for is a parameter (`Oracle.compiles`: a function of the list names and the
  file system only — `compileTable` resets `errorCount/warningCount/fileCount` itself and reads
  nothing of the cache), as are the outcome of `finalizeTable` (`Oracle.finalizes`), the outcome
  of compiling one rule string and whether the table had to move when it grew (`Op.compileString`).

  Ghost state (not in the C program): block identities (`Core.next`), the allocation ledger (every
  malloc/free/realloc the modelled code performs, in order) and the event log.
-/
import LouModel.Basic
import LouModel.Alloc

namespace Lou.Cache

/-- a table-list string: its bytes (no NUL) -/
abbrev Name := List Nat

/-- `TranslationTableChainEntry` / `DisplayTableChainEntry` -/
structure Entry where
  id : Nat            -- ghost: which malloc produced the entry
  len : Nat           -- tableListLength
  bytes : Name        -- tableList[0 .. tableListLength)
  table : Nat         -- the table pointer (ghost: which malloc/realloc produced the block)
  finalized : Bool    -- `table->finalized` (a field of the translation table header; the table is
                      -- referenced by exactly one entry, theorem `tables_distinct`); unused for display tables
  deriving Repr, DecidableEq

/-- `memcmp(a, b, n) == 0` -/
def memEq (a b : Name) (n : Nat) : Bool := a.take n == b.take n

/-- the test `len == entry->tableListLength && memcmp(entry->tableList, list, len) == 0` (5142, 5165) -/
def Entry.hit (e : Entry) (n : Name) : Bool := n.length == e.len && memEq e.bytes n n.length

/-- the `while (currentEntry != NULL)` walk with `prevEntry`: entries before the hit, the hit, the rest -/
def split (n : Name) : List Entry → Option (List Entry × Entry × List Entry)
  | [] => none
  | e :: es =>
    if e.hit n then some ([], e, es) else
    match split n es with
    | none => none
    | some (pre, h, suf) => some (e :: pre, h, suf)

/-- lookup with move-to-front (5139-5156): `prevEntry->next = current->next; current->next = chain;
    chain = current` (nothing moves when the hit is the head) -/
def lookup (chain : List Entry) (n : Name) : Option Entry × List Entry :=
  match split n chain with
  | none => (none, chain)
  | some (pre, h, suf) => (some h, h :: (pre ++ suf))

inductive Block where
  | trTable (a : Nat) | dispTable (a : Nat) | trEntry (i : Nat) | dispEntry (i : Nat)
  | scratch (k : Nat)     -- 0 typebuf 1 destSpacing 2-4 passbuf[0..2] 5-7 posMapping1-3 8 wordBuffer 9 emphasisBuffer
  | fwdPool | bwdPool     -- the two never-freed `StringBufferPool` headers
  deriving Repr, DecidableEq

inductive LedgerEv where
  | acq (b : Block)       -- malloc / calloc / the new block of a realloc
  | rel (b : Block)       -- free / the old block of a realloc
  deriving Repr, DecidableEq

inductive Event where
  | compile (tr disp : Option Name) (ok : Bool)   -- one call of compileTable: the roles it was asked for, its result
  | added (table : Nat) (ok : Bool)               -- compileString ran on this translation table
  | freed
  deriving Repr, DecidableEq

structure Oracle where
  /-- does `compileTable` succeed when asked for this translation list and/or this display list -/
  compiles : Option Name → Option Name → Bool
  /-- does `finalizeTable` succeed on the table compiled from this list -/
  finalizes : Name → Bool := fun _ => true

/-- the part of the library's static state that the cache and the allocator read -/
structure Core where
  tr : List Entry := []           -- translationTableChain
  disp : List Entry := []         -- displayTableChain
  alloc : Alloc.State := {}       -- typebuf … posMapping3 with their size variables
  wordBuf : Bool := false         -- wordBuffer != NULL
  emphBuf : Bool := false         -- emphasisBuffer != NULL
  next : Nat := 0                 -- ghost: next unused block identity (identities may be reused after lou_free, as addresses are)
  deriving Repr, DecidableEq

structure State where
  core : Core := {}
  fwdPool : Bool := false         -- lou_translateString.c: stringBufferPool != NULL
  bwdPool : Bool := false         -- lou_backTranslateString.c: stringBufferPool != NULL
  ledger : List LedgerEv := []    -- ghost: every malloc/free so far, in order
  log : List Event := []          -- ghost
  deriving Repr, DecidableEq

def State.init : State := {}

inductive Op where
  /-- `getTable(tr, disp, …)`; `finalize` = the caller runs `finalizeTable` on the translation table
      (`_lou_getTable`, `lou_getTable`, `_lou_getTranslationTable`).  `none` = NULL; "" counts as NULL -/
  | get (tr disp : Option Name) (finalize : Bool)
  /-- `lou_compileString(list, rule)`: `ok` = compileRule accepts the rule, `grow` = the table block moved -/
  | compileString (list : Name) (ok grow : Bool)
  /-- one `_lou_allocMem` request (`exact` = hook H1) -/
  | scratch (exact : Bool) (b : Alloc.Buf) (index : Nat) (srcmax destmax : Int)
  /-- `if (!stringBufferPool) initStringBufferPool()` of the forward (false) / backward (true) translator -/
  | pool (back : Bool)
  | free
  deriving Repr

structure Result where
  tr : Option Nat := none      -- translation table pointer handed back (none = NULL)
  disp : Option Nat := none
  ok : Bool := true            -- return value (compileString)
  deriving Repr, DecidableEq

/-- what one operation does: new core, what the caller gets, what was malloc'ed/freed, what was compiled -/
structure Out where
  core : Core
  res : Result := {}
  ledger : List LedgerEv := []
  events : List Event := []
  deriving Repr, DecidableEq

/-- `if (list == NULL || *list == 0) table = NULL` (5132-5134) -/
def norm : Option Name → Option Name
  | some [] => none
  | o => o

def newEntry (id : Nat) (n : Name) (table : Nat) : Entry :=
  { id := id, len := n.length, bytes := n.take n.length, table := table, finalized := false }

/-- "See if … table has already been compiled" for one role (skipped when the role is not asked for) -/
def look (c : List Entry) : Option Name → Option Entry × List Entry
  | none => (none, c)
  | some n => lookup c n

/-- `(table && *table == NULL) ? &newTable : NULL`: the role compileTable is asked for -/
def want (hit : Option Entry) (l : Option Name) : Option Name := if hit.isNone then l else none

/-- "Add a new entry to the top of the table chain." (only `if (newTable != NULL)`) -/
def push (c : List Entry) (w : Option Name) (id table : Nat) : List Entry :=
  match w with
  | some n => newEntry id n table :: c
  | none => c

def onlyIf (w : Option Name) (ev : LedgerEv) : List LedgerEv := if w.isSome then [ev] else []

/-- `getTable` (5127-5220) -/
def getTable (o : Oracle) (c : Core) (trL dispL : Option Name) : Out :=
  let tl := look c.tr (norm trL)
  let dl := look c.disp (norm dispL)
  let wantT := want tl.1 (norm trL)
  let wantD := want dl.1 (norm dispL)
  let tHit := tl.1.map (·.table)
  let dHit := dl.1.map (·.table)
  if wantT.isNone && wantD.isNone then
    { core := { c with tr := tl.2, disp := dl.2 }, res := { tr := tHit, disp := dHit } }
  else
    -- compileTable: allocateTranslationTable / allocateDisplayTable for the roles asked for
    let a := c.next
    let acq := onlyIf wantT (.acq (.trTable a)) ++ onlyIf wantD (.acq (.dispTable (a + 1)))
    if o.compiles wantT wantD then
      { core := { c with tr := push tl.2 wantT (a + 2) a, disp := push dl.2 wantD (a + 3) (a + 1), next := a + 4 },
        res := { tr := if wantT.isSome then some a else tHit, disp := if wantD.isSome then some (a + 1) else dHit },
        ledger := acq ++ (onlyIf wantT (.acq (.trEntry (a + 2))) ++ onlyIf wantD (.acq (.dispEntry (a + 3)))),
        events := [.compile wantT wantD true] }
    else
      -- cleanup: freeTranslationTable / freeDisplayTable; the out-parameters keep what the lookup found
      { core := { c with tr := tl.2, disp := dl.2, next := a + 4 },
        res := { tr := tHit, disp := dHit },
        ledger := acq ++ (onlyIf wantT (.rel (.trTable a)) ++ onlyIf wantD (.rel (.dispTable (a + 1)))),
        events := [.compile wantT wantD false] }

/-- `if (newTable) if (!finalizeTable(newTable)) newTable = NULL;` — after `getTable` the entry of the
    table handed back is the head of the translation chain -/
def finalizeHead (o : Oracle) (r : Out) : Out :=
  match r.res.tr, r.core.tr with
  | some _, e :: es =>
    if e.finalized then r
    else if o.finalizes e.bytes then
      { r with core := { r.core with tr := { e with finalized := true } :: es } }
    else { r with res := { r.res with tr := none } }
  | _, _ => r

/-- "update references to the old table" (445-450) -/
def retarget (old new : Nat) (c : List Entry) : List Entry :=
  c.map fun e => if e.table = old then { e with table := new } else e

def slots (a : Alloc.State) : List Alloc.Slot :=
  [a.typebuf, a.destSpacing, a.passbuf0, a.passbuf1, a.passbuf2, a.pm1, a.pm2, a.pm3]

/-- `if (want > size) { if (ptr) free(ptr); ptr = malloc(..); }` seen from outside: the slot changed -/
def slotEvents (k : Nat) (before after : Alloc.Slot) : List LedgerEv :=
  if after = before then []
  else (if before.alloc.isSome then [LedgerEv.rel (.scratch k)] else []) ++ [LedgerEv.acq (.scratch k)]

def slotsEvents : Nat → List Alloc.Slot → List Alloc.Slot → List LedgerEv
  | k, b :: bs, a :: as => slotEvents k b a ++ slotsEvents (k + 1) bs as
  | _, _, _ => []

/-- `if (p != NULL) free(p)` for every remembered scratch pointer (5401-5427) -/
def slotsFree : Nat → List Alloc.Slot → List LedgerEv
  | k, s :: ss => (if s.alloc.isSome then [LedgerEv.rel (.scratch k)] else []) ++ slotsFree (k + 1) ss
  | _, [] => []

def freeTr (c : List Entry) : List LedgerEv :=
  c.flatMap fun e => [LedgerEv.rel (.trTable e.table), LedgerEv.rel (.trEntry e.id)]

def freeDisp (c : List Entry) : List LedgerEv :=
  c.flatMap fun e => [LedgerEv.rel (.dispTable e.table), LedgerEv.rel (.dispEntry e.id)]

/-- what `lou_free` (5376-5429) releases: it walks both chains, frees the scratch buffers -/
def freeEvents (c : Core) : List LedgerEv :=
  freeTr c.tr ++ freeDisp c.disp ++ slotsFree 0 (slots c.alloc) ++
    (if c.wordBuf then [.rel (.scratch 8)] else []) ++ (if c.emphBuf then [.rel (.scratch 9)] else [])

/-- `lou_compileString` (5442-5450) -/
def compileString (o : Oracle) (c : Core) (n : Name) (ok grow : Bool) : Out :=
  let r := getTable o c (some n) (some n)
  match r.res.tr, r.core.tr with
  | some a, e :: es =>
    if e.finalized then
      -- compileString: "Table is finalized"
      { r with res := { r.res with ok := false }, events := r.events ++ [.added a false] }
    else if grow then
      let a' := r.core.next
      { core := { r.core with tr := retarget a a' (e :: es), next := a' + 1 },
        res := { tr := some a', disp := r.res.disp, ok := ok },
        ledger := r.ledger ++ [.rel (.trTable a), .acq (.trTable a')],
        events := r.events ++ [.added a' ok] }
    else
      { r with res := { r.res with ok := ok }, events := r.events ++ [.added a ok] }
  | _, _ => { r with res := { tr := none, disp := r.res.disp, ok := false } }     -- `if (!table) return 0;`

/-- `_lou_allocMem` -/
def scratch (c : Core) (exact : Bool) (b : Alloc.Buf) (idx : Nat) (sm dm : Int) : Out :=
  match b with
  | .wordBuffer =>
    { core := { c with wordBuf := true },
      ledger := (if c.wordBuf then [.rel (.scratch 8)] else []) ++ [.acq (.scratch 8)] }
  | .emphasisBuffer =>
    { core := { c with emphBuf := true },
      ledger := (if c.emphBuf then [.rel (.scratch 9)] else []) ++ [.acq (.scratch 9)] }
  | _ =>
    match Alloc.request exact b idx sm dm c.alloc with
    | some (a1, _) =>
      { core := { c with alloc := a1 },
        ledger := slotsEvents 0 (slots (Alloc.forget exact idx c.alloc)) (slots a1) }
    | none => { core := c, res := { ok := false } }       -- index out of bounds: the C code exits

/-- the operations that touch nothing but the core -/
def stepCore (o : Oracle) (c : Core) : Op → Out
  | .get trL dispL fin =>
    let r := getTable o c trL dispL
    if fin then finalizeHead o r else r
  | .compileString n ok grow => compileString o c n ok grow
  | .scratch exact b idx sm dm => scratch c exact b idx sm dm
  | _ => { core := c }

def step (o : Oracle) (s : State) : Op → State × Result
  | .pool false =>
    if s.fwdPool then (s, {}) else ({ s with fwdPool := true, ledger := s.ledger ++ [.acq .fwdPool] }, {})
  | .pool true =>
    if s.bwdPool then (s, {}) else ({ s with bwdPool := true, ledger := s.ledger ++ [.acq .bwdPool] }, {})
  | .free =>
    -- lou_free: everything back to its initial value; the pool headers are not touched
    ({ s with core := {}, ledger := s.ledger ++ freeEvents s.core, log := s.log ++ [.freed] }, {})
  | op =>
    let r := stepCore o s.core op
    ({ s with core := r.core, ledger := s.ledger ++ r.ledger, log := s.log ++ r.events }, r.res)

/-- run a history: final state and the result of every operation -/
def run (o : Oracle) : State → List Op → State × List Result
  | s, [] => (s, [])
  | s, op :: ops =>
    let r := step o s op
    let rest := run o r.1 ops
    (rest.1, r.2 :: rest.2)

/-! ### observers used by the theorems -/

def delta (b : Block) : LedgerEv → Int
  | .acq x => if x = b then 1 else 0
  | .rel x => if x = b then -1 else 0

/-- mallocs minus frees of block `b` -/
def balance (b : Block) : List LedgerEv → Int
  | [] => 0
  | ev :: l => delta b ev + balance b l

def cached (c : List Entry) (n : Name) : Bool := c.any (·.hit n)

/-- the table a lookup of `n` would hand back (no move-to-front) -/
def tableOf (c : List Entry) (n : Name) : Option Nat := (c.find? (·.hit n)).map (·.table)

/-- count over the part of the log after the last `freed` -/
def epochCount (p : Event → Bool) (log : List Event) : Nat :=
  log.foldl (fun acc ev => if ev = .freed then 0 else if p ev then acc + 1 else acc) 0

def isTrCompiled (n : Name) : Event → Bool
  | .compile (some m) _ true => m = n
  | _ => false

def isDispCompiled (n : Name) : Event → Bool
  | .compile _ (some m) true => m = n
  | _ => false

/-- any call of compileTable that reads the files of `n` -/
def isCompileOf (n : Name) : Event → Bool
  | .compile t d _ => t = some n || d = some n
  | _ => false

/-- operations of the public API: both roles asked for with one list -/
def Op.isPublic : Op → Bool
  | .get (some a) (some b) true => a = b
  | .get _ _ _ => false
  | _ => true

/-- the operation does not name the list `n` -/
def Op.avoids (n : Name) : Op → Bool
  | .get t d _ => norm t != some n && norm d != some n
  | .compileString m _ _ => m != n
  | .free => false
  | _ => true

/-! ### protocol: `MCACHE bad=<hex>,… <op>…`

  ops  `G:<hex>`              lou_getTable (the pointer is shown to the caller: numbered)
       `H:<hex>`              lou_getTable inside lou_hyphenate / lou_checkTable (pointer not shown)
       `T:<hextr>:<hexdisp>`  _lou_getTable (translate, back-translate)
       `X:<hex>`              _lou_getTranslationTable
       `D:<hex>`              _lou_getDisplayTable (character/dot conversion)
       `A:<hex>:<ok>:<grow>`  lou_compileString
       `P:<0|1>`  `S:<exact>:<buf>:<idx>:<src>:<dst>`  `F`
  `compileTable` fails iff one of the lists it is asked for is in `bad`.
  Answer: `MC` and per op `<ret>;<events>`: ret = for G the table numbered by first appearance
  among G results since the last F (0 = NULL), for T/X/D `<tr!=NULL><disp!=NULL>`, for A the return
  value, else `-`; events = `C:<hextr|->:<hexdisp|->:<ok>` for each compileTable call, `-` if none.
  After the last op: ` L:<live blocks>` (balance ≠ 0), e.g. `L:fwdPool` or `L:-`. -/

def parseName (h : String) : Option Name := parseBytes h

def parseBool (s : String) : Option Bool :=
  if s == "1" then some true else if s == "0" then some false else none

def parseOp (t : String) : Option Op :=
  match t.splitOn ":" with
  | ["G", h] => (parseName h).map fun n => .get (some n) (some n) true
  | ["H", h] => (parseName h).map fun n => .get (some n) (some n) true
  | ["T", a, b] => do
    let a ← parseName a
    let b ← parseName b
    pure (.get (some a) (some b) true)
  | ["X", h] => (parseName h).map fun n => .get (some n) none true
  | ["D", h] => (parseName h).map fun n => .get none (some n) false
  | ["A", h, ok, g] => do
    let n ← parseName h
    let ok ← parseBool ok
    let g ← parseBool g
    pure (.compileString n ok g)
  | ["P", b] => (parseBool b).map Op.pool
  | ["S", e, b, i, s, d] => do
    let e ← parseBool e
    let b ← b.toNat? >>= Alloc.Buf.ofNat?
    let i ← i.toNat?
    let s ← s.toInt?
    let d ← d.toInt?
    pure (.scratch e b i s d)
  | ["F"] => some .free
  | _ => none

def showOpt (o : Option Name) : String :=
  match o with
  | none => "-"
  | some n => showBytes n

def showEvents (evs : List Event) : String :=
  let cs := evs.filterMap fun e =>
    match e with
    | .compile t d ok => some s!"C:{showOpt t}:{showOpt d}:{if ok then 1 else 0}"
    | _ => none
  if cs.isEmpty then "-" else ",".intercalate cs

def allBlocks (l : List LedgerEv) : List Block :=
  (l.map fun | .acq b => b | .rel b => b).eraseDups

def showBlock : Block → String
  | .trTable a => s!"trTable{a}" | .dispTable a => s!"dispTable{a}" | .trEntry a => s!"trEntry{a}"
  | .dispEntry a => s!"dispEntry{a}" | .scratch k => s!"scratch{k}" | .fwdPool => "fwdPool" | .bwdPool => "bwdPool"

def replay (o : Oracle) : State → List Nat → List (String × Op) → List String
  | s, _, [] =>
    let live := (allBlocks s.ledger).filter fun b => balance b s.ledger != 0
    ["L:" ++ (if live.isEmpty then "-" else ",".intercalate (live.map showBlock))]
  | s, seen, (kind, op) :: ops =>
    let r := step o s op
    let evs := r.1.log.drop s.log.length
    let b := fun (x : Option Nat) => if x.isSome then "1" else "0"
    let (ret, seen') :=
      if kind == "G" then
        match (if r.2.disp.isSome then r.2.tr else none) with
        | none => ("0", seen)
        | some a =>
          match seen.idxOf? a with
          | some i => (toString (i + 1), seen)
          | none => (toString (seen.length + 1), seen ++ [a])
      else if kind == "T" || kind == "X" || kind == "D" then (b r.2.tr ++ b r.2.disp, seen)
      else if kind == "A" then ((if r.2.ok then "1" else "0"), seen)
      else if kind == "F" then ("-", [])
      else ("-", seen)
    (ret ++ ";" ++ showEvents evs) :: replay o r.1 seen' ops

def handle? (toks : List String) : Option String :=
  match toks with
  | "MCACHE" :: bad :: ops =>
    some <| (do
      let bad ← if bad == "bad=-" then some [] else
        if bad.startsWith "bad=" then ((bad.drop 4).toString.splitOn ",").mapM parseName else none
      let ops ← ops.mapM fun t => (parseOp t).map fun op => ((t.take 1).toString, op)
      let isBad : Option Name → Bool := fun x => match x with | some n => bad.contains n | none => false
      let o : Oracle := { compiles := fun t d => !(isBad t || isBad d) }
      pure ("MC " ++ " ".intercalate (replay o State.init [] ops))).getD "BADOP"
  | "MCACHE" :: _ => some "BADOP"
  | _ => none

end Lou.Cache
