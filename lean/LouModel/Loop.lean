/-
  Loop.lean — the shape shared by the guarded pass loops
  (forward makeCorrections / translatePass: lou_translateString.c:273-345, 1061-1097;
   backward makeCorrections / translatePass: lou_backTranslateString.c:1003-1090, 1636-1673):

      posIncremented = 1;
      while (pos < input->length) {
          tick
          if (!posIncremented) opcode = CTO_Always; else opcode = select(...);
          posIncremented = 1;
          switch (opcode) {
            case rule:   if (!action(&pos)) goto failure;
                         if (pos == posBefore) posIncremented = 0;     // backward: = pos > posBefore
            case Always: if (output full) goto failure; copy one element; pos++;
            default:     goto failure;
          }
      }

  What rule selection and the actions do is abstracted into `sel`, a function of
  an arbitrary hidden state and the position.
-/
namespace Lou.Loop

inductive Step where
  | copy                    -- CTO_Always: copy one element, pos + 1
  | rule (newPos : Nat)     -- a correct/context/passN rule whose action leaves the position at newPos
  | fail                    -- action failed / output full / unexpected opcode
  deriving Repr, DecidableEq

structure St (σ : Type) where
  pos : Nat
  inc : Bool          -- posIncremented
  ticks : Nat
  done : Bool
  hid : σ

/-- one loop iteration; `sel` sees the hidden state and the position -/
def iter {σ : Type} (n : Nat) (sel : σ → Nat → Step × σ) (s : St σ) : St σ :=
  if s.done then s
  else if s.pos < n then
    let (k, h) := if s.inc then sel s.hid s.pos else (Step.copy, s.hid)
    match k with
    | .copy => { pos := s.pos + 1, inc := true, ticks := s.ticks + 1, done := false, hid := h }
    | .rule p => { pos := p, inc := decide (p ≠ s.pos), ticks := s.ticks + 1, done := false, hid := h }
    | .fail => { pos := s.pos, inc := true, ticks := s.ticks + 1, done := true, hid := h }
  else { s with done := true }

def run {σ : Type} (n : Nat) (sel : σ → Nat → Step × σ) : Nat → St σ → St σ
  | 0, s => s
  | fuel + 1, s => run n sel fuel (iter n sel s)

def init {σ : Type} (h : σ) : St σ := { pos := 0, inc := true, ticks := 0, done := false, hid := h }

/-- the step contract S2: an action never moves the position backwards -/
def Monotone {σ : Type} (sel : σ → Nat → Step × σ) : Prop :=
  ∀ h pos p, (sel h pos).1 = Step.rule p → pos ≤ p

end Lou.Loop
