/-
  Engine.lean — the Layer B engine models as ONE engine of Layer A, and the whole call built from them:
  `callFwd` / `callBack` run the driver model (`Drv.fwd` / `Drv.back`) with the modelled stages plugged in, so the
  complete result of `lou_translate` / `lou_backTranslate` (return value, lengths, output, position arrays, cursor) is
  computed by the model alone — nothing is taken from a recorded trace.  The fragment: tables whose main pass is inside
  F0 (Forward.lean / Backward.lean, any number of correct / pass2-4 rules around it) and whose pass rules are inside
  the fragment of Pass.lean.
-/
import LouModel.Driver
import LouModel.Forward
import LouModel.ForwardCtx
import LouModel.Backward
import LouModel.BackwardCtx
import LouModel.Pass

namespace Lou.Engine
open Lou Lou.Gen Lou.Drv

/-- the engines of Layer B as ONE engine of Layer A: the main pass is the F0 model (`Fwd.translate`), every other
    stage the multipass stage model (`Pass.fwdStage`).  Where the stage model answers `unsupported` (a rule outside
    its fragment) the engine emits nothing — only so that the function is total; `callFwd` reports such calls as
    unsupported. -/
def modelEngine (t : Table) : Engine := fun ini _hist pin =>
  if pin.passNo == 1 then
    let r := Fwd.translate t ini.mode pin.chars pin.maxlen pin.cpos pin.cstat
    { out := r.out, map := r.map, realInlen := r.realInlen, cpos := r.cpos, cstat := r.cstat }
  else
    match Pass.fwdStage t pin.passNo pin.chars pin.maxlen with
    | .done o => { out := o.out, map := o.map, realInlen := o.realInlen, cpos := pin.cpos, cstat := pin.cstat }
    | _ => { out := [], map := [], realInlen := 0, cpos := pin.cpos, cstat := pin.cstat }

def modelEngineBack (t : Table) : Engine := fun ini _hist pin =>
  if pin.passNo == 1 then
    let r := Back.translate t ini.mode pin.chars pin.maxlen pin.cpos
    { out := r.out, map := r.map.map (fun o => o.getD 0), realInlen := r.realInlen, cpos := r.cpos, cstat := r.cstat }
  else
    match Pass.backStage t pin.passNo pin.chars pin.maxlen with
    | .done o => { out := o.out, map := o.map.take o.realInlen, realInlen := o.realInlen, cpos := pin.cpos, cstat := pin.cstat }
    | _ => { out := [], map := [], realInlen := 0, cpos := pin.cpos, cstat := pin.cstat }

/-- the same with the main pass of ForwardCtx.lean (F0 + context rules) -/
def modelEngineC (t : Table) : Engine := fun ini _hist pin =>
  if pin.passNo == 1 then
    match FwdC.translateC t ini.mode pin.chars pin.maxlen pin.cpos pin.cstat with
    | .done r => { out := r.out, map := r.map, realInlen := r.realInlen, cpos := r.cpos, cstat := r.cstat }
    | _ => { out := [], map := [], realInlen := 0, cpos := pin.cpos, cstat := pin.cstat }
  else
    match Pass.fwdStage t pin.passNo pin.chars pin.maxlen with
    | .done o => { out := o.out, map := o.map, realInlen := o.realInlen, cpos := pin.cpos, cstat := pin.cstat }
    | _ => { out := [], map := [], realInlen := 0, cpos := pin.cpos, cstat := pin.cstat }

/-- the backward engine with the main pass of BackwardCtx.lean (B0 + context rules) -/
def modelEngineBackC (t : Table) : Engine := fun ini _hist pin =>
  if pin.passNo == 1 then
    match BackC.translateC t ini.mode pin.chars pin.maxlen pin.cpos with
    | .done r => { out := r.out, map := r.map.map (fun o => o.getD 0), realInlen := r.realInlen, cpos := r.cpos, cstat := r.cstat }
    | .failed => { out := [], map := [], realInlen := 0, cpos := pin.cpos, cstat := pin.cstat, ok := false }
    | _ => { out := [], map := [], realInlen := 0, cpos := pin.cpos, cstat := pin.cstat }
  else
    match Pass.backStage t pin.passNo pin.chars pin.maxlen with
    | .done o => { out := o.out, map := o.map.take o.realInlen, realInlen := o.realInlen, cpos := pin.cpos, cstat := pin.cstat }
    | _ => { out := [], map := [], realInlen := 0, cpos := pin.cpos, cstat := pin.cstat }

def hasContextBack (t : Table) : Bool :=
  !(t.backPassChain 1).isEmpty || t.rules.any (fun r => r.opcode == CTO_Context && !r.chars.isEmpty)

def engineForBack (t : Table) : Engine := if hasContextBack t then modelEngineBackC t else modelEngineBack t

/-- does the forward main pass of `t` see context rules -/
def hasContextFwd (t : Table) : Bool :=
  !(t.forPassChain 1).isEmpty || t.rules.any (fun r => r.opcode == CTO_Context && !r.chars.isEmpty)

/-- the engine `callFwd` runs: the F0 engine (about which `ModelEngine`/`CurBlind` speak) unless the table has context
    rules in its main pass -/
def engineFor (t : Table) : Engine := if hasContextFwd t then modelEngineC t else modelEngine t

/-- is the main pass of `t` inside F0, other stages allowed (compare `Fwd.unsupported`, which also refuses them) -/
def mainGuardFwd (t : Table) : Option String :=
  if t.usesSequences || t.usesNumericMode || t.syllables then some "sequences/numericmode/syllables" else
  if t.letterSign.isSome || t.noContractSign.isSome || t.noNumberSign.isSome then some "letsign/nocontractsign" else
  if !t.emph.isEmpty then some "emphasis/caps indicators" else
  if !(t.forPassChain 1).isEmpty || !(t.backPassChain 1).isEmpty then some "context rules" else
  match t.rules.find? (fun r => !(Pass.isPassOpcode r.opcode && r.opcode != CTO_Context) &&
      (!Fwd.opcodeOK r.opcode || r.after != 0 || r.before != 0 || r.nocross || r.hasPatterns)) with
  | some r => some s!"rule {r.idx} opcode {r.opcode}"
  | none => if t.chars.any (fun c => c.compRule.isSome) then some "comprule" else none

def mainGuardBack (t : Table) : Option String :=
  if t.letterSign.isSome || t.noContractSign.isSome || t.noNumberSign.isSome then some "letsign/nocontractsign" else
  if !t.emph.isEmpty then some "emphasis/caps indicators" else
  if !(t.forPassChain 1).isEmpty || !(t.backPassChain 1).isEmpty then some "context rules" else
  match t.rules.find? (fun r => !(Pass.isPassOpcode r.opcode && r.opcode != CTO_Context) &&
      (!Back.opcodeOK r.opcode || r.after != 0 || r.before != 0 || r.hasPatterns)) with
  | some r => some s!"rule {r.idx} opcode {r.opcode}"
  | none => none

def tableInfo (t : Table) : TableInfo := { corrections := t.corrections, numPasses := t.numPasses }

/-- a stage of the history the stage model does not cover -/
def stageUncovered (t : Table) (back : Bool) (h : List (PassIn × PassOut)) : Bool :=
  h.any fun (pin, _) =>
    pin.passNo != 1 &&
    (match (if back then Pass.backStage t pin.passNo pin.chars pin.maxlen else Pass.fwdStage t pin.passNo pin.chars pin.maxlen) with
     | .done _ => false
     | _ => true)

/-- the whole forward call; `none` = outside the fragment (with the reason) -/
def callFwd (t : Table) (disp : Nat → Nat) (a : Args) : Except String (Result × List (PassIn × PassOut)) :=
  match (if hasContextFwd t then FwdC.unsupportedC t else mainGuardFwd t) with
  | some why => .error why
  | none =>
    if hasBit a.mode mCompbrlAtCursor || hasBit a.mode mCompbrlLeftCursor then .error "compbrl mode" else
    let ti := tableInfo t
    let h := (fwdRun ti (engineFor t) a).hist
    if stageUncovered t false h then .error "stage outside the pass fragment" else
    if hasContextFwd t && h.any (fun x => x.1.passNo == 1 &&
        (match FwdC.translateC t a.mode x.1.chars x.1.maxlen x.1.cpos x.1.cstat with | .done _ => false | _ => true))
    then .error "main pass outside the context fragment" else
    .ok (fwd (some ti) disp (engineFor t) a, h)

def callBack (t : Table) (dotsFor : Nat → Nat) (a : Args) : Except String (Result × List (PassIn × PassOut)) :=
  match (if hasContextBack t then BackC.unsupportedC t else mainGuardBack t) with
  | some why => .error why
  | none =>
    let ti := tableInfo t
    let h := (backRun ti dotsFor (engineForBack t) a).hist
    if stageUncovered t true h then .error "stage outside the pass fragment" else
    if hasContextBack t && h.any (fun x => x.1.passNo == 1 &&
        (match BackC.translateC t a.mode x.1.chars x.1.maxlen x.1.cpos with | .done _ => false | .failed => false | _ => true))
    then .error "main pass outside the context fragment" else
    .ok (back (some ti) dotsFor (engineForBack t) a, h)

end Lou.Engine
