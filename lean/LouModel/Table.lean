/-
  Table.lean — the *logical* compiled table: what `DUMP` (harness/lvh_dump.h) prints for a
  compiled `TranslationTableHeader`, offset-free (rules are identified by their `index`,
  characters and cells by their value).  The engine models of Layer B run on this structure,
  whether it was produced by the compile model (`Compile.lean`) or loaded from a DUMP of the
  real compiler — so they can be compared with the implementation on any table.
-/
import LouModel.Basic
import LouModel.Gen.Consts

namespace Lou

structure Rule where
  idx : Nat
  opcode : Nat
  chars : List Nat
  dots : List Nat
  after : Nat := 0
  before : Nat := 0
  nocross : Bool := false
  hasPatterns : Bool := false
  deriving Repr, DecidableEq, Inhabited

structure CharRec where
  value : Nat
  attrs : Nat
  mode : Nat := 0
  defRule : Option Nat := none      -- rule index
  compRule : Option Nat := none
  base : Option Nat := none         -- value of the base character
  chain : List Nat := []            -- otherRules, in chain order (rule indices)
  deriving Repr, DecidableEq, Inhabited

structure DotsRec where
  value : Nat
  attrs : Nat
  defRule : Option Nat := none
  chain : List Nat := []
  deriving Repr, DecidableEq, Inhabited

structure Table where
  numPasses : Nat := 1
  corrections : Bool := false
  finalized : Bool := true
  usesSequences : Bool := false
  usesNumericMode : Bool := false
  capsNoCont : Bool := false
  syllables : Bool := false
  undefined : Option Nat := none
  letterSign : Option Nat := none
  numberSign : Option Nat := none
  noContractSign : Option Nat := none
  noNumberSign : Option Nat := none
  begComp : Option Nat := none
  endComp : Option Nat := none
  hyph : Bool := false
  ruleCounter : Nat := 0
  emph : List (Nat × Nat × Nat) := []        -- (class, slot, rule index); lenPhrase slots omitted
  rules : List Rule := []                     -- sorted by index
  chars : List CharRec := []                  -- in bucket order
  dots : List DotsRec := []
  forB : List (Nat × List Nat) := []          -- forRules buckets: hash ↦ chain
  backB : List (Nat × List Nat) := []
  forPass : List (Nat × List Nat) := []
  backPass : List (Nat × List Nat) := []
  deriving Repr, Inhabited

namespace Table

def rule? (t : Table) (i : Nat) : Option Rule := t.rules.find? (·.idx == i)
def char? (t : Table) (c : Nat) : Option CharRec := t.chars.find? (·.value == c)
def dots? (t : Table) (d : Nat) : Option DotsRec := t.dots.find? (·.value == d)
def forBucket (t : Table) (h : Nat) : List Nat := ((t.forB.find? (·.1 == h)).map (·.2)).getD []
def backBucket (t : Table) (h : Nat) : List Nat := ((t.backB.find? (·.1 == h)).map (·.2)).getD []
def forPassChain (t : Table) (p : Nat) : List Nat := ((t.forPass.find? (·.1 == p)).map (·.2)).getD []
def backPassChain (t : Table) (p : Nat) : List Nat := ((t.backPass.find? (·.1 == p)).map (·.2)).getD []
def emphRule (t : Table) (cls slot : Nat) : Option Nat :=
  (t.emph.find? (fun e => e.1 == cls && e.2.1 == slot)).map (·.2.2)

/-- `getChar` of the translators (lou_translateString.c:148): an unknown character is the static
    `notFound` record: attributes CTC_Space, no rules, value c -/
def getChar (t : Table) (c : Nat) : CharRec :=
  (t.char? c).getD { value := c, attrs := Gen.CTC_Space }

def getDots (t : Table) (d : Nat) : DotsRec :=
  (t.dots? d).getD { value := d, attrs := Gen.CTC_Space }

end Table

/-! ### parsing a DUMP line -/

def optIdx (s : String) : Option (Option Nat) :=
  if s == "-1" then some none else s.toNat?.map some

def parseChain (s : String) : Option (List Nat) :=
  if s == "." then some [] else (s.splitOn ",").mapM (·.toNat?)

def hexN? (s : String) : Option Nat := hexNat? s.toList

def parseDumpRec (t : Table) (toks : List String) : Option Table :=
  match toks with
  | ["R", i, op, ch, ds, af, be, nc, hp] => do
    let i ← i.toNat?
    let op ← op.toNat?
    let ch ← parseWide ch
    let ds ← parseWide ds
    let af ← hexN? af
    let be ← hexN? be
    pure { t with rules := { idx := i, opcode := op, chars := ch, dots := ds, after := af, before := be,
                                          nocross := nc != "0", hasPatterns := hp != "0" } :: t.rules }
  | ["E", _, _, v] =>
    if v.startsWith "n" then some t else none
  | ["C", v, att, md, df, cp, bs, chn] => do
    let v ← hexN? v
    let att ← hexN? att
    let md ← hexN? md
    let df ← optIdx df
    let cp ← optIdx cp
    let bs ← if bs == "-" then some none else (hexN? bs).map some
    let chn ← parseChain chn
    pure { t with chars := { value := v, attrs := att, mode := md, defRule := df, compRule := cp, base := bs, chain := chn } :: t.chars }
  | ["D", v, att, df, chn] => do
    let v ← hexN? v
    let att ← hexN? att
    let df ← optIdx df
    let chn ← parseChain chn
    pure { t with dots := { value := v, attrs := att, defRule := df, chain := chn } :: t.dots }
  | ["F", h, chn] => do pure { t with forB := t.forB ++ [(← h.toNat?, ← parseChain chn)] }
  | ["B", h, chn] => do pure { t with backB := t.backB ++ [(← h.toNat?, ← parseChain chn)] }
  | ["FP", h, chn] => do pure { t with forPass := t.forPass ++ [(← h.toNat?, ← parseChain chn)] }
  | ["BP", h, chn] => do pure { t with backPass := t.backPass ++ [(← h.toNat?, ← parseChain chn)] }
  | _ => none

def parseEmph (t : Table) (toks : List String) : Option Table :=
  match toks with
  | ["E", c, s, v] =>
    if v.startsWith "n" then some t else do
      let c ← c.toNat?
      let s ← s.toNat?
      let v ← v.toNat?
      pure { t with emph := t.emph ++ [(c, s, v)] }
  | _ => none

/-- parse the body of a `DUMP` result line (without the trailing ` e=.. w=..`) -/
def parseDump (line : String) : Option Table :=
  match line.splitOn " | " with
  | [] => none
  | hd :: recs =>
    match (hd.splitOn " ").filter (· != "") with
    | ["T", np, co, fi, us, un, cn, sy, ud, ls, ns, nc, nn, bc, ec, hy, rc] => do
      let t0 : Table := {
        numPasses := ← np.toNat?, corrections := co != "0", finalized := fi != "0", usesSequences := us != "0",
        usesNumericMode := un != "0", capsNoCont := cn != "0", syllables := sy != "0",
        undefined := ← optIdx ud, letterSign := ← optIdx ls, numberSign := ← optIdx ns, noContractSign := ← optIdx nc,
        noNumberSign := ← optIdx nn, begComp := ← optIdx bc, endComp := ← optIdx ec, hyph := hy != "0",
        ruleCounter := ← rc.toNat? }
      let t ← recs.foldlM (fun t r =>
        let toks := (r.splitOn " ").filter (· != "")
        match toks with
        | "E" :: _ => parseEmph t toks
        | _ => parseDumpRec t toks) t0
      -- the record lists were built by consing: restore the order of the dump
      pure { t with rules := t.rules.reverse, chars := t.chars.reverse, dots := t.dots.reverse }
    | _ => none

end Lou
