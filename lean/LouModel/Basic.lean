/-
  Basic.lean — shared definitions and the line-protocol helpers.
  Core Lean only (no Mathlib) so that `loumodel` links as a `lean_exe`.
-/
namespace Lou

/-- mode bits (liblouis.h `translationModes`); the numeric values are re-checked
    against the C header by `Gen/Consts.lean` (see `LouProofs/GenFacts.lean`). -/
def mNoContractions : Nat := 1
def mCompbrlAtCursor : Nat := 2
def mDotsIO : Nat := 4
def mCompbrlLeftCursor : Nat := 32
def mUcBrl : Nat := 64
def mNoUndefined : Nat := 128
def mPartialTrans : Nat := 256

def LOU_DOTS : Nat := 0x8000
def LOU_ROW_BRAILLE : Nat := 0x2800
def LOU_DOT_7 : Nat := 0x40
def LOU_DOT_8 : Nat := 0x80
def LOU_ENDSEGMENT : Nat := 0xffff

def hasBit (x b : Nat) : Bool := (x &&& b) != 0

/-! ### protocol helpers -/

def hexDigit (c : Char) : Option Nat :=
  if '0' ≤ c ∧ c ≤ '9' then some (c.toNat - '0'.toNat)
  else if 'a' ≤ c ∧ c ≤ 'f' then some (c.toNat - 'a'.toNat + 10)
  else if 'A' ≤ c ∧ c ≤ 'F' then some (c.toNat - 'A'.toNat + 10)
  else none

def hexNat? (cs : List Char) : Option Nat :=
  cs.foldlM (fun acc c => (hexDigit c).map (fun d => acc * 16 + d)) 0

/-- parse a string of 4-hex-digit words ("-" = empty); `none` when malformed -/
def parseWide (s : String) : Option (List Nat) :=
  if s == "-" then some [] else
  let rec go (cs : List Char) (fuel : Nat) (acc : List Nat) : Option (List Nat) :=
    match fuel with
    | 0 => none
    | fuel + 1 =>
      match cs with
      | [] => some acc.reverse
      | a :: b :: c :: d :: rest =>
        match hexNat? [a, b, c, d] with
        | some v => go rest fuel (v :: acc)
        | none => none
      | _ => none
  go s.toList (s.length + 1) []

def parseBytes (s : String) : Option (List Nat) :=
  if s == "-" then some [] else
  let rec go (cs : List Char) (fuel : Nat) (acc : List Nat) : Option (List Nat) :=
    match fuel with
    | 0 => none
    | fuel + 1 =>
      match cs with
      | [] => some acc.reverse
      | a :: b :: rest =>
        match hexNat? [a, b] with
        | some v => go rest fuel (v :: acc)
        | none => none
      | _ => none
  go s.toList (s.length + 1) []

def hexChar (n : Nat) : Char :=
  if n < 10 then Char.ofNat ('0'.toNat + n) else Char.ofNat ('a'.toNat + n - 10)

def hex4 (n : Nat) : String :=
  String.ofList [hexChar (n / 4096 % 16), hexChar (n / 256 % 16), hexChar (n / 16 % 16), hexChar (n % 16)]

def hex2 (n : Nat) : String :=
  String.ofList [hexChar (n / 16 % 16), hexChar (n % 16)]

def showWide (l : List Nat) : String :=
  if l.isEmpty then "-" else String.join (l.map hex4)

def showBytes (l : List Nat) : String :=
  if l.isEmpty then "-" else String.join (l.map hex2)

def showInts (l : List Int) : String :=
  if l.isEmpty then "." else ",".intercalate (l.map toString)

def parseInts (s : String) : Option (List Int) :=
  if s == "." || s == "-" then some [] else
  (s.splitOn ",").mapM (fun t => t.toInt?)

end Lou
