import LouModel

partial def loop (h : IO.FS.Stream) (out : IO.FS.Stream) : IO Unit := do
  let line ← h.getLine
  if line.isEmpty then return ()
  let r := Lou.Proto.handle line
  if !r.isEmpty then out.putStrLn r
  loop h out

def main : IO Unit := do
  let i ← IO.getStdin
  let o ← IO.getStdout
  loop i o
