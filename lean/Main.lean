import LouModel

/-- every model module that takes part in the line protocol exports
    `handle? : List String → Option String`; first match wins -/
def handlers : List (List String → Option String) := [
  Lou.Proto.handle?,
  Lou.Alloc.handle?,
  Lou.Resolve.handle?,
  Lou.Log.handle?,
  Lou.Lexer.handle?,
  Lou.HyphProto.handle?,
  Lou.Meta.handle?,
  Lou.ImageProto.handle?,
  Lou.Cache.handle?
]

def handleLine (line : String) : String :=
  match (line.trimAscii.toString.splitOn " ").filter (· != "") with
  | [] => ""
  | "CASE" :: id :: _ => s!"CASE {id}"
  | toks =>
    match handlers.findSome? (fun h => h toks) with
    | some r => r
    | none => "UNSUPPORTED"

/-- tables registered with LOADTABLE (name ↦ logical table) -/
abbrev Registry := List (String × Lou.Table)

partial def loop (h : IO.FS.Stream) (out : IO.FS.Stream) (reg : Registry) : IO Unit := do
  let line ← h.getLine
  if line.isEmpty then return ()
  let toks := (line.trimAscii.toString.splitOn " ").filter (· != "")
  match toks with
  | "LOADTABLE" :: name :: rest =>
    match Lou.parseDump (" ".intercalate rest) with
    | some t =>
      out.putStrLn "OK"
      loop h out ((name, t) :: reg.filter (·.1 != name))
    | none =>
      out.putStrLn "BADOP"
      loop h out reg
  | "MCOMPILE" :: name :: ents =>
    match ents.mapM Lou.EngineProto.parseEntry with
    | none =>
      out.putStrLn "BADOP"
      loop h out reg
    | some es =>
      match Lou.Compile.compile es with
      | none =>
        out.putStrLn "T null"
        loop h out reg
      | some t =>
        out.putStrLn (Lou.EngineProto.showTable t)
        loop h out ((name, t) :: reg.filter (·.1 != name))
  | ["MDUMP", name] =>
    match reg.find? (·.1 == name) with
    | some e => out.putStrLn (Lou.EngineProto.showTable e.2)
    | none => out.putStrLn "BADOP"
    loop h out reg
  | _ =>
    match Lou.EngineProto.handle? reg toks with
    | some r =>
      out.putStrLn r
      loop h out reg
    | none =>
      let r := handleLine line
      if !r.isEmpty then out.putStrLn r
      loop h out reg

def main : IO Unit := do
  let i ← IO.getStdin
  let o ← IO.getStdout
  loop i o []
