import LouModel

/-- every model module that takes part in the line protocol exports
    `handle? : List String → Option String`; first match wins -/
def handlers : List (List String → Option String) := [
  Lou.Proto.handle?,
  Lou.Alloc.handle?,
  Lou.Resolve.handle?,
  Lou.Log.handle?,
  Lou.Lexer.handle?
]

def handleLine (line : String) : String :=
  match (line.trimAscii.toString.splitOn " ").filter (· != "") with
  | [] => ""
  | "CASE" :: id :: _ => s!"CASE {id}"
  | toks =>
    match handlers.findSome? (fun h => h toks) with
    | some r => r
    | none => "UNSUPPORTED"

partial def loop (h : IO.FS.Stream) (out : IO.FS.Stream) : IO Unit := do
  let line ← h.getLine
  if line.isEmpty then return ()
  let r := handleLine line
  if !r.isEmpty then out.putStrLn r
  loop h out

def main : IO Unit := do
  let i ← IO.getStdin
  let o ← IO.getStdout
  loop i o
