#!/usr/bin/env python3
"""Regenerate MANIFEST.json from the per-property registration table below."""
import json, os, sys
sys.path.insert(0, os.path.dirname(os.path.abspath(__file__)))

VERIF = os.path.dirname(os.path.dirname(os.path.abspath(__file__)))
TRUST = ("Lean 4.33.0 kernel (axioms: propext, Classical.choice, Quot.sound only; audited by #print axioms on every run); "
         "tools/lv/extract.py; harness/lvh.c + LIBLOUIS_VERIF hooks; ASan/UBSan as observers; the Lean compiler for "
         "running the model driver. ")

import importlib
CLAIMED = {}
for f in sorted(os.listdir(os.path.join(VERIF, "tools", "lv", "props"))):
    if f.startswith("C") and f.endswith(".py"):
        m = importlib.import_module("lv.props." + f[:-3])
        if getattr(m, "CLAIM", None):
            c = dict(m.CLAIM)
            c["note"] = TRUST + c.get("note", "")
            CLAIMED[f[:-3]] = c

NOT_YET = "check not built yet in this revision (work in progress, see DESIGN.md §11)"


def main():
    props = [json.loads(l) for l in open(os.path.join(VERIF, "properties.jsonl"))]
    checks = []
    na = []
    for p in props:
        pid = p["id"]
        if pid in CLAIMED:
            c = CLAIMED[pid]
            checks.append({
                "property_id": pid,
                "quick_cmd": "./check %s --tier quick" % pid,
                "thorough_cmd": "./check %s --tier thorough" % pid,
                "evidence_file": "evidence/%s.json" % pid,
                "replay_cmd_template": "./check %s --replay {path}" % pid,
                "engine": "lean-proof+differential",
                "level_claimed": {"category": "proof", "text": c["text"], "design_ref": c["design"]},
                "level_note": c["note"],
                "technique": c["technique"],
            })
        else:
            na.append({"property_id": pid, "reason": NOT_YET})
    hooks = [l.split()[0] for l in os.popen("git -C /repo log --format='%H %s' 40f87137..HEAD").read().split("\n")
             if "verif hooks" in l]
    m = {
        "version": 1,
        "setup_cmd": "./setup.sh",
        "hooks": {
            "guard": "LIBLOUIS_VERIF",
            "enable": "harness objects are compiled by tools/lv/common.py:build_harness from /repo/liblouis/*.c with clang-14 -DLIBLOUIS_VERIF -fsanitize=address,undefined",
            "baseline_off_cmd": "make -C /repo -k check",
            "source_commits": hooks,
            "add_only": True,
        },
        "engines": [{"name": "lean-proof+differential", "path": "check",
                     "serves_properties": [c["property_id"] for c in checks],
                     "kind_free_text": "Lean 4 model + theorems (lean/), regenerated facts (tools/lv/extract.py), C harness under ASan/UBSan (harness/lvh.c), compiled Lean model driver (lean/Main.lean), python orchestration (tools/lv)"}],
        "checks": checks,
        "not_applicable": na,
        "notes": "See DESIGN.md. Known findings: known_findings.json.",
    }
    json.dump(m, open(os.path.join(VERIF, "MANIFEST.json"), "w"), indent=1)
    print("MANIFEST.json: %d checks, %d not_applicable" % (len(checks), len(na)))


if __name__ == "__main__":
    main()
