#!/usr/bin/env python3
"""tools/seed_import.py <Cxx> <A|B|...> <scratch-worktree>
Confirms <scratch>/MUT/<X>.diff with its demo in the scratch worktree (tools/seed_confirm.sh), and if it
builds, keeps the suite result and the demo separates mutated from clean, stores it as
/verif/seeded/<Cxx>-<X>/{patch.diff, demo.*, meta.json}."""
import sys, os, json, subprocess, shutil, glob, re

VERIF = os.path.dirname(os.path.dirname(os.path.abspath(__file__)))


def main():
    prop, x, d = sys.argv[1:4]
    mut = os.path.join(d, "MUT")
    patch = os.path.join(mut, x + ".diff")
    demos = [p for p in glob.glob(os.path.join(mut, x + "_demo*")) if p.endswith((".c", ".sh"))]
    if not os.path.exists(patch) or not demos:
        print("missing patch or demo", patch, demos); return 2
    demo = sorted(demos, key=lambda p: (not p.endswith(".sh"), p))[0]
    extra = ""
    for pn in glob.glob(os.path.join(mut, x + "_notes.json")):
        try:
            extra = " ".join(re.findall(r"-Wl,\S+|(?<=\s)-l[a-z]+(?=\s|$)|-pthread", json.load(open(pn)).get("build", "")))
        except Exception:
            pass
    r = subprocess.run([os.path.join(VERIF, "tools", "seed_confirm.sh"), d, patch, demo], env=dict(os.environ, DEMO_LDFLAGS=extra), stdout=subprocess.PIPE,
                       stderr=subprocess.STDOUT, text=True)
    line = [l for l in r.stdout.splitlines() if l.startswith("CONFIRM")]
    print(r.stdout[-600:])
    if not line:
        return 2
    m = re.search(r"suite=(\S+) warnings=(\d+) demo_mut=(\d+) demo_clean=(\d+)", line[-1])
    if not m:
        return 2
    suite, warn, dm, dc = m.group(1), int(m.group(2)), int(m.group(3)), int(m.group(4))
    ok = suite == "same" and dm != 0 and dc == 0
    notes = {}
    for p in glob.glob(os.path.join(mut, x + "_notes.json")) + glob.glob(os.path.join(mut, "notes.json")):
        try:
            notes = json.load(open(p))
            if isinstance(notes, dict) and x in notes:
                notes = notes[x]
        except Exception as e:
            notes = {"unparsed": open(p).read()[:4000]}
        break
    out = os.path.join(VERIF, "seeded", "%s-%s" % (prop, x))
    if not ok:
        print("NOT CONFIRMED:", line[-1]); return 1
    os.makedirs(out, exist_ok=True)
    shutil.copy(patch, os.path.join(out, "patch.diff"))
    shutil.copy(demo, os.path.join(out, "demo" + os.path.splitext(demo)[1]))
    mo = os.path.join(mut, "demo.mut.out")
    if os.path.exists(mo):
        open(os.path.join(out, "demo.mutated.out"), "w").write(open(mo, errors="replace").read()[-4000:])
    meta = {"property": prop, "name": "%s-%s" % (prop, x),
            "clause": notes.get("clause"), "mechanism": notes.get("mechanism"), "needs": notes.get("needs"),
            "demo_build": (notes.get("build") or "").replace(d, "<scratch>"),
            "confirmed": {"where": "scratch git worktree of /repo HEAD (removed afterwards)",
                          "suite": "identical to baseline by test name (%s)" % line[-1].split("counts=")[-1].strip(),
                          "compiler_warnings_in_build_log": warn, "demo_exit_mutated": dm, "demo_exit_clean": dc},
            "author": "fresh sub-agent given only the property text and a scratch worktree"}
    json.dump(meta, open(os.path.join(out, "meta.json"), "w"), indent=1)
    print("stored", out)
    return 0


if __name__ == "__main__":
    sys.exit(main())
