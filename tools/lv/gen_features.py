"""W-table: a wide grammar-based generator of liblouis tables used by the SEARCH side of the checks
(sanitizer, contract, position-map, termination, optional-argument oracles).  Unlike gen_table.py
(whose output the Lean compile model must reproduce) this generator aims at breadth: every family of
opcodes with operands of unusual shapes (multi-cell indicators, indicators longer than what they mark,
multi-character repeated/repword/rependword separators, grouping and swap classes used from multipass
rules, emphasis classes, computer braille, numeric mode, match patterns ...).

`gen(rng)` returns a `WTable` with .text (table source), .triggers (character strings that make the
rules fire), .cells (cell sequences for the backward direction) and .features (names, for the
distribution in the evidence).  Tables that the real compiler rejects are simply discarded by callers."""
import random

LOW = [ord(c) for c in "abcdefghijklmn"]
UPP = {ord(c): ord(c.upper()) for c in "abcdefghijklmn"}
DIG = [ord(c) for c in "0123456789"]
PUN = [ord(c) for c in ".,;:!?-'()/"]
EXTRA = [0x00e9, 0x0100, 0x0564, 0x03b1, 0x2013]
VARS = [1, 1, 2, 24, 25, 30, 49]        # pass variables: both halves of the 50-element array


def dots_str(cell):
    if cell == 0:
        return "0"
    return "".join("123456789abcdef"[i] for i in range(15) if cell & (1 << i))


def cells_str(cells):
    return "-".join(dots_str(c) for c in cells)


def ch(c):
    if c == 0x20:
        return "\\s"
    if 0x21 <= c <= 0x7e and chr(c) not in "\\\"#":
        return chr(c)
    return "\\x%04x" % c


def chs(cs):
    return "".join(ch(c) for c in cs)


class WTable:
    def __init__(self):
        self.lines = []
        self.triggers = []      # list of lists of code units
        self.tails = []         # triggers that matter at the very end of the input
        self.tail_conts = []    # (tail, what would continue the pattern behind the end of the input)
        self.cellseqs = []      # list of lists of cells (without LOU_DOTS)
        self.features = set()
        self.cell = {}          # char -> cell
        self.letters, self.digits, self.puncts, self.uppers = [], [], [], {}
        self.emph = []          # emphasis class names in order (bit k+? of typeform)
        self.classes = []       # user attribute names
        self.swaps = []         # (name, kind)
        self.groups = []        # (name, c1, c2, d1, d2)

    @property
    def text(self):
        return "\n".join(self.lines) + "\n"


def _cells(rng, w, n=None, lo=1, hi=3, eight=False):
    n = rng.randint(lo, hi) if n is None else n
    return [rng.randint(1, 255 if eight else 63) for _ in range(n)]


def _word(rng, w, lo=1, hi=4, pool=None):
    pool = pool or w.letters
    return [rng.choice(pool) for _ in range(rng.randint(lo, hi))]


def _pattern(rng, w, before, depth=0):
    """a match pre-/post-pattern: literals, attribute tests, groups, alternation, quantifiers (also around
    sub-patterns that can match the empty string), anchors"""
    if depth == 0 and rng.random() < 0.2:
        return "-"

    def atom(d):
        r = rng.random()
        if r < 0.3:
            return chs(_word(rng, w, 1, 1))
        if r < 0.55:
            return rng.choice(["%a", "%#", "%l", "%u", "%_", "%.", "%[al]", "%[a#]", "%[_.]", "%<", "%>"])
        if r < 0.62:
            return "!" + rng.choice(["%a", "%#", chs(_word(rng, w, 1, 1))])
        if r < 0.67:
            return "."
        if d < 2:
            inner = seq(d + 1)
            if rng.random() < 0.4:
                inner += "|" + seq(d + 1)
            return "(" + inner + ")"
        return "%a"

    def seq(d):
        out = ""
        for _ in range(rng.randint(1, 2)):
            a = atom(d)
            q = rng.random()
            if q < 0.2:
                a += "*"
            elif q < 0.3:
                a += "+"
            elif q < 0.45:
                a += "?"
                if rng.random() < 0.3:
                    a = "(" + a + ")" + rng.choice(["*", "+"])       # a loop whose body can match nothing
            out += a
        return out

    body = seq(depth)
    if rng.random() < 0.15:
        body = ("^" + body) if before else (body + "$")
    return body


def gen(rng, want=None, groupreplace=False):
    w = WTable()
    L = w.lines
    used = {0}

    def newcell(eight=False):
        for _ in range(200):
            c = rng.randint(1, 255 if eight else 63)
            if c not in used:
                used.add(c)
                return c
        return rng.randint(1, 63)

    def feat(name, p):
        if want is not None:
            on = name in want
        else:
            on = rng.random() < p
        if on:
            w.features.add(name)
        return on

    eight = rng.random() < 0.15
    # ---- character definitions
    L.append("space \\s 0")
    w.cell[0x20] = 0
    if rng.random() < 0.3:
        L.append("space \\t 0")
    for c in rng.sample(LOW, rng.randint(4, 9)):
        d = newcell(eight)
        L.append("lowercase %s %s" % (ch(c), dots_str(d)))
        w.cell[c] = d
        w.letters.append(c)
    if rng.random() < 0.4:
        for c in rng.sample(EXTRA, rng.randint(1, 2)):
            d = newcell(eight)
            L.append("letter %s %s" % (ch(c), dots_str(d)))
            w.cell[c] = d
            w.letters.append(c)
    if feat("uppercase", 0.6):
        for lo in rng.sample(w.letters, min(len(w.letters), rng.randint(1, 5))):
            if lo in UPP:
                up = UPP[lo]
                if rng.random() < 0.5:
                    L.append("base uppercase %s %s" % (ch(up), ch(lo)))
                    w.cell[up] = w.cell[lo]
                else:
                    d = newcell(eight)
                    L.append("uppercase %s %s" % (ch(up), dots_str(d)))
                    w.cell[up] = d
                w.uppers[lo] = up
    for c in rng.sample(DIG, rng.randint(2, 5)):
        d = newcell(eight)
        L.append("%s %s %s" % (rng.choice(["digit", "digit", "digit"]), ch(c), dots_str(d)))
        w.cell[c] = d
        w.digits.append(c)
    if feat("litdigit", 0.3):
        for c in w.digits[:2]:
            L.append("litdigit %s %s" % (ch(c), dots_str(newcell(eight))))
    for c in rng.sample(PUN, rng.randint(2, 5)):
        d = newcell(eight)
        L.append("%s %s %s" % (rng.choice(["punctuation", "punctuation", "sign", "math"]), ch(c), dots_str(d)))
        w.cell[c] = d
        w.puncts.append(c)
    allc = w.letters + w.digits + w.puncts

    def cellsof(s):
        return [w.cell.get(c, 0) for c in s]

    # ---- indicators (with unusual lengths)
    if feat("numsign", 0.6):
        L.append("numsign %s" % cells_str(_cells(rng, w, lo=1, hi=3)))
        w.triggers.append([rng.choice(w.digits) for _ in range(rng.randint(1, 3))])
        if rng.random() < 0.4:
            L.append("nonumsign %s" % cells_str(_cells(rng, w, lo=1, hi=2)))
        if rng.random() < 0.4:
            L.append("numericmodechars %s" % chs(rng.sample(w.puncts, 1)))
        if rng.random() < 0.3:
            L.append("midendnumericmodechars %s" % chs(rng.sample(w.puncts, 1)))
        if rng.random() < 0.3:
            L.append("numericnocontchars %s" % chs(rng.sample(w.letters, min(3, len(w.letters)))))
    if feat("letsign", 0.4):
        L.append("letsign %s" % cells_str(_cells(rng, w, lo=1, hi=3)))
        if rng.random() < 0.5:
            L.append("noletsignafter %s" % chs(rng.sample(w.puncts, 1)))
        if rng.random() < 0.3:
            L.append("noletsignbefore %s" % chs(rng.sample(w.puncts, 1)))
        if rng.random() < 0.3:
            L.append("noletsign %s" % chs(rng.sample(w.letters, 1)))
    if feat("nocontractsign", 0.25):
        L.append("nocontractsign %s" % cells_str(_cells(rng, w, lo=1, hi=2)))
    if w.uppers and feat("caps", 0.6):
        L.append("capsletter %s" % cells_str(_cells(rng, w, lo=1, hi=3)))
        if rng.random() < 0.7:
            L.append("begcapsword %s" % cells_str(_cells(rng, w, lo=1, hi=3)))
            if rng.random() < 0.6:
                L.append("endcapsword %s" % cells_str(_cells(rng, w, lo=1, hi=3)))
        if rng.random() < 0.4:
            L.append("begcapsphrase %s" % cells_str(_cells(rng, w, lo=1, hi=3)))
            L.append("endcapsphrase %s %s" % (rng.choice(["before", "after"]), cells_str(_cells(rng, w, lo=1, hi=3))))
            L.append("lencapsphrase %d" % rng.randint(1, 4))
        elif rng.random() < 0.3:
            L.append("begcaps %s" % cells_str(_cells(rng, w, lo=1, hi=2)))
            L.append("endcaps %s" % cells_str(_cells(rng, w, lo=1, hi=2)))
        if rng.random() < 0.3:
            L.append("capsmodechars %s" % chs(rng.sample(w.puncts, 1)))
        ups = list(w.uppers.values())
        w.triggers.append([rng.choice(ups) for _ in range(rng.randint(1, 4))])
        w.triggers.append([rng.choice(ups), rng.choice(w.letters), rng.choice(ups)])
    if feat("emph", 0.5):
        names = ["italic", "underline", "bold", "transnote", "script"][: rng.randint(1, 5)]
        for nm in names:
            L.append("emphclass %s" % nm)
            w.emph.append(nm)
        for nm in names:
            r = rng.random()
            if r < 0.5:
                L.append("begemphword %s %s" % (nm, cells_str(_cells(rng, w, lo=1, hi=3))))
                if rng.random() < 0.6:
                    L.append("endemphword %s %s" % (nm, cells_str(_cells(rng, w, lo=1, hi=3))))
                if rng.random() < 0.6:
                    L.append("emphletter %s %s" % (nm, cells_str(_cells(rng, w, lo=1, hi=3))))
                if rng.random() < 0.6:
                    L.append("begemphphrase %s %s" % (nm, cells_str(_cells(rng, w, lo=1, hi=3))))
                    L.append("endemphphrase %s %s %s" % (nm, rng.choice(["before", "after"]), cells_str(_cells(rng, w, lo=1, hi=3))))
                    L.append("lenemphphrase %s %d" % (nm, rng.randint(1, 4)))
            else:
                L.append("begemph %s %s" % (nm, cells_str(_cells(rng, w, lo=1, hi=3))))
                L.append("endemph %s %s" % (nm, cells_str(_cells(rng, w, lo=1, hi=3))))
            if rng.random() < 0.3:
                L.append("emphmodechars %s %s" % (nm, chs(rng.sample(w.puncts, 1))))
            if rng.random() < 0.3:
                L.append("noemphchars %s %s" % (nm, chs(rng.sample(w.puncts, 1))))
    if feat("compbrl", 0.4):
        L.append("begcomp %s" % cells_str(_cells(rng, w, lo=1, hi=3)))
        L.append("endcomp %s" % cells_str(_cells(rng, w, lo=1, hi=3)))
        s = _word(rng, w, 1, 3, allc)
        if rng.random() < 0.2:
            s = [0x20] + s                  # a computer braille string with a blank in it
        L.append("compbrl %s" % chs(s).replace(" ", "\\s"))
        w.triggers.append(_word(rng, w, 0, 2) + s + _word(rng, w, 0, 2))
        if rng.random() < 0.5:
            c = rng.choice(allc)
            L.append("comp6 %s %s" % (ch(c), cells_str(_cells(rng, w, lo=1, hi=3))))
    if feat("seq", 0.3):
        L.append("seqdelimiter %s" % chs(rng.sample(w.puncts, 1)))
        if rng.random() < 0.5:
            L.append("seqbeforechars %s" % chs(rng.sample(w.puncts, 1)))
        if rng.random() < 0.5:
            L.append("seqafterchars %s" % chs(rng.sample(w.puncts, 1)))
        if rng.random() < 0.3:
            L.append("seqafterpattern %s" % chs(_word(rng, w, 1, 2)))
        d0 = w.puncts[0]
        w.triggers.append(_word(rng, w, 1, 2) + [rng.choice(w.puncts)] + _word(rng, w, 1, 3))
    if feat("basechain", 0.25) and w.uppers:
        # characters based on characters that are themselves based on others
        lo = rng.choice(sorted(w.uppers))
        up = w.uppers[lo]
        L.append("attribute accent %s" % chs([0x00e0]))
        L.append("attribute accenttwo %s" % chs([0x00e2]))
        w.classes += ["accent", "accenttwo"]
        L.append("base accent \\x00c9 %s" % ch(up))
        L.append("base accenttwo \\x00eb %s" % ch(rng.choice([lo, up])))
        if rng.random() < 0.5:
            L.append("base accent \\x00ea \\x00eb")
        w.cell[0xc9] = w.cell[0xeb] = w.cell[0xea] = w.cell[lo]
        w.triggers.append([0xc9, lo, 0xeb])
        w.triggers.append([up, 0xea, 0xc9])
    if feat("undefined", 0.3):
        L.append("undefined %s" % cells_str(_cells(rng, w, lo=1, hi=3)))
    if feat("capsnocont", 0.1):
        L.append("capsnocont")
    # ---- user classes
    if feat("class", 0.5):
        for nm in rng.sample(["vowel", "cons", "klasa"], rng.randint(1, 2)):
            L.append("attribute %s %s" % (nm, chs(rng.sample(w.letters, rng.randint(1, min(3, len(w.letters)))))))
            w.classes.append(nm)
    # ---- translation rules
    ops = ["always", "always", "word", "partword", "begword", "midword", "endword", "begmidword", "midendword", "sufword",
           "prfword", "lowword", "joinword", "largesign", "syllable", "nocross always", "nocross begword", "contraction",
           "prepunc", "postpunc", "begnum", "midnum", "endnum", "joinnum", "decpoint", "hyphen", "nocont", "replace", "literal"]
    earlier = []
    for _ in range(rng.randint(2, 10)):
        op = rng.choice(ops)
        if earlier and rng.random() < 0.3:
            s = list(rng.choice(earlier))
            if rng.random() < 0.5:
                s = s + [rng.choice(w.letters)]
        else:
            s = _word(rng, w, 1, 4)
        pre = rng.choice(["", "", "", "noback ", "nofor "])
        if w.classes and rng.random() < 0.15:
            pre += "%s %s " % (rng.choice(["after", "before"]), rng.choice(w.classes))
        if op in ("prepunc", "postpunc"):
            s = [rng.choice(w.puncts)]
        elif op in ("begnum", "endnum", "midnum", "decpoint", "hyphen"):
            s = [rng.choice(w.puncts + w.letters)]
        elif op == "joinnum":
            s = _word(rng, w, 1, 2)
        if op in ("contraction", "nocont", "literal"):
            L.append("%s%s %s" % (pre, op, chs(s)))
        elif op == "replace":
            L.append("%sreplace %s %s" % (pre, chs(s), chs(_word(rng, w, 0, 3)) or ""))
        else:
            eq = rng.random() < 0.1 and op.startswith(("always", "word", "begword", "endword"))
            L.append("%s%s %s %s" % (pre, op, chs(s), "=" if eq else cells_str(_cells(rng, w, lo=1, hi=4))))
        earlier.append(tuple(s))
        w.features.add(op.split()[0])
        w.triggers.append(list(s))
        if op == "joinword" or op == "joinnum" or op == "largesign":
            w.triggers.append(list(s) + [0x20] + _word(rng, w, 1, 3, w.letters + w.digits))
            # at the very END of the input, followed by blanks only: the look-ahead over the blanks has to stop at the
            # end of the input (seeded change C01-E read the element behind it)
            w.tails.append(list(s) + [0x20] * rng.randint(1, 3))
            w.tails.append([rng.choice(w.digits)] + list(s) + [0x20])
        if op in ("begnum", "midnum", "endnum", "decpoint", "joinnum"):
            w.triggers.append([rng.choice(w.digits)] + list(s) + [rng.choice(w.digits)])
            w.triggers.append(list(s) + [rng.choice(w.digits)])
    # ---- repetition
    if feat("repeated", 0.35):
        s = _word(rng, w, 1, 3, allc)
        L.append("repeated %s %s" % (chs(s), cells_str(_cells(rng, w, lo=1, hi=4))))
        w.triggers.append(s * rng.randint(2, 5) + s[: rng.randint(0, len(s))])
        # at the very END of the input: a run followed by the beginning of one more repetition (the comparison of the
        # next repetition must stop at the end of the input - seeded change C04-B)
        for j in range(1, len(s)):
            w.tails.append(s * rng.randint(1, 3) + s[:j])
            w.tail_conts.append((s * 2 + s[:j], s[j:] + s + s))
    if feat("repword", 0.3):
        s = _word(rng, w, 1, 2, w.puncts)
        L.append("repword %s %s" % (chs(s), cells_str(_cells(rng, w, lo=1, hi=4))))
        x = _word(rng, w, 1, 3)
        w.triggers.append(x + s + x + (s + x if rng.random() < 0.5 else []))
        # at the very END of the input: the word, the separator, the word again, the separator and the BEGINNING of one
        # more repetition - the comparison with the next repetition must stop at the end of the input (seeded change C04-G)
        x2 = _word(rng, w, 2, 4)
        for j in range(1, len(x2)):
            w.tails.append(x2 + s + x2 + s + x2[:j])
            w.tail_conts.append((x2 + s + x2 + s + x2[:j], x2[j:] + s + x2))
        w.triggers.append(_word(rng, w, 1, 2) + x + s + x)
    if feat("rependword", 0.3):
        s = _word(rng, w, 1, 2, w.puncts)
        L.append("rependword %s %s,%s" % (chs(s), cells_str(_cells(rng, w, lo=1, hi=4)), cells_str(_cells(rng, w, lo=1, hi=4))))
        x = _word(rng, w, 1, 3)
        w.triggers.append(_word(rng, w, 1, 3) + x + s + x)
        w.triggers.append(x + s + x + s + x)
    # ---- swap classes and grouping, used from multipass rules
    if feat("swap", 0.35):
        k = rng.randint(2, 3)
        cs = rng.sample(w.letters, min(k, len(w.letters)))
        k = len(cs)
        kind = rng.choice(["cc", "cd", "dd"])
        if kind == "cc":
            L.append("swapcc swa %s %s" % (chs(cs), chs(_word(rng, w, k, k))))
        elif kind == "cd":
            L.append("swapcd swa %s %s" % (chs(cs), ",".join(cells_str(_cells(rng, w, lo=1, hi=3)) for _ in range(k))))
        else:
            L.append("swapdd swa %s %s" % (",".join(dots_str(w.cell[c]) for c in cs),
                                            ",".join(cells_str(_cells(rng, w, lo=1, hi=3)) for _ in range(k))))
        w.swaps.append(("swa", kind, cs))
        w.triggers.append([rng.choice(cs) for _ in range(rng.randint(1, 4))])
    if feat("grouping", 0.3):
        c1, c2 = rng.sample(w.puncts + EXTRA[:2], 2)
        d1, d2 = newcell(), newcell()
        L.append("grouping grp %s%s %s,%s" % (ch(c1), ch(c2), dots_str(d1), dots_str(d2)))
        w.groups.append(("grp", c1, c2, d1, d2))
        w.cell.setdefault(c1, d1)
        w.cell.setdefault(c2, d2)
        w.triggers.append([c1] + _word(rng, w, 0, 3) + [c2])
        w.triggers.append([c1, c1] + _word(rng, w, 1, 2) + [c2] + _word(rng, w, 0, 1) + [c2])
        if groupreplace and rng.random() < 0.5:
            # (only where asked for - the checks whose oracle is "no fault, returns": the grouping actions of the unmodified
            # tree stop a pass early in ways recorded as F37/F41 and one more not yet explained, see DESIGN)
            # a second grouping and a rule that REPLACES the delimiters of the first by those of the second (`;name`): the
            # pass input is copied for that, whatever its length (seeded change C01-H sized the copy by the output capacity)
            rest = [c for c in w.puncts + EXTRA[:4] if c not in (c1, c2)]
            if len(rest) >= 2:
                c3, c4 = rng.sample(rest, 2)
                d3, d4 = newcell(), newcell()
                L.append("grouping grq %s%s %s,%s" % (ch(c3), ch(c4), dots_str(d3), dots_str(d4)))
                w.cell.setdefault(c3, d3)
                w.cell.setdefault(c4, d4)
                L.append("noback %s {grp ;grq*" % rng.choice(["correct", "correct", "context"]))
                w.features.add("correct")
                w.triggers.append(_word(rng, w, 1, 3) + [c1] + _word(rng, w, 1, 4) + [c2] + _word(rng, w, 0, 2))
    # ---- match
    if feat("match", 0.3):
        for _ in range(rng.randint(1, 2)):
            s = _word(rng, w, 1, 3)
            pre = _pattern(rng, w, True)
            post = _pattern(rng, w, False)
            L.append("%s %s %s %s %s" % (rng.choice(["match", "noback match", "nofor match", "backmatch"]), pre, chs(s), post, cells_str(_cells(rng, w, lo=1, hi=3))))
            w.triggers.append(_word(rng, w, 0, 2) + s + _word(rng, w, 0, 2))
            w.triggers.append(s)
    # ---- multipass
    if feat("multipass", 0.6):
        for _ in range(rng.randint(1, 6)):
            stage = rng.choice(["correct", "context", "pass2", "pass3", "pass4"])
            direction = rng.choice(["noback", "noback", "nofor"])
            fwd = direction != "nofor"
            if stage == "correct":
                tc, ac = True, True
            elif stage == "context":
                tc, ac = (True, False) if fwd else (False, True)
            else:
                tc, ac = False, False

            def lit(chars_side, n):
                if chars_side:
                    s = [c for c in _word(rng, w, n, n, allc) if chr(c) not in "\"\\"] or [w.letters[0]]
                    if chars_side and tc:
                        w.triggers.append(s)
                    return '"%s"' % chs(s)
                return "@" + cells_str([rng.choice([x for x in w.cell.values() if x] or [1]) for _ in range(n)])

            def attr():
                a = rng.choice(["$l", "$a", "$d", "$p", "$s", "$U", "$u", "$w", "$m", "$S"] + (["$w"] if not w.classes else []))
                q = rng.choice(["", "", "1", "2", "1-2", "1-3", "."])
                return rng.choice(["", "", "!"]) + a + q

            items = []
            if rng.random() < 0.12:
                items.append("`")
            if rng.random() < 0.2:
                items.append("_%d" % rng.randint(1, 2))
            for _k in range(rng.randint(0, 1)):
                items.append(lit(tc, rng.randint(1, 2)) if rng.random() < 0.7 else attr())
            br = rng.random() < 0.65
            if br:
                items.append("[")
            inner = []
            for _k in range(rng.randint(0 if br else 1, 2)):
                r = rng.random()
                if r < 0.55:
                    inner.append(lit(tc, rng.randint(1, 2)))
                elif r < 0.8:
                    inner.append(attr())
                elif r < 0.9 and w.swaps and ((w.swaps[0][1] == "dd") != tc):
                    inner.append("%%swa%s" % rng.choice(["", "1-2", "."]))
                elif w.groups:
                    inner.append(rng.choice(["{grp", "}grp"]))
                else:
                    inner.append(lit(tc, 1))
            items += inner
            if br:
                items.append("]")
            if rng.random() < 0.15:
                # look-ahead search: the operands after '/' are searched for from here on
                items.append("/")
                r = rng.random()
                if r < 0.5:
                    items.append(lit(tc, rng.randint(1, 2)))
                elif r < 0.75:
                    items.append(attr())
                elif w.swaps and ((w.swaps[0][1] == "dd") != tc):
                    items.append("%swa")
                else:
                    items.append(lit(tc, 1) + rng.choice(["~", "`", ""]))
            for _k in range(rng.randint(0, 1)):
                items.append(lit(tc, rng.randint(1, 2)) if rng.random() < 0.7 else attr())
            if rng.random() < 0.08:
                items.append("~")
            if rng.random() < 0.25:
                items.append("#%d%s%d" % (rng.choice(VARS), rng.choice(["=", "=", "<", ">"]), rng.randint(0, 2)))
            test = "".join(items) or lit(tc, 1)
            acts = []
            for _k in range(rng.randint(1, 2)):
                r = rng.random()
                if r < 0.4:
                    acts.append(lit(ac, rng.randint(1, 3)))
                elif r < 0.55:
                    acts.append("*")
                elif r < 0.7:
                    acts.append("?")
                elif r < 0.8 and any(x.startswith("%swa") for x in inner):
                    acts.append("%swa")
                elif r < 0.9 and w.groups:
                    acts.append(rng.choice(["{grp", "}grp", "?"]))
                elif r < 0.97:
                    acts.append("#%d%s" % (rng.choice(VARS), rng.choice(["=1", "=1", "+", "-", "=0"])))
                else:
                    acts.append(lit(ac, 1))
            if "?" in acts:
                acts = ["?"]
            L.append("%s%s %s %s" % ((direction + " ") if direction else "", stage, test, "".join(acts)))
            w.features.add(stage)
    # cell sequences for the backward direction
    for tr in w.triggers:
        cs = [w.cell.get(c) for c in tr]
        if all(x is not None for x in cs) and cs:
            w.cellseqs.append(cs)
    return w


def text_for(rng, w, maxlen=16):
    """an input: triggers joined by blanks / nothing, sometimes with undefined characters, NUL, U+FFFF"""
    u = []
    for _ in range(rng.randint(1, 4)):
        r = rng.random()
        if w.triggers and r < 0.7:
            s = list(rng.choice(w.triggers))
        elif r < 0.9:
            pool = w.letters + w.digits + w.puncts
            s = [rng.choice(pool) for _ in range(rng.randint(1, 4))]
        else:
            s = [rng.choice([0x7a, 0xffff, 0x3b2, 0x5a, 0])]
        if u and rng.random() < 0.6:
            u.append(0x20)
        if rng.random() < 0.12:
            s = [w.uppers.get(c, c) for c in s]
        u += s
        if len(u) >= maxlen:
            break
    u = u[:maxlen]
    tails = getattr(w, "tails", None)
    if tails and rng.random() < 0.3:
        t = list(rng.choice(tails))
        u = u[: max(0, maxlen - len(t) - 1)]
        u = (u + [0x20] if u and rng.random() < 0.5 else u) + t
    return u


def typeform_for(rng, w, n):
    """typeform words with runs of emphasis bits (bit k for the k-th declared class; 1,2,4 are italic/underline/bold)"""
    if rng.random() < 0.4 or n == 0:
        return [0] * n
    tf = [0] * n
    for _ in range(rng.randint(1, 3)):
        bit = rng.choice([1, 2, 4, 8, 0x10, 0x20, 0x100, 0x200, 0x400, 0x2000, 0x4000])
        a = rng.randint(0, n - 1)
        b = rng.randint(a, min(n - 1, a + rng.randint(0, 8)))
        for k in range(a, b + 1):
            tf[k] |= bit
    return tf


def cells_for(rng, w, maxlen=16):
    u = []
    for _ in range(rng.randint(1, 4)):
        r = rng.random()
        if w.cellseqs and r < 0.7:
            s = list(rng.choice(w.cellseqs))
        else:
            s = [rng.randint(0, 255 if r > 0.95 else 63) for _ in range(rng.randint(1, 4))]
        if u and rng.random() < 0.6:
            u.append(0)
        u += s
        if len(u) >= maxlen:
            break
    return [0x8000 | c for c in u[:maxlen]]
