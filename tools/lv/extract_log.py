"""Tie-G for C19: source inventory of the logger, generated into lean/LouModel/Gen/LogSites.lean.

From /repo/liblouis/*.c (comments stripped, tokenised; no compiler needed):
 (a) every reference to the variables `logLevel` and `logCallbackFunction`: file, enclosing function,
     line, and whether it is the file-scope definition, a write or a read;
 (b) every CALL of _lou_logMessage / lou_logPrint / compileError / compileWarning / _lou_logWidecharBuf:
     file, function, line, the level argument as written and the class of the FORMAT argument
     (string literal / exactly "%s" / anything else);
 (c) the seven level constants of liblouis.h(.in);
 (d) every variadic function defined in the library (a wrapper that forwards a format would show up here).
"""
import os, re
from . import common

VARS = ("logLevel", "logCallbackFunction")
# callee -> (index of the level argument or None, index of the format argument, what the argument is)
CALLEES = {
    "_lou_logMessage": (0, 1),
    "lou_logPrint": (None, 0),
    "compileError": (None, 1),
    "compileWarning": (None, 1),
    "_lou_logWidecharBuf": (0, 1),      # 2nd argument is copied verbatim, never used as a format
}

TOKEN = re.compile(r'''
    (?P<str>"(?:\\.|[^"\\\n])*")
  | (?P<chr>'(?:\\.|[^'\\\n])*')
  | (?P<id>[A-Za-z_][A-Za-z_0-9]*)
  | (?P<num>\.?[0-9][0-9A-Za-z_.]*)
  | (?P<op>\.\.\.|<<=|>>=|\+\+|--|->|==|!=|<=|>=|&&|\|\||\+=|-=|\*=|/=|%=|&=|\|=|\^=|<<|>>|[-+*/%&|^~!<>=?:;,.(){}\[\]\#\\@$`])
''', re.X)


def strip_comments(src):
    out, i, n = [], 0, len(src)
    while i < n:
        c = src[i]
        if src.startswith("/*", i):
            j = src.find("*/", i + 2)
            j = n if j < 0 else j + 2
            out.append("".join(ch if ch == "\n" else " " for ch in src[i:j]))
            i = j
        elif src.startswith("//", i):
            j = src.find("\n", i)
            j = n if j < 0 else j
            out.append(" " * (j - i))
            i = j
        elif c == '"' or c == "'":
            j = i + 1
            while j < n and src[j] != c:
                j += 2 if src[j] == "\\" else 1
            out.append(src[i:j + 1])
            i = j + 1
        else:
            out.append(c)
            i += 1
    return "".join(out)


def tokens(src):
    toks = []
    line = 1
    pos = 0
    for m in TOKEN.finditer(src):
        line += src.count("\n", pos, m.start())
        pos = m.start()
        toks.append((m.lastgroup, m.group(0), line))
    return toks


def drop_preprocessor(src):
    """blank out preprocessor directives (with continuation lines); both branches of #if stay"""
    out = []
    cont = False
    for l in src.split("\n"):
        if cont or l.lstrip().startswith("#"):
            cont = l.rstrip().endswith("\\")
            out.append("")
        else:
            out.append(l)
    return "\n".join(out)


def match_paren(toks, i):
    """index of the ')' matching the '(' at i"""
    d = 0
    for j in range(i, len(toks)):
        if toks[j][1] == "(":
            d += 1
        elif toks[j][1] == ")":
            d -= 1
            if d == 0:
                return j
    raise ValueError("unbalanced parenthesis at line %d" % toks[i][2])


def scan_file(path):
    name = os.path.basename(path)
    raw = open(path, encoding="utf-8", errors="replace").read()
    toks = tokens(drop_preprocessor(strip_comments(raw)))
    refs, calls, variadic = [], [], []
    depth = 0
    func = "<file-scope>"
    # back-matching of ')' for function headers
    stack = []
    open_of = {}
    for i, (k, t, ln) in enumerate(toks):
        if t == "(":
            stack.append(i)
        elif t == ")" and stack:
            open_of[i] = stack.pop()
    for i, (k, t, ln) in enumerate(toks):
        if t == "{":
            if depth == 0:
                func = "<file-scope>"
                if i > 0 and toks[i - 1][1] == ")" and (i - 1) in open_of:
                    o = open_of[i - 1]
                    if o > 0 and toks[o - 1][0] == "id":
                        func = toks[o - 1][1]
                        if any(x[1] == "..." for x in toks[o:i]):
                            variadic.append((name, func, toks[o - 1][2]))
            depth += 1
        elif t == "}":
            depth -= 1
            if depth == 0:
                func = "<file-scope>"
        elif k == "id" and t in VARS:
            nxt = toks[i + 1][1] if i + 1 < len(toks) else ""
            prv = toks[i - 1][1] if i > 0 else ""
            if prv in (".", "->"):
                continue            # a struct member of the same name is another object
            if depth == 0:
                kind = "init"
                init = ""
                if nxt == "=":
                    j = i + 2
                    while toks[j][1] != ";":
                        init += toks[j][1]
                        j += 1
                refs.append((t, name, func, ln, kind, init))
            else:
                if nxt in ("=", "+=", "-=", "*=", "/=", "%=", "&=", "|=", "^=", "<<=", ">>=", "++", "--") or prv in ("++", "--", "&"):
                    kind = "write"
                else:
                    kind = "read"
                refs.append((t, name, func, ln, kind, ""))
        elif k == "id" and t in CALLEES and depth > 0 and i + 1 < len(toks) and toks[i + 1][1] == "(":
            close = match_paren(toks, i + 1)
            args, cur, d = [], [], 0
            for x in toks[i + 2:close]:
                if x[1] in "([{":
                    d += 1
                elif x[1] in ")]}":
                    d -= 1
                if x[1] == "," and d == 0:
                    args.append(cur)
                    cur = []
                else:
                    cur.append(x)
            args.append(cur)
            li, fi = CALLEES[t]
            level = " ".join(x[1] for x in args[li]) if li is not None and li < len(args) else "-"
            fa = args[fi] if fi < len(args) else []
            if fa and all(x[0] == "str" for x in fa):
                lit = "".join(x[1][1:-1] for x in fa)
                cls = "pctS" if lit == "%s" else "literal"
                text = lit
            else:
                cls = "nonLiteral"
                text = " ".join(x[1] for x in fa)
            calls.append((name, func, t, ln, level, cls, text, len(args)))
    if depth != 0:
        raise ValueError("%s: braces do not balance after preprocessing (depth %d): extractor out of date" % (name, depth))
    return refs, calls, variadic


def level_constants():
    for h in ("liblouis.h.in", "liblouis.h"):
        p = os.path.join(common.REPO, "liblouis", h)
        if os.path.exists(p):
            src = strip_comments(open(p).read())
            m = re.search(r"typedef\s+enum\s*\{([^}]*)\}\s*logLevels\s*;", src)
            if m:
                out = []
                for part in m.group(1).split(","):
                    mm = re.match(r"\s*(LOU_LOG_[A-Z]+)\s*=\s*(\d+)\s*$", part)
                    if mm:
                        out.append((mm.group(1), int(mm.group(2))))
                    elif part.strip():
                        raise ValueError("logLevels: cannot read enumerator %r" % part)
                return h, out
    raise ValueError("logLevels enum not found in liblouis.h(.in)")


def lstr(s):
    return '"' + s.replace("\\", "\\\\").replace('"', '\\"').replace("\n", "\\n") + '"'


def generate():
    d = os.path.join(common.REPO, "liblouis")
    files = sorted(f for f in os.listdir(d) if f.endswith(".c"))
    refs, calls, variadic = [], [], []
    for f in files:
        r, c, v = scan_file(os.path.join(d, f))
        refs += r
        calls += c
        variadic += v
    hname, levels = level_constants()
    if not calls or not refs:
        raise ValueError("logger inventory is empty: extractor out of date")
    L = ["/- GENERATED by tools/lv/extract_log.py from %s/liblouis — do not edit. -/" % "<REPO>",
         "namespace Lou.Gen.LogSites", "",
         "inductive RefKind where | init | write | read deriving DecidableEq, Repr",
         "inductive FmtClass where | literal | pctS | nonLiteral deriving DecidableEq, Repr", "",
         "structure VarRef where", "  var : String", "  file : String", "  func : String", "  line : Nat",
         "  kind : RefKind", "  init : String", "  deriving DecidableEq, Repr", "",
         "structure CallSite where", "  file : String", "  func : String", "  callee : String", "  line : Nat",
         "  level : String", "  fmt : FmtClass", "  fmtText : String", "  nargs : Nat", "  deriving DecidableEq, Repr", "",
         "/-- the .c files scanned -/", "def files : List String := [%s]" % ", ".join(lstr(f) for f in files), "",
         "/-- (a) every reference to the logger's two control variables -/", "def varRefs : List VarRef := ["]
    L.append(",\n".join("  ⟨%s, %s, %s, %d, .%s, %s⟩" % (lstr(v), lstr(f), lstr(fn), ln, k, lstr(init)) for v, f, fn, ln, k, init in refs))
    L += ["]", "", "/-- (b) every call of a logging function -/", "def callSites : List CallSite := ["]
    L.append(",\n".join("  ⟨%s, %s, %s, %d, %s, .%s, %s, %d⟩" % (lstr(f), lstr(fn), lstr(cal), ln, lstr(lv), cls, lstr(txt), na)
                         for f, fn, cal, ln, lv, cls, txt, na in calls))
    L += ["]", "", "/-- (c) `logLevels` of %s -/" % hname, "def levels : List (String × Nat) := [%s]" % ", ".join("(%s, %d)" % (lstr(n), v) for n, v in levels), "",
          "/-- (d) variadic functions defined in the library -/",
          "def variadic : List (String × String) := [%s]" % ", ".join("(%s, %s)" % (lstr(f), lstr(fn)) for f, fn, _ in variadic), "",
          "end Lou.Gen.LogSites", ""]
    out = os.path.join(common.LEAN, "LouModel", "Gen", "LogSites.lean")
    os.makedirs(os.path.dirname(out), exist_ok=True)
    text = "\n".join(L)
    if not os.path.exists(out) or open(out).read() != text:
        open(out, "w").write(text)
    return {"refs": len(refs), "calls": len(calls), "variadic": len(variadic)}
