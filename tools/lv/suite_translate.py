"""Shared generator/evaluator for forward and backward translation calls over shipped
tables with trace validation (Layer A tie).  Used by C01 C02 C04 C06 C07 C09 C10."""
import random
from . import common, corpus, trace

MODES_F = [0, 0, 0, 1, 4, 4 | 64, 128, 4 | 128, 1 | 4, 2, 32, 2 | 4]
MODES_B = [0, 0, 4, 4, 256, 4 | 256, 128, 4 | 128, 1]


def caps_for(rng, n):
    """capacities swept around plausible result lengths"""
    return rng.choice([0, 1, 2, max(n - 1, 0), n, n + 1, 2 * n, 2 * n + 3, 32 * n + 256])


def gen_fwd_op(rng, table, inp=None, mode=None, cap=None, argmask=None, cursor=None):
    u = corpus.rand_input(rng) if inp is None else inp
    n = len(u)
    mode = rng.choice(MODES_F) if mode is None else mode
    cap = caps_for(rng, n) if cap is None else cap
    argmask = rng.choice([31, 31, 31, 28, 12, 0, 16, 4, 8, 20, 24, 29, 30]) if argmask is None else argmask
    if cursor is None:
        cursor = rng.randint(0, n - 1) if (n > 0 and (argmask & 16)) else -1
    if not (argmask & 16):
        curs = "-"
    else:
        curs = str(cursor)
    tf = "-"
    if argmask & 1:
        k = rng.random()
        if k < 0.6:
            tfl = [0] * n
        else:
            tfl = [rng.choice([0, 0, 0, 1, 2, 4, 8, 0x10, 0x400, 0x800, 0x1000, 0x2000, 0x8000]) for _ in range(n)]
        tf = common.wide(tfl)
    sp = "-"
    if argmask & 2:
        sp = common.hexbytes(bytes(rng.choice(b"X*012 ") for _ in range(n + 1)))
    return "FWD %s %d %d %s %d %s %s %s" % (corpus.tpath(table), mode, cap, curs, argmask, common.wide(u), tf, sp)


def gen_bwd_op(rng, table, inp, mode=None, cap=None, argmask=None, cursor=None):
    n = len(inp)
    mode = rng.choice(MODES_B) if mode is None else mode
    cap = caps_for(rng, n) if cap is None else cap
    argmask = rng.choice([28, 28, 12, 0, 16, 4, 8, 31, 31, 29, 30, 3]) if argmask is None else argmask
    if cursor is None:
        cursor = rng.randint(0, n - 1) if (n > 0 and (argmask & 16)) else -1
    curs = str(cursor) if (argmask & 16) else "-"
    # back-translation: typeform and spacing are output arrays of outlen elements (the harness allocates exactly that)
    tf = common.wide([0]) if (argmask & 1) else "-"
    sp = common.hexbytes(b"*") if (argmask & 2) else "-"
    return "BWD %s %d %d %s %d %s %s %s" % (corpus.tpath(table), mode, cap, curs, argmask, common.wide(inp), tf, sp)


class Call:
    def __init__(self, case, idx, op, line):
        self.case, self.idx, self.op, self.line = case, idx, op, line
        self.R = common.parse_R(line) if line else None
        self.trace_ok = None
        self.trace_detail = ""
        self.eok = None
        self.nn = None
        self.failed = ""


def run_and_trace(exe, cases, setup_trace=True, validate=True, timeout=180, leak=False, batch=8):
    """run cases; returns list of Call for every op that produced an R line"""
    common.run_cases(exe, cases, batch=batch, timeout=timeout, leak=leak)
    calls = []
    for c in cases:
        for i, op in enumerate(c.ops):
            if not (op.startswith("FWD ") or op.startswith("BWD ")):
                continue
            line = c.out[i] if i < len(c.out) else None
            calls.append(Call(c, i, op, line))
    if validate:
        todo = [k for k in calls if k.R is not None and k.R["passes"] and "ti" in k.R]
        lines = [trace.trace_line(k.op, k.R) for k in todo]
        if lines:
            out = common.run_model(lines)
            for k, m in zip(todo, out):
                k.trace_ok, k.trace_detail, k.eok, k.nn, k.failed = trace.compare(k.op, k.R, m)
    return calls


def std_cases(rng, tables, n_per_table, exact=False, budget=0, back=True, tag="t"):
    """for each table: forward ops on random inputs, then backward ops built from
    typical braille.  Phase-2 (backward on real forward output) is done by callers that need it."""
    cases = []
    for ti, t in enumerate(tables):
        setup = ["HOOK trace 1"]
        if exact:
            setup.append("HOOK exact 1")
        if budget:
            setup.append("HOOK budget %d" % budget)
        ops = []
        for _ in range(n_per_table):
            ops.append(gen_fwd_op(rng, t))
        if back:
            for _ in range(max(1, n_per_table // 2)):
                dots = rng.random() < 0.5
                mode = rng.choice([4, 4 | 256, 4 | 128]) if dots else rng.choice([0, 256, 128, 1])
                inp = corpus.rand_braille(rng, dots_io=dots) if (dots or rng.random() < 0.5) else \
                    [rng.choice(b" abcdefghijklmnopqrstuvwxyz,;:.!?'-0123456789#^_\"") for _ in range(rng.randint(1, 24))]
                ops.append(gen_bwd_op(rng, t, inp, mode=mode))
        cases.append(common.Case("%s%d" % (tag, ti), setup, ops, {"table": t}))
    return cases


# ---------------------------------------------------------------------------------------------
# wide generated tables (gen_features.py): every opcode family with operands of unusual shapes,
# inputs built from the rules' own strings, emphasis typeforms, capacity sweeps
def wide_cases(rng, ntab, per_table=8, back=True, exact=True, budget=0, tag="w", modes_f=None, modes_b=None, argmasks=None, groupreplace=False):
    from . import gen_features as GF
    cases = []
    for i in range(ntab):
        w = GF.gen(rng, groupreplace=groupreplace)
        tn = "%s%d.ctb" % (tag, i)
        setup = ["HOOK trace 1"]
        if exact:
            setup.append("HOOK exact 1")
        if budget:
            setup.append("HOOK budget %d" % budget)
        setup.append("TBL %s %s" % (tn, common.hexbytes(w.text)))
        ops = []
        for _ in range(per_table):
            u = GF.text_for(rng, w)
            n = len(u)
            mode = rng.choice(modes_f or [0, 0, 0, 4, 4, 1, 4 | 64, 128, 4 | 128, 2, 32, 2 | 4, 64])
            am = rng.choice(argmasks or [31, 31, 29, 28, 12, 0, 16, 1, 5, 20])
            caps = [32 * n + 256] + [rng.randint(0, 3 * n + 3) for _ in range(3)]
            tfl = GF.typeform_for(rng, w, n)
            for cap in caps:
                op = gen_fwd_op(rng, tn, inp=u, mode=mode, cap=cap, argmask=am)
                tt = op.split(" ")
                tt[1] = tn
                if am & 1:
                    tt[7] = common.wide(tfl)
                ops.append(" ".join(tt))
        if back:
            for _ in range(max(1, per_table // 2)):
                u = GF.cells_for(rng, w)
                n = len(u)
                mode = rng.choice(modes_b or [4, 4, 4 | 256, 4 | 128, 4 | 1])
                caps = [32 * n + 256] + [rng.randint(0, 3 * n + 3) for _ in range(2)]
                for cap in caps:
                    op = gen_bwd_op(rng, tn, u, mode=mode, cap=cap)
                    tt = op.split(" ")
                    tt[1] = tn
                    ops.append(" ".join(tt))
        cases.append(common.Case("%s%d" % (tag, i), setup, ops, {"table": tn, "kind": "wide", "text": w.text,
                                                                  "features": sorted(w.features)}))
    return cases


# ---------------------------------------------------------------------------------------------
# whole calls computed by the model alone (LouModel/Engine.lean: driver model + main-pass model F0 + stage models):
# composite generated tables (translation rules of F0 between correct and pass2-4 stages of the literal fragment),
# all argument combinations, capacities from 0 up; nothing is taken from a trace.

def pass_literals(t):
    """the literals of a generated table's multipass rules, as characters and as cells (through the one-to-one part of
    the table): inputs built from them make the rules fire in both directions"""
    import re
    inv = {cell: ch for ch, cell in t.charcell.items()}
    lit_c, lit_d = [], []
    for r in t.rules:
        if r.test is None:
            continue
        # the whole test as one string (context, bracket content and what follows, in order): the rule then matches
        whole_c, whole_d, okc, okd = [], [], True, True
        for mm in re.finditer(r'"([^"]*)"|@([0-9a-f-]+)', r.test):
            if mm.group(1) is not None:
                cs = [ord(x) for x in mm.group(1)]
                okd = okd and all(x in t.charcell for x in cs)
                whole_c += cs; whole_d += [t.charcell.get(x, 0) for x in cs]
            else:
                ds = [sum(1 << "123456789abcdef".index(d) for d in cell if d != "0") for cell in mm.group(2).split("-")]
                okc = okc and all(d in inv for d in ds)
                whole_d += ds; whole_c += [inv.get(d, 0) for d in ds]
        if len(whole_c) > 1 and okc and okd:
            lit_c.append(whole_c); lit_d.append(whole_d)
        for mm in re.finditer(r'"([^"]*)"|@([0-9a-f-]+)', r.test + " " + (r.action or "")):
            if mm.group(1) is not None:
                cs = [ord(x) for x in mm.group(1)]
                if cs and all(x in t.charcell for x in cs):
                    lit_c.append(cs); lit_d.append([t.charcell[x] for x in cs])
            else:
                ds = [sum(1 << "123456789abcdef".index(d) for d in cell if d != "0") for cell in mm.group(2).split("-")]
                if ds and all(d in inv for d in ds):
                    lit_d.append(ds); lit_c.append([inv[d] for d in ds])
    return lit_c, lit_d


def composite_cases(rng, ntab, per_table=8, tag="wc", argmasks=None, modes_f=(4, 4, 0, 4 | 128), modes_b=(4, 4, 4 | 128), exact=False):
    from . import gen_table as G
    cases = []
    for i in range(ntab):
        t = G.gen_table(rng, "composite" if i % 4 else "f0", per_stage=(0, 2), biased=(i % 2 == 0), context=(i % 3 == 1),
                         caps=(i % 5 == 2))
        tn = "%s%d.ctb" % (tag, i)
        ops = ["DUMP %s" % tn]
        lit_c, lit_d = pass_literals(t)

        def mix(lits, rnd):
            u = []
            while len(u) < 10 and rng.random() < 0.85:
                u += list(rng.choice(lits)) if (lits and rng.random() < 0.6) else rnd()
            return u[:12]
        if i % 3 == 0:
            # a call that leaves type information behind (no_contract / no_translate bits on a long text): it is not
            # compared with the model (which knows plain text only), but whatever it leaves in the library's scratch
            # memory must not reach the calls after it (F36; seeded change C10-E)
            cs = [c for c in t.chars() if c != 0x20] or [0x61]
            pol = [rng.choice(cs) for _ in range(40)]
            ops.append("FWD %s 0 200 - 1 %s %s -" % (tn, common.wide(pol), common.wide([rng.choice([0x1000, 0x1000, 0x0800])] * 40)))
        # a literal of a (lengthening) correct rule several times over: the text the main pass sees is then much longer than
        # what the caller passed
        reps = [l for l in lit_c if l]
        if reps:
            lr = (list(rng.choice(reps)) * 8)[:24]
            ops.append("FWD %s %d %d - 12 %s - -" % (tn, rng.choice(modes_f), 8 * len(lr) + 40, common.wide(lr)))
        for _ in range(per_table):
            u = [c for c in mix(lit_c, lambda: (G.rand_text_rules(rng, t, 4) if rng.random() < 0.5 else G.rand_text(rng, t, 3, undefined=0.04))) if c]
            n = len(u)
            am = rng.choice(argmasks or [0, 12, 28, 28, 20, 24, 4, 8, 29, 30, 31])
            if n == 0:
                am &= ~16
            cap = rng.choice([n, n + 1, 2 * n + 2, 40, 3, 1, 0, max(0, n - 1)])
            cur = str(rng.randint(0, n - 1)) if am & 16 else "-"
            tf = common.wide([0] * n) if am & 1 else "-"
            sp = common.hexbytes(bytes(rng.choice(b"*012 ") for _ in range(n + 1))) if am & 2 else "-"
            ops.append("FWD %s %d %d %s %d %s %s %s" % (tn, rng.choice(modes_f), cap, cur, am, common.wide(u), tf, sp))
            c = [0x8000 | (x & 0x7fff) for x in mix(lit_d, lambda: [x & 0x7fff for x in G.rand_cells(rng, t, 3, undefined=0.04)])]
            n = len(c)
            amb = am & ~3            # (typeform/spacing are output arrays in back-translation; covered elsewhere)
            if n == 0:
                amb &= ~16
            cur = str(rng.randint(0, n - 1)) if amb & 16 else "-"
            cap = rng.choice([n, n + 1, 2 * n + 2, 40, 3, 1, 0])
            ops.append("BWD %s %d %d %s %d %s - -" % (tn, rng.choice(modes_b), cap, cur, amb, common.wide(c)))
        cases.append(common.Case("%s%d" % (tag, i), ["HOOK trace 1", "HOOK budget 400000"] + (["HOOK exact 1"] if exact else []) +
                                 ["TBL %s %s" % (tn, common.hexbytes(t.text()))], ops,
                                 {"tn": tn, "text": t.text(), "whole": True}))
    return cases


def compare_whole(calls, dist=None):
    """for the calls of composite_cases (after run_and_trace): ask the model for the whole call and compare.
    Returns the list of disagreements (strings)."""
    lines, tags = [], []
    loaded = set()
    for k in calls:
        c = k.case
        if not c.meta.get("whole") or k.R is None or "ti" not in k.R or c.fault or not c.out or c.out[0].startswith("T null"):
            continue
        if c.id not in loaded:
            loaded.add(c.id)
            lines.append("LOADTABLE %s %s" % (c.meta["tn"], c.out[0].rsplit(" e=", 1)[0])); tags.append(None)
        t_ = k.op.split(" ")
        if (int(t_[5]) & 1) and t_[7] != "-" and any(common.unwide(t_[7])):
            continue            # a call with type information: outside the model (see composite_cases)
        lines.append(" ".join(["MCALL", "B" if t_[0] == "BWD" else "F", c.meta["tn"], t_[2], t_[3], t_[4], str(int(t_[5]) & 31),
                               t_[6], t_[7] if (int(t_[5]) & 1) else "-", k.R.get("disp", ".")]))
        tags.append(k)
    out = common.run_model(lines, timeout=900) if lines else []
    bad = []
    d = dist if dist is not None else {}
    for k, m in zip(tags, out):
        if k is None:
            continue
        if m.startswith("UNSUPPORTED") or m == "BADOP":
            d["whole_unsupported"] = d.get("whole_unsupported", 0) + 1
            why = d.setdefault("whole_unsupported_why", {})
            w = m[len("UNSUPPORTED"):].strip()[:60] or m
            why[w] = why.get(w, 0) + 1
            continue
        d["whole_calls_compared"] = d.get("whole_calls_compared", 0) + 1
        if len(k.R["passes"]) > 1:
            d["whole_multistage"] = d.get("whole_multistage", 0) + 1
        if k.R["ret"] and k.R["inlen"] < len(common.unwide(k.op.split(" ")[6])):
            d["whole_truncated"] = d.get("whole_truncated", 0) + 1
        ok, detail, _e, _n, _f = trace.compare(k.op, k.R, m)
        k.whole_ok = ok
        if ok is False:
            bad.append("whole call %s\n%s\n%s" % (k.op[:200], detail[:1500], k.case.meta["text"][:800]))
    return bad
