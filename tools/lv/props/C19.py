"""C19 — log filtering only filters."""
import os, random, shutil, tempfile
from .. import common

THEOREMS = [
    "Lou.C19.emit_events", "Lou.C19.delivered_iff", "Lou.C19.emit_keeps_control",
    "Lou.C19.default_is_info", "Lou.C19.default_threshold_behaviour",
    "Lou.C19.off_delivers_nothing", "Lou.C19.off_passes_level_off",
    "Lou.C19.null_restores", "Lou.C19.null_in_initial_state_is_identity", "Lou.C19.register_takes_over",
    "Lou.C19.filter_monotone", "Lou.C19.filter_monotone_callback", "Lou.C19.raise_sublist",
    "Lou.C19.levels_match", "Lou.C19.logLevel_read_only_in_logMessage", "Lou.C19.callback_sites",
    "Lou.C19.formats_are_literals", "Lou.C19.default_sink_passes_message_as_argument",
    "Lou.C19.call_levels_below_off",
]

CLAIM = dict(
    text=("Kernel-checked theorems (LouProofs/C19.lean) over a transcription of logging.c as a state machine, for ALL "
          "operation sequences: a registered callback receives a message iff level >= threshold, the stream delivered at a "
          "higher threshold is the stream of a lower one filtered (same sinks, levels, texts, order; in general a sublist), "
          "OFF delivers nothing for levels below OFF, NULL restores the default sink, the initial threshold is INFO. "
          "Source inventory regenerated from /repo on every run and closed by decide: logLevel is read only in "
          "_lou_logMessage and written only in lou_setLogLevel, all 200+ logging calls pass a literal format, the default "
          "sink passes the message as a %s argument, no call site uses a level >= OFF. Tied to the code by running the same "
          "scripts (good/bad/missing tables, invalid modes, missing display mapping, '%' in names and rules, messages at all "
          "seven levels, register/NULL/log-file sequences) at every threshold in fresh processes: the property's clauses are "
          "evaluated on the callback stream and on the log file, and the Lean logger fed the stream seen at threshold ALL "
          "must predict callback stream and file contents at every other threshold."),
    note=("LOU_LOG_FATAL cannot be provoked from the library without exhausting memory; it and level OFF are exercised "
          "through _lou_logMessage directly. lou_logFile while the default stream is stderr closes stderr (outside the model)."),
    technique="Lean 4 proof over a logger state machine + decide over a generated source inventory + differential/oracle runs at all thresholds",
    design="DESIGN.md §7 C19")

LEVELS = [0, 10000, 20000, 30000, 40000, 50000, 60000]
PCT_NAME = "pct%s%n%d.ctb"
PCT_RULE = "%s%n%x"


def hx(s):
    return common.hexbytes(s)


def write_tables(R):
    files = {
        "good.ctb": "sign a 1\nsign b 12\nspace \\s 0\n",
        "bad.ctb": "sign a 1\nfrobnicate x 1\nsign ab 1\n",
        "warn.ctb": "locale en\nsign a 1\n",
        "disp.dis": "display a 1\n",
        "meta.ctb": "#+language:xx\n#+type:literary\nsign a 1\n",
        PCT_NAME: "sign a 1\n%s x 1\n" % PCT_RULE,
        "incl.ctb": "include nothere%s.cti\n",
    }
    for n, c in files.items():
        open(os.path.join(R, n), "w").write(c)
    os.makedirs(os.path.join(R, "idx"))      # what an un-indexed lou_findTable scans
    open(os.path.join(R, "idx", "meta2.ctb"), "w").write("#+language:yy\n#+type:literary\nsign a 1\n")


def pool():
    return [
        "CHK good.ctb", "GET good.ctb", "FWD good.ctb 0 10 - 0 00610062 - -", "BWD good.ctb 0 10 - 0 0061 - -",
        "CHK bad.ctb", "GET missing.ctb", "FWD good.ctb 8 10 - 0 0061 - -", "FWD good.ctb 1024 10 - 0 0061 - -",
        "FWD good.ctb 0 10 - 256 00610062 - - disp.dis", "CHK " + PCT_NAME, "CHK warn.ctb", "CHK incl.ctb",
        "RESOLVE good.ctb -", "RESOLVE nope%d.ctb -", "INDEX good.ctb meta.ctb",
        "FIND " + hx("language:xx"), "FIND " + hx("language:zz"),
        "LOGMSG 0 " + hx("all %s"), "LOGMSG 10000 " + hx("debug %n"), "LOGMSG 20000 " + hx("info 100%"),
        "LOGMSG 30000 " + hx("warn %d%d%d"), "LOGMSG 40000 " + hx("error %%"), "LOGMSG 50000 " + hx("fatal %s%n"),
    ] + [
        # a ladder of message lengths around the sizes a formatting buffer would grow by (a message exactly as long as
        # such a buffer, after a longer one that was delivered or filtered, must still arrive whole)
        "LOGMSG %d %s" % (lv, hx(("L%03d-" % n + "x" * 400)[:n])) for lv, n in
        [(10000, 86), (40000, 63), (40000, 64), (30000, 65), (40000, 127), (50000, 128), (10000, 129), (40000, 192), (40000, 256), (30000, 255)]
    ]


def parse_log(line):
    """messages the harness callback recorded during one op: [(level, bytes)] or None"""
    if " | LOG" not in line:
        return None
    seg = line.split(" | LOG", 1)[1].split(" | ")[0].split()
    out = []
    for m in seg:
        if m == ".":
            continue
        lv, _, h = m.partition(":")
        out.append((int(lv), common.unhexbytes(h)))
    return out


class Seq:
    """a script: items are ('op', line) | ('cb', on|null|off) | ('file', key|None) | ('end',) | ('free',) | ('level', n)"""
    def __init__(self, sid, items, varying=False):
        self.id = sid
        self.items = items
        self.varying = varying

    def lines(self, R, tag, threshold, reference=False):
        """threshold None = no LOGLEVEL op (default).  reference: callback stays on, threshold ALL throughout"""
        L = ["CWD " + R, "ENV LOUIS_TABLEPATH " + hx(R + "/idx"), "LOGDUMP 1"]
        if reference:
            L.append("LOGLEVEL 0")
        elif threshold is not None:
            L.append("LOGLEVEL %d" % threshold)
        for it in self.items:
            if it[0] == "op":
                L.append(it[1])
            elif it[0] == "free":
                L.append("FREE")
            elif reference:
                continue
            elif it[0] == "cb":
                L.append("LOGCB " + it[1])
            elif it[0] == "file":
                L.append("LOGFILE " + (self.fname(R, tag, it[1]) if it[1] else "-"))
            elif it[0] == "end":
                L.append("LOGEND")
            elif it[0] == "level":
                L.append("LOGLEVEL %d" % it[1])
        if not reference:
            L += ["LOGCB on", "LOGEND", "READFILE " + self.fname(R, tag, "A"), "READFILE " + self.fname(R, tag, "B")]
        return L

    def fname(self, R, tag, key):
        return "%s/log-%s-%s-%s.txt" % (R, self.id, tag, key)


def gen_seq(rng, sid, style):
    P = pool()
    rng.shuffle(P)
    if style == "on":
        return Seq(sid, [("op", p) for p in P])
    if style == "null":
        return Seq(sid, [("file", "A"), ("cb", "null")] + [("op", p) for p in P])
    items = [("file", "A")]
    for p in P + rng.sample(P, 6):
        r = rng.random()
        if r < 0.30:
            items.append(rng.choice([("cb", "on"), ("cb", "null"), ("cb", "off"), ("cb", "null"), ("file", "A"), ("file", "B"),
                                     ("file", None), ("end",), ("free",)]))
        if style == "varying" and rng.random() < 0.15:
            items.append(("level", rng.choice(LEVELS)))
        items.append(("op", p))
    return Seq(sid, items, varying=(style == "varying"))


def run(tier):
    v = common.Verdict("C19", tier)
    rng = random.Random(common.seed() * 1000003 + 19)
    common.lean_obligations(v, THEOREMS)
    try:
        exe = common.build_harness()
        v.obligation("harness builds from /repo working tree (hooks on, ASan+UBSan)", True)
    except common.BuildError as e:
        v.obligation("harness builds from /repo working tree (hooks on, ASan+UBSan)", False, str(e)[-2000:])
        return v.finish()
    R = tempfile.mkdtemp(prefix="c19-", dir=common.scratch_root())
    try:
        return _run(v, rng, exe, R, tier)
    finally:
        shutil.rmtree(R, ignore_errors=True)


def _run(v, rng, exe, R, tier):
    write_tables(R)
    nrand = 6 if tier == "quick" else 400
    seqs = [gen_seq(rng, "on", "on"), gen_seq(rng, "null", "null")]
    seqs += [gen_seq(rng, "r%d" % i, "toggle") for i in range(nrand)]
    seqs += [gen_seq(rng, "v%d" % i, "varying") for i in range(nrand // 2)]
    cases = {}
    allc = []
    for s in seqs:
        runs = [("ref", None, True)]
        if s.varying:
            runs.append(("var", None, False))
        else:
            runs += [("t%d" % t, t, False) for t in LEVELS] + [("dflt", None, False)]
        for tag, t, ref in runs:
            c = common.Case("%s.%s" % (s.id, tag), [], s.lines(R, tag, t, ref), {"seq": s.id, "tag": tag})
            cases[(s.id, tag)] = c
            allc.append(c)
    common.run_cases(exe, allc, batch=1, timeout=300)

    dist = {"runs": len(allc), "sequences": len(seqs), "messages_by_level": {}, "callback_msgs": 0, "file_lines": 0,
            "ops_in_null_phase": 0}
    mlines, mref = [], []
    bad_runs = []

    def replay(s, tag, t, ref=False):
        return {"root": R, "tables": "see tools/lv/props/C19.py:write_tables", "script": s.lines(R, tag, t, ref)}

    def collect(c, s, reference):
        """per item index -> list of messages the callback saw; plus file contents"""
        if c.fault or len(c.out) != len(c.ops):
            return None
        per, files = {}, {}
        k = 3 + (1 if (reference or c.meta["tag"].startswith("t")) else 0)
        for i, it in enumerate(s.items):
            if reference and it[0] not in ("op", "free"):
                continue
            line = c.out[k]
            k += 1
            if it[0] == "op":
                m = parse_log(line)
                if m is None:
                    return None
                per[i] = m
        if not reference:
            for key, line in zip("AB", c.out[-2:]):
                if not line.startswith("RF "):
                    return None
                files[key] = None if line == "RF null" else common.unhexbytes(line[3:])
        return per, files

    for s in seqs:
        cref = cases[(s.id, "ref")]
        ref = collect(cref, s, True)
        if ref is None:
            bad_runs.append("%s.ref: %s" % (s.id, cref.fault or "incomplete"))
            if cref.fault:
                v.violation("C19:fault:%s" % cref.fault["kind"], "harness died in %s.ref: %s %s" % (s.id, cref.fault["kind"], cref.fault["frame"]),
                            replay(s, "ref", None, True))
            continue
        refmsgs = ref[0]
        for i, ms in refmsgs.items():
            for lv, _ in ms:
                dist["messages_by_level"][str(lv)] = dist["messages_by_level"].get(str(lv), 0) + 1
        # (vi) caller text verbatim, in the full stream
        for i, it in enumerate(s.items):
            if it[0] != "op":
                continue
            texts = [t for _, t in refmsgs[i]]
            want = []
            if it[1] == "CHK " + PCT_NAME and any(refmsgs[i]):
                want = [PCT_NAME.encode() + b":2: error: opcode '" + PCT_RULE.encode() + b"' not defined.",
                        b"found table " + PCT_NAME.encode()]
            elif it[1].startswith("RESOLVE nope%d"):
                want = [b"Cannot resolve table 'nope%d.ctb'"]
            elif it[1] == "CHK incl.ctb" and any(refmsgs[i]):
                want = [b"Cannot resolve table 'nothere%s.cti'"]
            elif it[1].startswith("LOGMSG "):
                want = [common.unhexbytes(it[1].split(" ")[2])]
            for w in want:
                v.cov["evaluations"] += 1
                if w not in texts:
                    v.violation("C19:percent-not-verbatim", "%s: op '%s' should log %r verbatim, got %r" % (s.id, it[1][:60], w, texts[:6]),
                                replay(s, "ref", None, True))
        streams = {}
        for tag in (["var"] if s.varying else ["t%d" % t for t in LEVELS] + ["dflt"]):
            c = cases[(s.id, tag)]
            t0 = None if tag in ("dflt", "var") else int(tag[1:])
            got = collect(c, s, False)
            if got is None:
                bad_runs.append("%s.%s: %s" % (s.id, tag, c.fault or "incomplete"))
                if c.fault:
                    v.violation("C19:fault:%s" % c.fault["kind"], "harness died in %s.%s: %s %s" % (s.id, tag, c.fault["kind"], c.fault["frame"]),
                                replay(s, tag, t0))
                continue
            per, files = got
            streams[tag] = (per, files)
            # walk the script: registration and threshold in force
            cb, thr = True, (20000 if t0 is None else t0)
            exp_file_lines = []
            mops = ["L:%d" % thr] if t0 is not None else []
            for i, it in enumerate(s.items):
                if it[0] == "cb":
                    cb = it[1] == "on"
                    mops.append("C:on" if cb else "C:null")
                elif it[0] == "level":
                    thr = it[1]
                    mops.append("L:%d" % thr)
                elif it[0] == "file":
                    mops.append("F:" + (hx(s.fname(R, tag, it[1])) if it[1] else "null"))
                elif it[0] in ("end", "free"):
                    mops.append("X")
                elif it[0] == "op":
                    full = refmsgs[i]
                    mops += ["E:%d:%s" % (lv, tx.hex() or "-") for lv, tx in full]
                    want = [m for m in full if m[0] >= thr]
                    gotm = per[i]
                    v.cov["evaluations"] += 1
                    dist["callback_msgs"] += len(gotm)
                    # (i) nothing below the threshold
                    if any(lv < thr for lv, _ in gotm):
                        v.violation("C19:below-threshold:%d" % thr, "%s.%s: op '%s' delivered %r at threshold %d" % (
                            s.id, tag, it[1][:60], [m for m in gotm if m[0] < thr][:3], thr), replay(s, tag, t0))
                    if thr == 60000 and gotm and all(lv < 60000 for lv, _ in full):
                        v.violation("C19:off-delivers", "%s.%s: op '%s' delivered %r at OFF" % (s.id, tag, it[1][:60], gotm[:3]), replay(s, tag, t0))
                    if cb:
                        # iff: exactly the messages of the full stream at or above the threshold, same text, same order
                        if gotm != want:
                            v.violation("C19:iff:%d" % thr, "%s.%s: op '%s' at threshold %d: callback got %r, the full stream filtered is %r" % (
                                s.id, tag, it[1][:60], thr, gotm[:4], want[:4]), replay(s, tag, t0))
                    else:
                        dist["ops_in_null_phase"] += 1
                        # (v) NULL: the callback gets nothing, the default sink gets the text
                        if gotm:
                            v.violation("C19:null-callback-still-called", "%s.%s: op '%s' after LOGCB null reached the callback: %r" % (
                                s.id, tag, it[1][:60], gotm[:3]), replay(s, tag, t0))
                        exp_file_lines += [tx for _, tx in want]
            mops += ["C:on", "X"]
            mlines.append("MLOG on " + " ".join(mops))
            mref.append((s, tag, t0, per, files))
            # (v) default sink: every expected line is in a log file, nothing else is, order kept per file
            got_lines = []
            for key in "AB":
                if files[key]:
                    if not files[key].endswith(b"\n"):
                        v.violation("C19:default-sink-format", "%s.%s: log file %s does not end in a newline" % (s.id, tag, key), replay(s, tag, t0))
                    got_lines.append(files[key].split(b"\n")[:-1])
                else:
                    got_lines.append([])
            dist["file_lines"] += sum(len(g) for g in got_lines)
            if sorted(got_lines[0] + got_lines[1]) != sorted(exp_file_lines):
                missing = [l for l in exp_file_lines if l not in got_lines[0] + got_lines[1]]
                extra = [l for l in got_lines[0] + got_lines[1] if l not in exp_file_lines]
                v.violation("C19:default-sink:%s" % ("missing" if missing else "extra"),
                            "%s.%s: default sink after LOGCB null: missing %r, unexpected %r" % (s.id, tag, missing[:3], extra[:3]), replay(s, tag, t0))
            else:
                for g in got_lines:
                    it2 = iter(exp_file_lines)
                    if not all(any(x == y for y in it2) for x in g):
                        v.violation("C19:default-sink:order", "%s.%s: lines of a log file are not in emission order" % (s.id, tag), replay(s, tag, t0))
        if s.varying:
            continue
        # (ii) for every pair t1 <= t2: stream at t2 == stream at t1 filtered, per op, callback and file
        for a in range(len(LEVELS)):
            for b in range(a, len(LEVELS)):
                t1, t2 = LEVELS[a], LEVELS[b]
                if "t%d" % t1 not in streams or "t%d" % t2 not in streams:
                    continue
                p1, f1 = streams["t%d" % t1]
                p2, f2 = streams["t%d" % t2]
                v.cov["evaluations"] += 1
                v._distinct.add((s.id, t1, t2))
                for i in p1:
                    if p2[i] != [m for m in p1[i] if m[0] >= t2]:
                        v.violation("C19:filter-mismatch:%d-%d" % (t1, t2), "%s: op '%s': delivered at %d: %r; at %d: %r" % (
                            s.id, s.items[i][1][:60], t1, p1[i][:4], t2, p2[i][:4]), replay(s, "t%d" % t2, t2))
                        break
                for key in "AB":
                    l1 = (f1[key] or b"").split(b"\n")
                    l2 = (f2[key] or b"").split(b"\n")
                    it2 = iter(l1)
                    if not all(any(x == y for y in it2) for x in l2):
                        v.violation("C19:filter-mismatch-file:%d-%d" % (t1, t2), "%s: log file %s at %d is not a subsequence of the one at %d" % (
                            s.id, key, t2, t1), replay(s, "t%d" % t2, t2))
        # (iv) default threshold is INFO
        if "dflt" in streams and "t20000" in streams:
            v.cov["evaluations"] += 1
            if streams["dflt"] != streams["t20000"]:
                v.violation("C19:default-not-info", "%s: run without lou_setLogLevel differs from the run at INFO" % s.id, replay(s, "dflt", None))
        # (iii) OFF
        if "t60000" in streams:
            p, f = streams["t60000"]
            v.cov["evaluations"] += 1
            leaked = [(s.items[i][1][:40], m) for i, ms in p.items() for m in ms if m[0] < 60000]
            if leaked or any(f[k] for k in "AB"):
                v.violation("C19:off-delivers", "%s: at OFF: callback %r, files %r" % (s.id, leaked[:3], {k: (f[k] or b"")[:80] for k in "AB"}),
                            replay(s, "t60000", 60000))
    # ---- model differential
    mout = common.run_model(mlines)
    corr_bad = []
    for (s, tag, t0, per, files), line in zip(mref, mout):
        if not line.startswith("ML"):
            corr_bad.append("%s.%s: model answered %s" % (s.id, tag, line[:80]))
            continue
        evs = [] if line == "ML ." else line[3:].split(" ")
        mcb = [(int(e.split(":")[1]), common.unhexbytes(e.split(":")[2])) for e in evs if e.startswith("cb:")]
        mfiles = {}
        for e in evs:
            if e.startswith("file:"):
                _, fn, tx = e.split(":")
                mfiles.setdefault(common.unhexbytes(fn).decode(), []).append(common.unhexbytes(tx) + b"\n")
            elif e.startswith("err:"):
                corr_bad.append("%s.%s: model sends a message to stderr" % (s.id, tag))
        icb = [m for i in sorted(per) for m in per[i]]
        if icb != mcb:
            corr_bad.append("%s.%s: callback stream: impl %d msgs, model %d msgs; first difference %r" % (
                s.id, tag, len(icb), len(mcb), next(((a, b) for a, b in zip(icb + [None], mcb + [None]) if a != b), None)))
        for key in "AB":
            want = b"".join(mfiles.get(s.fname(R, tag, key), []))
            if (files[key] or b"") != want:
                corr_bad.append("%s.%s: log file %s: impl %r model %r" % (s.id, tag, key, (files[key] or b"")[:120], want[:120]))
    v.obligation("correspondence: Lean logger fed the threshold-ALL stream predicts callback stream and log files of every run (%d runs)" % len(mref),
                 not corr_bad, "; ".join(corr_bad[:4]))
    v.obligation("all runs completed (%d)" % len(allc), not bad_runs, "; ".join(str(b) for b in bad_runs[:4]))
    # every level that can be produced was produced
    for lv in ("0", "10000", "20000", "30000", "40000", "50000"):
        if dist["messages_by_level"].get(lv, 0) == 0:
            v.obligation("op pool produces messages at level %s" % lv, False, "none seen")
    # ---- probe, recorded only: lou_logFile while the default stream is stderr closes stderr (outside the model)
    L = ["CWD " + R, "LOGCB null", "LOGMSG 40000 " + hx("one"), "LOGFILE /nonexistent-dir/q.txt", "LOGMSG 40000 " + hx("two")]
    pr = common.run_harness(exe, L, R)
    if "one" in pr.stderr and "two" not in pr.stderr:
        v.notes.append("probe (not part of the oracle): after a message went to stderr, lou_logFile(<unopenable>) does fclose(stderr); "
                       "the following message 'two' never reaches stderr. script: %s" % L)
    for s in seqs[:3]:
        c = cases.get((s.id, "t30000")) or cases.get((s.id, "var"))
        if c and c.out:
            v.sample({"script": s.id, "run": c.meta["tag"], "first_ops": [(o[:50], l[:160]) for o, l in list(zip(c.ops, c.out))[3:9]]})
    v.cov["distribution"] = dist
    v.cov["rule"] = ("%d scripts (shuffled pool of %d message-producing operations, with random LOGCB on/null/off, LOGFILE a/b/NULL, LOGEND, "
                     "FREE in between) x 7 thresholds + default + reference at ALL, each in a fresh process; evaluations = per-op iff checks, "
                     "pairwise t1<=t2 comparisons, default/OFF checks, verbatim checks; distinct = (script, t1, t2) pairs"
                     % (len(seqs), len(pool())))
    v.assumptions += ["FATAL and OFF-level messages are injected through _lou_logMessage (LOGMSG), the library cannot be made to emit them",
                      "log files can be opened; lou_logFile while the stream is stderr (fclose(stderr)) is not exercised",
                      "message generation is the same in every process for the same script (checked: reference vs t0 run)"]
    return v.finish()
