"""C14 — table cache and lou_free: compile once, isolate lists, release everything."""
import itertools, random, re
from .. import common

THEOREMS = [
    "Lou.Cache.cache_lookup_eq", "Lou.Cache.lookup_perm", "Lou.Cache.compile_once", "Lou.Cache.compile_once_public",
    "Lou.Cache.failed_compile_repeats", "Lou.Cache.failed_never_cached", "Lou.Cache.roles_compiled_separately",
    "Lou.Cache.getTable_tr_cached", "Lou.Cache.cache_isolation", "Lou.Cache.tables_distinct",
    "Lou.Cache.added_targets_own_table", "Lou.Cache.free_resets", "Lou.Cache.fresh_after_free",
    "Lou.Cache.ledger_consistent", "Lou.Cache.ledger_empty",
]

CLAIM = dict(
    text=("Kernel-checked theorems (LouProofs/C14.lean) over a transcription of getTable / _lou_getTable / lou_getTable / "
          "_lou_getTranslationTable / _lou_getDisplayTable / lou_compileString / the realloc fix-up of "
          "allocateSpaceInTranslationTable / compileTable's allocate-or-free / lou_free / the two string-buffer-pool headers as "
          "a state machine (two chains, allocator of LouModel/Alloc, ghost allocation ledger and compile log), for ALL "
          "operation histories and ALL file systems (compile oracle as a parameter): a lookup matches the whole name only "
          "(never a prefix); move-to-front permutes the chain; per role the number of successful compilations of a list "
          "since the last lou_free equals 'is cached' (<= 1); for histories of the public both-role calls a list that "
          "compiles has its files read by at most one compileTable call; an operation that does not name a list never "
          "changes the table handed out for it, two names never share a table, an added rule lands in the table of the list "
          "it was added to; every malloc'ed block is either reachable from a chain/scratch/pool pointer or freed exactly "
          "once; after lou_free only the two never-freed pool headers remain and every further history returns what it "
          "returns from the initial state and compiles the same lists. Tied to the code in one process per history: "
          "exhaustive op sequences over {GET/FWD/BWD/HYP on A, GET A-prefix, FWD list sharing A's file, GET bad list, "
          "ADD rule to A, FREE} and random histories up to length 200 over 7 lists (prefix name, extension name, shared "
          "file, syntax error, missing file, bad second file) with a --wrap=fopen counter: pointer identities, "
          "lou_compileString results and per-operation file opens predicted by the Lean model, result lines equal to "
          "a fresh process, per-epoch open totals, LeakSanitizer at exit."),
    note=("The property's 'compiled at most once' is false of the code for a FAILED list (never cached: recompiled by every "
          "call; theorem failed_compile_repeats) and across roles (lou_charToDots/lou_dotsToChar compile the display role "
          "only, a later translation reads the files again for the translation role; theorem roles_compiled_separately); "
          "both are stated and proved, the search alphabet of the property (load/translate/back-translate/hyphenate/add/"
          "free) cannot exhibit the second. What a compilation produces (table contents, finalizeTable, rule compilation, "
          "whether a growing table moves) is a parameter of the model; sub-allocations owned by a table (class names, rule "
          "names, source file names) are observed by LeakSanitizer only."),
    technique="Lean 4 proof over a cache/allocator state machine + differential run with fopen counter, pointer ids, fresh-process references, LeakSanitizer",
    design="DESIGN.md §7 C14")

hx = common.hexbytes

LETTERS = "abcdez"
DOTS = {"a": "1", "b": "12", "c": "14", "d": "145", "e": "15", "z": "1356"}


def table_files(p):
    """file name -> content for prefix p.  `a.ct` is a file whose NAME is a prefix of `a.ctb`."""
    base = "".join("sign %s %s\n" % (ch, DOTS[ch]) for ch in LETTERS) + "space \\s 0\n"
    return {
        p + "a.ctb": "include %shy.dic\n" % p + base + "always bc 2356\n",
        p + "hy.dic": "UTF-8\na1b\nb1c\n1d\n",
        p + "a.ct": base.replace("sign a 1\n", "sign a 16\n"),
        p + "b.ctb": "always de 123456\nsign y 13456\nnoback pass2 @123456 @123456-1\nnofor pass2 @123456-1 @123456\n",
        p + "bad.ctb": "sign a 1\nnonsense x 1\nsign b 12\n",
        # a table that includes itself: refused at the nesting limit (C13-F1), after 51 openings; nothing of the failed
        # attempt may linger - a later table with an include (a.ctb) must still load
        p + "self.ctb": "sign a 1\ninclude %sself.ctb\n" % p,
    }


LISTS = {
    "A": "{p}a.ctb", "AP": "{p}a.ct", "AB": "{p}a.ctb,{p}b.ctb", "B2": "{p}a.ct,{p}b.ctb",
    "BAD": "{p}bad.ctb", "MISS": "{p}miss.ctb", "ABAD": "{p}a.ctb,{p}bad.ctb", "SELF": "{p}self.ctb",
    # a resolvable file followed by one that does not exist: the resolver gives up with part of its answer built
    "AMISS": "{p}a.ctb,{p}miss.ctb",
}
GOOD = {"A", "AP", "AB", "B2"}
# the last rule makes a table without a hyphenation dictionary grow by 250000 bytes: the block moves and
# allocateSpaceInTranslationTable has to re-point the chain entry
RULES = ["always ab 1456", "always zz 123456", "sign x 1346", "include {p}hy.dic"]
GROW = 3
INPUTS = ["abz", "bcde zzab", "xaby"]
CELLS = [[0x8001, 0x8003, 0x8035], [0x8026, 0x8011, 0x8000, 0x8039, 0x8021], [0x803f, 0x802d, 0x8001]]
FINALIZING = {"GET", "CHK", "FWD", "BWD", "HYP"}


def lname(L, p):
    return LISTS[L].format(p=p)


def opened_by(L, p):
    """(files one compilation of list L opens, in order; does it succeed).  A missing sub-table makes the
    resolver fail before anything is opened; a bad file stops the compilation after it was opened."""
    subs = lname(L, p).split(",")
    files = table_files(p)
    if any(s not in files for s in subs):
        return [], False
    out = []
    for s in subs:
        out.append(s)
        if s == p + "a.ctb":
            out.append(p + "hy.dic")
        if s == p + "bad.ctb":
            return out, False
        if s == p + "self.ctb":
            return out + [s] * 50, False
    return out, True


def render(op, p):
    k = op[0]
    if k == "FREE":
        return "FREE"
    n = lname(op[1], p)
    if k in ("GET", "CHK"):
        return "%s %s" % (k, n)
    if k == "FWD":      # dotsIO: the cells themselves are the result, so tables that differ give different results
        return "FWD %s 4 40 - 12 %s - -" % (n, common.wide(INPUTS[op[2]]))
    if k == "BWD":
        return "BWD %s 4 40 - 12 %s - -" % (n, common.wide(CELLS[op[2]]))
    if k == "HYP":
        return "HYP %s 0 %s" % (n, common.wide("abcd"))
    if k in ("C2D", "D2C"):
        return "%s %s 0 %s" % (k, n, common.wide("abz") if k == "C2D" else "800180038039")
    if k == "ADD":
        return "ADD %s %s" % (n, hx(RULES[op[2]].format(p=p)))
    raise ValueError(op)


def model_tok(op, p):
    k = op[0]
    if k == "FREE":
        return "F"
    h = hx(lname(op[1], p))
    if k == "GET":
        return "G:" + h
    if k in ("CHK", "HYP"):
        return "H:" + h
    if k in ("FWD", "BWD"):
        return "T:%s:%s" % (h, h)
    if k in ("C2D", "D2C"):
        return "D:" + h
    if k == "ADD":
        return "A:%s:1:%d" % (h, 1 if op[2] == GROW and op[1] in ("AP", "B2") else 0)
    raise ValueError(op)


def make_case(cid, ops, p):
    setup = ["TBL %s %s" % (n, hx(c)) for n, c in sorted(table_files(p).items())] + ["OPENS"]
    lines = []
    for op in ops:
        lines += [render(op, p), "OPENS"]
    lines.append("ENDFREE")
    return common.Case(cid, setup, lines, {"ops": ops, "p": p})


def parse_opens(line):
    d = {}
    if not line.startswith("OP"):
        return None
    for t in line.split()[1:]:
        if t == ".":
            continue
        n, _, c = t.rpartition(":")
        d[n] = int(c)
    return d


def expected_opens(events, p):
    """file -> opens implied by the compile events the MODEL predicts for one op"""
    byhex = {hx(lname(L, p)): L for L in LISTS}
    d = {}

    def add(L):
        fs, ok = opened_by(L, p)
        for f in fs:
            d[f] = d.get(f, 0) + 1
        return ok
    if events == "-":
        return d
    for ev in events.split(","):
        _, t, dd, ok = ev.split(":")
        if t != "-" and t == dd:
            add(byhex[t])
        else:
            if dd != "-":
                if not add(byhex[dd]):
                    continue
            if t != "-":
                add(byhex[t])
    return d


def reference_key(ops, outs, k):
    """the history a fresh process needs so that call k must give the same result: the rules added
    successfully to the same list since the last FREE (plus one use, for an ADD after a use)."""
    op = ops[k]
    L = op[1]
    j = k
    while j > 0 and ops[j - 1][0] != "FREE":
        j -= 1
    adds, used = [], False
    for i in range(j, k):
        o = ops[i]
        if o[0] == "FREE" or o[1] != L:
            continue
        if o[0] == "ADD" and outs[i].startswith("D 1"):
            adds.append(o)
        if o[0] in FINALIZING:
            used = True
    if op[0] == "ADD" and used:
        return tuple(adds) + (("GET", L),) + (op,)
    return tuple(adds) + (op,)


def gen_random(rng, n, public):
    lists = list(LISTS)
    ops = []
    for _ in range(n):
        r = rng.random()
        L = rng.choice(lists if rng.random() < 0.7 else ["A", "AP", "AB"])
        if r < 0.06:
            ops.append(("FREE",))
        elif r < 0.16:
            ops.append(("ADD", L, rng.randrange(len(RULES))))
        elif r < 0.36:
            ops.append(("GET", L))
        elif r < 0.41:
            ops.append(("CHK", L))
        elif r < 0.66:
            ops.append(("FWD", L, rng.randrange(len(INPUTS))))
        elif r < 0.80:
            ops.append(("BWD", L, rng.randrange(len(INPUTS))))
        elif r < 0.88 or public:
            ops.append(("HYP", L))
        else:
            ops.append((rng.choice(["C2D", "D2C"]), L))
    return ops


def gen_growth(rng, n):
    """histories over the good lists only, in which rules (mostly the `include` that makes the table grow by
    250000 bytes) are added before the first use of a list: tables grow and move while other lists are
    cached.  (Before the F7 repair an `include` added after any failed compilation failed; the general
    random histories add it anywhere since.)"""
    ops = []
    fresh = set(GOOD)
    for _ in range(n):
        r = rng.random()
        L = rng.choice(sorted(GOOD))
        if r < 0.08:
            ops.append(("FREE",))
            fresh = set(GOOD)
        elif L in fresh and r < 0.75:
            ops.append(("ADD", L, rng.choice([GROW, GROW, 0, 1, 2])))
        elif r < 0.6:
            ops.append(("GET", L)); fresh.discard(L)
        elif r < 0.8:
            ops.append(("FWD", L, rng.randrange(len(INPUTS)))); fresh.discard(L)
        elif r < 0.9:
            ops.append(("BWD", L, rng.randrange(len(INPUTS)))); fresh.discard(L)
        else:
            ops.append(("HYP", L)); fresh.discard(L)
    return ops


ALPHABET = [("GET", "A"), ("FWD", "A", 0), ("GET", "AP"), ("FWD", "AB", 0), ("GET", "BAD"), ("ADD", "A", 0),
            ("BWD", "A", 0), ("HYP", "A"), ("FREE",)]


def evaluate(v, cases, refs, stats):
    """oracles on one chunk of executed cases; returns number of violations raised"""
    nviol = 0
    lines = []
    for c in cases:
        lines.append("MCACHE bad=%s %s" % (",".join(hx(lname(L, c.meta["p"])) for L in LISTS if L not in GOOD),
                                           " ".join([model_tok(o, c.meta["p"]) for o in c.meta["ops"]] + ["F"])))
    model = common.run_model(lines) if lines else []
    for c, mline in zip(cases, model):
        ops, p = c.meta["ops"], c.meta["p"]
        replay = {"script": c.setup + c.ops, "ops": [list(o) for o in ops]}

        def viol(sig, what):
            nonlocal nviol
            nviol += 1
            v.violation(sig, what, replay)
        if c.fault:
            i = c.fault.get("op_index", 0)
            opx = c.ops[i] if 0 <= i < len(c.ops) else "?"
            viol("C14:%s:%s:%s" % (c.fault["kind"], c.fault["frame"], opx.split(" ")[0]),
                 "%s in %s while executing op %d (%s) of %s" % (c.fault["kind"], c.fault["frame"], i // 2, opx[:80],
                                                                   [" ".join(map(str, o)) for o in ops]))
            continue
        if len(c.out) != len(c.ops):
            viol("C14:short-output", "harness printed %d lines for %d ops" % (len(c.out), len(c.ops)))
            continue
        leak = getattr(c, "batch_leak", None)
        if leak:
            viol("C14:leak:%s" % leak.get("frame", "?"), "LeakSanitizer: memory allocated in %s is unreachable at exit, after "
                 "lou_free; history %s" % (leak.get("frame"), [" ".join(map(str, o)) for o in ops]))
        mfd = re.search(r"fdleak=(-?\d+)", c.out[-1])
        if mfd and int(mfd.group(1)) > 0:
            viol("C14:fd-leak", "%s file descriptor(s) opened by the library are still open after lou_free (a stream is not "
                 "memory LeakSanitizer reports: libc keeps every FILE reachable); history %s" % (mfd.group(1), [" ".join(map(str, o)) for o in ops]))
        outs = [c.out[2 * i] for i in range(len(ops))]
        opens = [parse_opens(c.out[2 * i + 1]) for i in range(len(ops))]
        stats["ops"] += len(ops)
        v.cov["evaluations"] += len(ops)
        # ---- (v) model differential
        mt = mline.split()
        if not mline.startswith("MC ") or len(mt) != len(ops) + 3:
            stats["model_bad"].append("%s: model answered %r" % (c.id, mline[:200]))
            continue
        for i, op in enumerate(ops):
            ret, _, evs = mt[1 + i].partition(";")
            exp = expected_opens(evs, p)
            if op[0] == "ADD" and op[2] == GROW and ret == "1":      # the rule itself opens the dictionary
                exp[p + "hy.dic"] = exp.get(p + "hy.dic", 0) + 1
            if opens[i] != exp:
                stats["model_bad"].append("%s op %d %s: files opened %s, model predicts %s (events %s); history %s" % (
                    c.id, i, " ".join(map(str, op)), opens[i], exp, evs, [" ".join(map(str, o)) for o in ops[:i + 1]]))
                viol("C14:opens:%s:%s" % (op[0], op[1] if len(op) > 1 else "-"),
                     "op %d (%s) opened %s but the cache model (compile only what is missing, never what is cached) "
                     "predicts %s; history %s" % (i, " ".join(map(str, op)), opens[i], exp,
                                                  [" ".join(map(str, o)) for o in ops[:i + 1]]))
                break
            if op[0] == "GET":
                got = outs[i].split()[1]
                if got != ret:
                    stats["model_bad"].append("%s op %d GET %s: pointer id %s, model %s" % (c.id, i, op[1], got, ret))
                    viol("C14:pointer:%s" % op[1], "lou_getTable(%s) returned table #%s (numbered by first appearance since "
                         "the last lou_free), the cache model predicts #%s; history %s" % (
                             op[1], got, ret, [" ".join(map(str, o)) for o in ops[:i + 1]]))
                    break
            if op[0] == "ADD":
                got = outs[i].split()[1]
                if got != ret:
                    stats["model_bad"].append("%s op %d ADD %s: returned %s, model %s" % (c.id, i, op[1], got, ret))
                    break
        if not mt[-1] == "L:-":
            stats["model_bad"].append("%s: model ledger not empty after the final lou_free: %s" % (c.id, mt[-1]))
        # ---- (i) compile once, evaluated on the implementation alone (public histories)
        if c.meta.get("public", True):
            start = 0
            for e in range(len(ops) + 1):
                if e == len(ops) or ops[e][0] == "FREE":
                    tot, exp = {}, {}
                    seen_good = set()
                    ids = {}
                    for i in range(start, e):
                        for f, n in opens[i].items():
                            tot[f] = tot.get(f, 0) + n
                        L = ops[i][1]
                        fs, ok = opened_by(L, p)
                        if ok and L in seen_good:
                            fs = []
                        if ok:
                            seen_good.add(L)
                        for f in fs:
                            exp[f] = exp.get(f, 0) + 1
                        if ops[i][0] == "ADD" and ops[i][2] == GROW and outs[i].startswith("D 1"):
                            exp[p + "hy.dic"] = exp.get(p + "hy.dic", 0) + 1
                        if ops[i][0] == "GET":
                            pid = outs[i].split()[1]
                            if (pid == "0") != (not ok):
                                viol("C14:get-null:%s" % L, "lou_getTable(%s) returned %s" % (L, "NULL" if pid == "0" else "a table"))
                            elif ok:
                                if ids.setdefault(L, pid) != pid:
                                    viol("C14:pointer-unstable:%s" % L, "lou_getTable(%s) returned two different tables "
                                         "without an intervening lou_free; history %s" % (L, [" ".join(map(str, o)) for o in ops[:i + 1]]))
                                other = [M for M, q in ids.items() if q == pid and M != L]
                                if other:
                                    viol("C14:shared-table:%s:%s" % tuple(sorted([L, other[0]])),
                                         "lists %s and %s were handed the same table; history %s" % (
                                             L, other[0], [" ".join(map(str, o)) for o in ops[:i + 1]]))
                    if tot != exp:
                        viol("C14:compile-once:%s" % ",".join(sorted(f[len(p):] for f in set(tot) | set(exp) if tot.get(f, 0) != exp.get(f, 0))),
                             "between two lou_free calls the files were opened %s times; compiling every good list once and "
                             "every bad list at each use gives %s; history %s" % (
                                 {f[len(p):]: n for f, n in tot.items()}, {f[len(p):]: n for f, n in exp.items()},
                                 [" ".join(map(str, o)) for o in ops[start:e]]))
                    start = e + 1
        # ---- (ii)(iii)(iv) results equal to a fresh process
        for i, op in enumerate(ops):
            if op[0] == "FREE":
                continue
            key = reference_key(ops, outs, i)
            ref = refs.get(key)
            if ref is None:
                continue
            stats["compared"] += 1
            line = outs[i]
            if op[0] == "GET":         # pointer ids are per history
                line = "G %s %s" % ("0" if line.split()[1] == "0" else "T", " ".join(line.split()[2:]))
                ref = "G %s %s" % ("0" if ref.split()[1] == "0" else "T", " ".join(ref.split()[2:]))
            if line != ref:
                j = i
                while j > 0 and ops[j - 1][0] != "FREE":
                    j -= 1
                others = sorted({o[1] for o in ops[j:i] if o[1] != op[1]})
                kind = "after-free" if j > 0 and not others and all(o[1] != op[1] for o in ops[j:i]) else \
                       ("isolation" if others else "reuse")
                viol("C14:result:%s:%s:%s" % (kind, op[0], op[1]),
                     "%s gives [%s] here but [%s] as %s in a fresh process; history %s" % (
                         " ".join(map(str, op)), line[:160], ref[:160],
                         "the only call" if len(key) == 1 else "the last of %s" % [" ".join(map(str, o)) for o in key],
                         [" ".join(map(str, o)) for o in ops[:i + 1]]))
                break
        v._distinct.add(tuple(ops[:6]))
    return nviol


def run(tier):
    v = common.Verdict("C14", tier)
    rng = random.Random(common.seed() * 1000003 + 14)
    common.lean_obligations(v, THEOREMS)
    try:
        exe = common.build_harness()
        v.obligation("harness builds from /repo working tree (hooks on, ASan+UBSan, --wrap=fopen)", True)
    except common.BuildError as e:
        v.obligation("harness builds from /repo working tree (hooks on, ASan+UBSan, --wrap=fopen)", False, str(e)[-2000:])
        return v.finish()
    depth = 4 if tier == "quick" else 5
    seqs = [(list(t), True) for t in itertools.product(ALPHABET, repeat=depth)]
    nexh = len(seqs)
    rng.shuffle(seqs)
    nrand = 150 if tier == "quick" else 1500
    rnd = []
    for i in range(nrand):
        public = rng.random() < 0.7
        n = rng.choice([6, 12, 25, 50, 100, 200]) if i % 3 else rng.randint(5, 40)
        rnd.append((gen_random(rng, n, public), public))
    ngrow = 60 if tier == "quick" else 600
    for i in range(ngrow):
        rnd.append((gen_growth(rng, rng.choice([4, 8, 16, 40])), True))
    # random histories first (they are the deep ones), then the exhaustive space
    allseq = rnd + seqs
    cases = []
    for i, (ops, public) in enumerate(allseq):
        c = make_case("c14-%d" % i, ops, "q%d" % i)
        c.meta["public"] = public
        cases.append(c)
    # ---- references: every distinct call (with the rules added before it) alone in a fresh process
    refs = {}
    stats = {"ops": 0, "compared": 0, "model_bad": [], "refs": 0}

    def need_refs(chunk):
        keys = set()
        for c in chunk:
            if c.fault or len(c.out) != len(c.ops):
                continue
            ops = c.meta["ops"]
            outs = [c.out[2 * i] for i in range(len(ops))]
            for i, op in enumerate(ops):
                if op[0] != "FREE":
                    k = reference_key(ops, outs, i)
                    if k not in refs:
                        keys.add(k)
        keys = sorted(keys)
        rc = []
        for n, k in enumerate(keys):
            rc.append(make_case("ref-%d-%d" % (len(refs), n), list(k), "r"))
        common.run_cases(exe, rc, batch=1, timeout=20)
        for k, c in zip(keys, rc):
            if c.fault or len(c.out) != len(c.ops):
                refs[k] = None
                v.violation("C14:reference-run:%s" % (c.fault or {}).get("kind", "short"),
                            "a fresh process running %s did not finish: %s" % ([" ".join(map(str, o)) for o in k], c.fault),
                            {"script": c.setup + c.ops})
            else:
                refs[k] = c.out[2 * (len(k) - 1)]
                stats["refs"] += 1

    bounds = [0, 60, 300, 1500]
    while bounds[-1] < len(cases):
        bounds.append(min(len(cases), bounds[-1] + 4000))
    nviol = 0
    ran = 0
    for a, b in zip(bounds, bounds[1:]):
        chunk = cases[a:b]
        if not chunk:
            continue
        common.run_cases(exe, chunk, batch=1, timeout=20, leak=True)
        need_refs(chunk)
        nviol += evaluate(v, chunk, refs, stats)
        ran += len(chunk)
        if nviol >= 20:
            v.notes.append("search stopped after %d of %d histories: %d violations already found" % (ran, len(cases), nviol))
            break
    v.obligation("correspondence: pointer identities, lou_compileString results and per-operation file opens predicted by the "
                 "Lean cache model on every history", not stats["model_bad"], "; ".join(stats["model_bad"][:3]))
    v.cov["exhaustive"] = (ran == len(cases))
    # the DISPLAY table of a cached list grows (and moves) through run-time rules: the cache entry must follow it,
    # other entries stay, lou_free releases it (LeakSanitizer on)
    from .. import dispgrow
    dg = {}
    dispgrow.display_growth(v, exe, tier, "C14", dg)
    v.cov["distribution"] = {"display_growth": dg, "exhaustive_histories": nexh, "exhaustive_depth": depth, "alphabet": [" ".join(map(str, o)) for o in ALPHABET],
                             "random_histories": nrand, "growth_histories": ngrow, "histories_run": ran, "operations": stats["ops"],
                             "results_compared_with_fresh_process": stats["compared"], "distinct_reference_runs": stats["refs"],
                             "lists": {k: val.format(p="") for k, val in LISTS.items()}}
    v.cov["rule"] = ("one process per history (LeakSanitizer on, final lou_free): all %d-op sequences over the alphabet + random "
                     "histories of length 5-200 over 7 lists; per op: file opens (fopen wrapper), pointer id, result line; distinct "
                     "by the first six operations" % depth)
    v.sample({"history": [" ".join(map(str, o)) for o in cases[0].meta["ops"][:12]], "out": cases[0].out[:8]})
    v.assumptions += ["what a compilation produces is a parameter of the model (oracle); ASan/LSan are trusted observers",
                      "the model's oracle for the differential is: a list fails iff it names the bad or the missing file"]
    return v.finish()
