"""C18 — metadata queries select tables by the documented scoring order."""
import itertools, random
from concurrent.futures import ThreadPoolExecutor
from .. import common

THEOREMS = ["Lou.C18." + n for n in [
    # lou_findTable vs lou_findTables
    "findTable_none_iff", "findTable_none_iff_no_positive", "malformed_query_finds_nothing", "findTable_mem",
    "mem_findTables_iff",
    # weights (decide on the constants extracted from metadata.c) and per-key contributions
    "weight_order", "parseQuery_sorted", "analyzeTable_sorted", "score_eq_sum", "key_contribution",
    "key_contribution_special", "lang_key_contribution", "dominance",
    # exact match
    "contrib_of_declaresSame", "exact_score", "exact_found",
    # index order
    "index_order_irrelevant", "index_order_irrelevant_none", "dominating_is_returned",
    # lou_getTableInfo
    "tableInfo_first", "tableInfo_none", "parser_lines_descending",
    # no type confusion (fix of C18-F3): parsers and readers agree on which keys are language tags
    "langTagParsed_eq_isLangKey", "lang_keys_extracted",
    # the hypotheses are forced: negations of the unrestricted statements on witnesses
    "tableInfo_first_fails_with_dup", "tableInfo_first_fails_on_bytes", "exact_score_fails_with_two_values",
    "exact_found_fails_with_many_languages", "dominating_but_not_positive",
]]

CLAIM = dict(
    text=("Kernel-checked theorems (LouProofs/C18.lean) about an executable Lean transcription of metadata.c "
          "(header parser over file bytes, query parser, language tags, match quotient with the weights extracted from "
          "the C source, selection loops, lou_getTableInfo): findTable = none iff findTables = [], membership, the match "
          "quotient of sorted feature lists is the sum of per-key contributions (same value POS / key absent UNDEFINED / "
          "other value NEG / each unrelated key EXTRA), dominance, exact match found with the exact score, a strict maximum "
          "is returned for every permutation of the index, first occurrence wins in lou_getTableInfo (under the "
          "no-duplicate-feature hypothesis the code forces; negation proved on a witness). Tied to the code by a "
          "byte-for-byte differential of INDEX/FIND/FINDS/INFO/LIST between the ASan/UBSan harness and the compiled model "
          "over generated header sets x queries x every index order; the property text is evaluated on the "
          "implementation's results as the search oracle."),
    note=("An empty index is modelled with LOUIS_TABLEPATH pointing to an empty directory; lou_getTableInfo breaks the "
          "first-occurrence clause when a later line repeats an earlier key:value (C18-F1) and never answers for the key "
          "`locale` (C18-F2); a table declaring ucs2 and ucs4 ties on a ucs4 query (C18-F4); all three are listed in "
          "known_findings.json. Keys that are prefixes of language/region/locale (C18-F3, fixed in liblouis) are ordinary "
          "keys in the model and part of the generators' key pool."),
    technique="Lean 4 proof over a hand-written model + regex-extracted constants + differential testing + oracle search",
    design="DESIGN.md §7 C18")

KEYS = ["language", "region", "locale", "type", "contraction", "grade", "dots", "unicode-range", "x"]
# keys that are prefixes / case variants of the three language-tag names (finding C18-F3): ordinary keys
# unless the whole key is one of the names
PREFIX_KEYS = ["l", "la", "reg", "loc", "locale", "LANGUAGE"]
POOL = KEYS + PREFIX_KEYS
VALS = ["a", "b", "en", "en-US", "de", "*"]
LANG = ("language", "region", "locale")
hx = common.hexbytes


# ---------------------------------------------------------------- structured headers

class Header:
    """a generated table file: `lines` are ('+', key, sep, val) active, ('-', key, sep, val) inactive,
    ('#', text) comment, ('', ) blank, ('code', text) first non-comment line, ('raw', bytes) anything"""
    def __init__(self, name, lines, eol=b"\n", final_eol=True):
        self.name = name
        self.lines = lines
        self.eol = eol
        self.final_eol = final_eol

    def data(self):
        out = []
        for l in self.lines:
            if l[0] in ("+", "-"):
                out.append(("#%s%s:%s%s" % (l[0], l[1], l[2], l[3])).encode("latin-1"))
            elif l[0] == "#":
                out.append(("#" + l[1]).encode("latin-1"))
            elif l[0] == "":
                out.append(b"")
            elif l[0] == "code":
                out.append(l[1].encode("latin-1"))
            else:
                out.append(l[1])
        b = self.eol.join(out)
        if out and self.final_eol:
            b += self.eol
        return b

    def structured(self):
        return all(l[0] != "raw" for l in self.lines)

    def scanned(self):
        """lines the C code looks at: up to the first non-comment line"""
        r = []
        for l in self.lines:
            if l[0] == "code":
                break
            r.append(l)
        return r


TAG_OK = lambda v: v in ("a", "b", "en", "en-US", "de", "*", "ucs2", "ucs4", "A", "EN", "en-us")


def line_ok(l):
    """is this generated feature line well-formed for the C parser? (structured generator only)"""
    kind, k, sep, v = l
    kl = k.lower()
    if kind == "+":
        if "*" in v and kl not in LANG:
            return False
        return True
    # inactive: any value; language tags must still parse
    if kl in LANG:
        return TAG_OK(v.strip())
    return True


def active_fields(h):
    return [(l[1], l[3]) for l in h.scanned() if l[0] == "+"]


def expand(fields):
    """locale is shorthand for language + region; keys lower-cased"""
    e = []
    for k, v in fields:
        kl = k.lower()
        if kl == "locale":
            e += [("language", v), ("region", v)]
        else:
            e.append((kl, v))
    return e


def effective(fields):
    """the features of an indexed table including the documented defaults (region := first language,
    unicode-range := ucs2); None when the table has no feature at all"""
    e = expand(fields)
    if not e:
        return None
    if not any(k == "region" for k, _ in e):
        lang = [v for k, v in e if k == "language"]
        if lang:
            e.append(("region", lang[0]))
    if not any(k == "unicode-range" for k, _ in e):
        e.append(("unicode-range", "ucs2"))
    return e


def query_fields(q):
    e = expand(q)
    if not any(k == "unicode-range" for k, _ in e):
        e.append(("unicode-range", "ucs2"))
    return e


def klass(eff, qk, qv):
    """same=2 / absent=1 / different=0 / None when the documented order does not decide (partial
    language-range matches, '*', the ucs2-for-ucs4 rule)"""
    vals = [v for k, v in eff if k == qk]
    if not vals:
        return 1
    if any(v.lower() == qv.lower() for v in vals):
        return 2
    if qk in ("language", "region"):
        for v in vals:
            if "*" in v or v.lower().split("-")[0] == qv.lower().split("-")[0]:
                return None
        return 0
    if qk == "unicode-range" and qv.lower() == "ucs4" and any(v.lower() == "ucs2" for v in vals):
        return None
    return 0


def profile(eff, qf):
    """(ranks per queried key, number of unrelated keys) or None"""
    ranks = []
    for qk, qv in qf:
        r = klass(eff, qk, qv)
        if r is None:
            return None
        ranks.append(r)
    qkeys = set(k for k, _ in qf)
    extras = len(set(k for k, _ in eff if k not in qkeys))
    return ranks, extras


def dominates(p, o):
    ge = all(a >= b for a, b in zip(p[0], o[0])) and p[1] <= o[1]
    gt = any(a > b for a, b in zip(p[0], o[0])) or p[1] < o[1]
    return ge and gt


def qstring(q, sep=" "):
    return sep.join("%s:%s" % (k, v) for k, v in q)


def nodup(fields):
    ks = [k for k, _ in expand(fields)]
    return len(ks) == len(set(ks))


def first_occurrence(h, key):
    """value of the first line (active or inactive) that declares `key`, None when there is none; the value
    is what the C parser stores (inactive values space-normalised)"""
    kl = key.lower()
    for l in h.scanned():
        if l[0] in ("+", "-"):
            k = l[1].lower()
            hit = (k == kl) or (k == "locale" and kl in ("language", "region"))
            if hit:
                v = l[3]
                if l[0] == "-":
                    v = " ".join(v.replace("\t", " ").split())
                return v
    return None


def has_dup_feature(h, key):
    """two lines with this key and case-insensitively equal values (the hypothesis lou_getTableInfo forces)"""
    kl = key.lower()
    seen = set()
    for l in h.scanned():
        if l[0] in ("+", "-"):
            ks = ["language", "region"] if l[1].lower() == "locale" else [l[1].lower()]
            if kl in ks:
                v = l[3]
                if l[0] == "-":
                    v = " ".join(v.replace("\t", " ").split())
                if v.lower() in seen:
                    return True
                seen.add(v.lower())
    return False


# ---------------------------------------------------------------- cases

class MetaCase:
    """one table set: every index order x every query, plus INFO on every file"""
    def __init__(self, cid, headers, queries, infos, stream, max_orders=24, rng=None):
        self.id = cid
        self.headers = headers
        self.queries = queries          # list of (bytes, structured-fields-or-None)
        self.infos = infos              # list of (header index, key bytes)
        self.stream = stream
        orders = list(itertools.permutations(range(len(headers))))
        if len(orders) > max_orders:
            rng.shuffle(orders)
            orders = orders[:max_orders]
        self.orders = orders
        self.ops = []                   # (kind, order index or None, payload index)
        self.hlines = []
        self.mlines = []
        self.build()

    def build(self):
        H = self.headers
        setup = ["ENV LOUIS_TABLEPATH " + hx("empty"), "MKDIR empty"]
        for h in H:
            setup.append("TBL %s %s" % (h.name, hx(h.data())))
        self.setup = setup
        for oi, o in enumerate(self.orders):
            names = [H[i].name for i in o]
            fl = "%d %s" % (len(o), " ".join("%s %s" % (hx(H[i].name), hx(H[i].data())) for i in o))
            self.ops.append(("INDEX", oi, None))
            self.hlines.append("INDEX " + " ".join(names))
            self.mlines.append("MINDEX " + fl)
            if oi == 0:
                self.ops.append(("LIST", oi, None))
                self.hlines.append("LIST")
                self.mlines.append("MLIST " + fl)
            for qi, (qb, _) in enumerate(self.queries):
                for op in ("FIND", "FINDS"):
                    self.ops.append((op, oi, qi))
                    self.hlines.append("%s %s" % (op, hx(qb)))
                    self.mlines.append("M%s %s %s" % (op, hx(qb), fl))
        for hi, kb in self.infos:
            self.ops.append(("INFO", hi, kb))
            self.hlines.append("INFO %s %s" % (H[hi].name, hx(kb)))
            self.mlines.append("MINFO %s %s" % (hx(kb), hx(H[hi].data())))

    def case(self):
        return common.Case(self.id, self.setup, self.hlines, {"stream": self.stream})

    def replay(self, upto=None):
        """minimal harness script for the op at index `upto` (whole case when None)"""
        H = self.headers
        files = {h.name: h.data().decode("latin-1") for h in H}
        if upto is None or upto >= len(self.ops):
            return {"harness_script": self.setup + self.hlines, "cwd": "a fresh empty directory", "files": files}
        op, a, b = self.ops[upto]
        if op == "INFO":
            h = H[a]
            return {"harness_script": ["TBL %s %s" % (h.name, hx(h.data())), self.hlines[upto]],
                    "cwd": "a fresh empty directory", "files": {h.name: files[h.name]}}
        lines = list(self.setup)
        # the INDEX of this order, then the op (for a query: both FIND and FINDS)
        k = upto
        while k > 0 and self.ops[k][0] != "INDEX":
            k -= 1
        lines.append(self.hlines[k])
        if op in ("FIND", "FINDS"):
            lines += [self.hlines[j] for j in range(k, len(self.ops))
                      if self.ops[j][0] in ("FIND", "FINDS") and self.ops[j][1] == a and self.ops[j][2] == b]
            return {"harness_script": lines, "cwd": "a fresh empty directory", "files": files,
                    "query": self.queries[b][0].decode("latin-1"), "index_order": [H[i].name for i in self.orders[a]]}
        lines.append(self.hlines[upto])
        return {"harness_script": lines, "cwd": "a fresh empty directory", "files": files}


def run_model(lines, tries=2):
    """common.run_model with the exit status in the error and one retry (a killed driver must not
    be mistaken for a disagreement)"""
    import subprocess
    last = ""
    for _ in range(tries):
        p = subprocess.run([common.model_exe()], input="\n".join(lines) + "\n", stdout=subprocess.PIPE,
                           stderr=subprocess.PIPE, text=True, timeout=3600)
        if p.returncode == 0:
            out = p.stdout.split("\n")
            return out[:-1] if p.stdout.endswith("\n") else out
        last = "exit status %s after %d output lines: %s" % (p.returncode, p.stdout.count("\n"), p.stderr[-1000:])
    raise RuntimeError("model driver failed: " + last)


def parse_result(line):
    """('F', name|None) / ('FS', [names]) / ('N', value|None) / ('LS', [names]) / ('I', n) plus e, w"""
    t = line.split(" ")
    kind = t[0]
    e = w = None
    body = []
    for x in t[1:]:
        if x.startswith("e="):
            e = int(x[2:])
        elif x.startswith("w="):
            w = int(x[2:])
        else:
            body.append(x)
    dec = lambda s: None if s == "null" else common.unhexbytes(s)
    if kind in ("F", "N"):
        return kind, (dec(body[0]) if body else None), e, w
    if kind in ("FS", "LS"):
        if body in (["null"], ["."]):
            return kind, [], e, w
        return kind, [common.unhexbytes(s) for s in body], e, w
    return kind, body, e, w


# ---------------------------------------------------------------- generators

def gen_exhaustive(universes, max_tables, tag):
    """every multiset of <= max_tables headers over {absent, v1, v2}^keys, every query over the same space,
    every index order"""
    cases = []
    for ui, (keys, vals) in enumerate(universes):
        per_key = list(vals) if isinstance(vals[0], (list, tuple)) else [vals] * len(keys)
        heads = list(itertools.product(*[[None] + list(vs) for vs in per_key]))
        queries = []
        for combo in heads:
            q = [(k, v) for k, v in zip(keys, combo) if v is not None]
            if any("*" in v for _, v in q):
                continue
            queries.append((qstring(q).encode(), q))
        n = 0
        for size in range(1, max_tables + 1):
            for ms in itertools.combinations_with_replacement(range(len(heads)), size):
                H = []
                for ti, hi in enumerate(ms):
                    lines = [("+", k, " ", v) for k, v in zip(keys, heads[hi]) if v is not None]
                    H.append(Header("t%d" % (ti + 1), lines))
                infos = []
                if size == 1:
                    infos = [(0, k.encode()) for k in keys] + [(0, b"region"), (0, b"unicode-range")]
                cases.append(MetaCase("%sx%d-%d" % (tag, ui, n), H, queries, infos, "exhaustive"))
                n += 1
    return cases


def rand_fields(rng, n, keys=None, vals=VALS, star_ok=True):
    f = []
    for _ in range(n):
        k = rng.choice(keys or KEYS) if (keys or rng.random() < 0.85) else rng.choice(PREFIX_KEYS)
        if k == "unicode-range" and rng.random() < 0.6:
            v = rng.choice(["ucs2", "ucs4"])
        else:
            v = rng.choice(vals)
        if v == "*" and (k.lower() not in LANG or not star_ok) and rng.random() < 0.9:
            v = rng.choice(["a", "b", "en"])
        f.append((k, v))
    return f


def rand_header(rng, name, base=None):
    """0-4 active lines from the pool (often a variation of `base`), inactive lines, comments, blanks,
    sometimes a code line followed by more metadata that must be ignored"""
    if base is not None and rng.random() < 0.7:
        f = list(base)
        r = rng.random()
        if f and r < 0.3:
            f.pop(rng.randrange(len(f)))
        elif f and r < 0.6:
            i = rng.randrange(len(f))
            f[i] = (f[i][0], rng.choice([v for v in VALS[:5] if v != f[i][1]]))
        elif r < 0.85 and len(f) < 4:
            f.insert(rng.randrange(len(f) + 1), rand_fields(rng, 1)[0])
    else:
        f = rand_fields(rng, rng.choice([0, 1, 1, 2, 2, 3, 3, 4]))
    lines = []
    for k, v in f:
        if rng.random() < 0.08:
            k = rng.choice([k.upper(), k.capitalize()])
        if rng.random() < 0.05 and v != "*":
            v = v.upper()
        lines.append(("+", k, rng.choice(["", " ", " ", "  ", "\t"]), v))
    for _ in range(rng.choice([0, 0, 0, 1, 1, 2])):
        k, v = rand_fields(rng, 1, star_ok=False)[0]
        if k.lower() in LANG:
            v = rng.choice(["en", "de", "en-US", "a"])
        elif rng.random() < 0.5:
            v = rng.choice(["hello  world", "some text ", "a\tb", "A", "x y z", "a"])
        lines.insert(rng.randrange(len(lines) + 1), ("-", k, rng.choice(["", " ", "  "]), v))
    for _ in range(rng.choice([0, 0, 1, 2])):
        lines.insert(rng.randrange(len(lines) + 1), rng.choice([("#", " a comment"), ("",), ("#", ""), ("#", "--- not metadata"),
                                                               ("#", "-- x:a")]))
    if rng.random() < 0.3:
        lines.append(("code", rng.choice(["include foo.cti", "space \\s 0", "x"])))
        if rng.random() < 0.5:
            lines.append(("+", rng.choice(POOL), " ", "a"))
    eol = b"\r\n" if rng.random() < 0.1 else b"\n"
    return Header(name, lines, eol=eol, final_eol=rng.random() < 0.9)


def rand_query(rng, base=None):
    if base is not None and rng.random() < 0.6:
        q = [(k, v) for k, v in base if "*" not in v]
        r = rng.random()
        if q and r < 0.25:
            q.pop(rng.randrange(len(q)))
        elif q and r < 0.5:
            i = rng.randrange(len(q))
            q[i] = (q[i][0], rng.choice(VALS[:5]))
        elif r < 0.7:
            q.append(rand_fields(rng, 1, star_ok=False)[0])
        rng.shuffle(q)
    else:
        q = rand_fields(rng, rng.choice([0, 1, 1, 2, 2, 3, 4]), star_ok=False)
    q = [(k, v) for k, v in q if "*" not in v]
    sep = rng.choice([" ", " ", " ", "\t", "\n", "  "])
    s = qstring(q, sep)
    if rng.random() < 0.1:
        s = " " + s + " "
    return s.encode(), q


BAD_LINES = [b"#+x", b"#+x:", b"#+x: ", b"#+ x:a", b"#+x :a", b"#+x:a b", b"#+x:a!", b"#+:a", b"#+", b"#+x:a ", b"#+x:*",
             b"#+language:e_n", b"#+language:*x", b"#+language:en-", b"#+language:-en", b"#+language:abcdefghi",
             b"#+language:abcdefgh-x1", b"#+language:1a", b"#+language:*-US", b"#+language:en-*", b"#+region:*",
             b"#+locale:en.US", b"#-x", b"#-x:", b"#-x:   ", b"#-language: not a tag", b"#--x:a", b"#-x:a\x00b", b"#+x:a\x00",
             b"#+x\x00:a", b"#+x:\xe9", b"#+\xe9:a", b"#+x:a\r", b"#+x::a", b"#+x:a:b", b"#+unicode-range:ucs4",
             b"#+unicode-range:UCS2", b"#+Language:EN", b"#+LOCALE:en-us", b"#+x:" + b"a" * 2100, b"#" + b"c" * 2100,
             b"#+l:*", b"#+l:en", b"#+la: e_n", b"#+reg:US", b"#+loc:en.US", b"#+LANGUAGE:*", b"#+LANGUAGE:e_n", b"#+languag:*",
             b"#+languagee:en", b"#-l: not a tag", b"#-reg:*",
             b"#+x:" + b"a" * 2042, b"#+x:" + b"a" * 2043, b"#+x:" + b"a" * 2044]
BAD_QUERIES = [b"x", b"x:", b":a", b"x:a:b", b"x:a!", b"x::a", b"x: a", b" x:a", b"x:a ", b"x:a\ty:b\n", b"language:*",
               b"language:e_n", b"language:en-", b"language:abcdefghi", b"locale:en-US language:de",
               b"language:de locale:en-US", b"x:a x:b", b"x:b x:a", b"X:A", b"unicode-range:ucs4", b"unicode-range:ucs2",
               b"unicode-range:ucs2 unicode-range:ucs4", b"x:a\x00y:b", b"\xe9:a", b"x:\xe9", b"", b" ", b"\n",
               b"l:en", b"reg:US", b"loc:en.US", b"l:e_n", b"LANGUAGE:en", b"LANGUAGE:e_n", b"languag:en", b"la:en l:en",
               b"language:en-US-x-foo", b"language:en-a-b-c-d-e-f", b"region:US", b"language:EN", b"LANGUAGE:en"]


def gen_malformed(rng, n, tag):
    cases = []
    for i in range(n):
        H = []
        for ti in range(rng.choice([1, 2, 2, 3])):
            r = rng.random()
            if r < 0.55:
                h = rand_header(rng, "t%d" % (ti + 1))
                h.lines.insert(rng.randrange(len(h.lines) + 1), ("raw", rng.choice(BAD_LINES)))
            elif r < 0.7:
                # encodings: UTF-16 with BOM, a lone byte, a high first byte
                txt = rand_header(rng, "x").data().decode("latin-1")
                enc = rng.choice(["be", "le", "one", "high", "odd"])
                if enc == "be":
                    raw = b"\xfe\xff" + txt.encode("utf-16-be")
                elif enc == "le":
                    raw = b"\xff\xfe" + txt.encode("utf-16-le")
                elif enc == "odd":
                    raw = b"\xfe\xff" + ("#+x:\u0161\n#+y:b").encode("utf-16-be") + b"\x00"
                elif enc == "one":
                    raw = b"#"
                else:
                    raw = b"\xe9" + txt.encode("latin-1")
                h = Header("t%d" % (ti + 1), [("raw", raw)], final_eol=False)
            else:
                h = rand_header(rng, "t%d" % (ti + 1))
            H.append(h)
        qs = [(rng.choice(BAD_QUERIES), None) for _ in range(3)] + [rand_query(rng) for _ in range(2)]
        infos = [(hi, rng.choice([b"x", b"language", b"region", b"unicode-range", b"X", b"", b"y", b"zz"]))
                 for hi in range(len(H)) for _ in range(2)]
        cases.append(MetaCase("%sm%d" % (tag, i), H, qs, infos, "malformed", rng=rng))
    return cases


def gen_random(rng, n, tag):
    cases = []
    for i in range(n):
        nt = rng.choice([1, 2, 2, 3, 3, 3, 4])
        base = rand_fields(rng, rng.choice([1, 2, 3, 3, 4]))
        H = [rand_header(rng, "t%d" % (ti + 1), base) for ti in range(nt)]
        qs = []
        # the query that equals each table's own metadata
        for h in H[:2]:
            f = active_fields(h)
            if f and all("*" not in v for _, v in f):
                qs.append((qstring(f).encode(), f))
        qs.append(rand_query(rng, base))
        qs.append(rand_query(rng, base))
        qs.append(rand_query(rng))
        infos = []
        for hi, h in enumerate(H):
            ks = [l[1] for l in h.lines if l[0] in ("+", "-")]
            for k in set(ks[:3] + [rng.choice(POOL)]):
                if k.lower() == "locale":
                    k = rng.choice(["language", "region"])
                infos.append((hi, k.encode()))
        cases.append(MetaCase("%sr%d" % (tag, i), H, qs, infos, "random", max_orders=(24 if nt < 4 else 12), rng=rng))
    return cases


def gen_ladders(rng, n, tag):
    """dominance ladders: 3-4 queried keys, tables that differ from the query in one key
    (same / absent / other value) or carry extra unrelated keys"""
    cases = []
    for i in range(n):
        ks = rng.sample([k for k in KEYS if k != "locale"] + ["l", "la", "reg", "loc"], rng.choice([3, 4]))
        q = [(k, rng.choice(["a", "en", "de"]) if k in LANG else (rng.choice(["ucs2", "ucs4"]) if k == "unicode-range" else rng.choice(["a", "b"])))
             for k in ks]
        H = []
        for ti in range(rng.choice([2, 3, 3])):
            f = list(q)
            j = rng.randrange(len(f))
            r = rng.random()
            if r < 0.3:
                f.pop(j)
            elif r < 0.6:
                f[j] = (f[j][0], "b" if f[j][1] != "b" else "de")
            elif r < 0.8:
                others = [k for k in KEYS + ["l", "reg"] if k not in ks and k != "locale"]
                f.append((rng.choice(others), "a"))
            rng.shuffle(f)
            H.append(Header("t%d" % (ti + 1), [("+", k, " ", v) for k, v in f]))
        cases.append(MetaCase("%sl%d" % (tag, i), H, [(qstring(q).encode(), q)], [], "ladder"))
    return cases


def witnesses():
    """the counterexamples proved in LouProofs/C18.lean, reproduced on the implementation; the third
    element says what reproducing means (checked in `witness_report`, never a failure by itself)"""
    W = []
    # tableInfo_first_fails_with_dup / _on_bytes: a later line repeats an earlier key:value
    h = Header("w1", [("+", "x", "", "a"), ("+", "x", "", "b"), ("+", "x", "", "a")])
    W.append((MetaCase("w-first-dup", [h], [], [(0, b"x")], "witness"), "tableInfo_first_fails_on_bytes",
              lambda res: res[-1] is not None and res[-1][1] == b"b"))
    h = Header("w2", [("+", "x", "", "a"), ("+", "x", "", "A")])
    W.append((MetaCase("w-first-case", [h], [], [(0, b"x")], "witness"), "tableInfo_first (case variant)",
              lambda res: res[-1] is not None and res[-1][1] == b"A"))
    # exact_found_fails_with_many_languages: 105 distinct languages, the query names them all
    tags = [a + b for a in "abcdefghijk" for b in "abcdefghij"][:105]
    h = Header("w3", [("+", "language", " ", t) for t in tags])
    q = [("language", t) for t in tags]
    W.append((MetaCase("w-many-languages", [h], [(qstring(q).encode(), q), (b"language:aa", [("language", "aa")])], [], "witness"),
              "exact_found_fails_with_many_languages",
              lambda res: all(r is not None and r[0] in ("I", "LS") or r[1] in (None, []) for r in res)))
    # exact_score_fails_with_two_values: ucs2 and ucs4 declared, ucs4 queried: found, but by quotient 9 (model: MSCORE)
    # dominating_but_not_positive: x absent dominates x:b for the query x:a, nobody is returned
    h1 = Header("w4", [("+", "unicode-range", "", "ucs2")])
    h2 = Header("w5", [("+", "unicode-range", "", "ucs2"), ("+", "x", "", "b")])
    W.append((MetaCase("w-dominating-not-positive", [h1, h2], [(b"x:a", [("x", "a")])], [], "witness"),
              "dominating_but_not_positive",
              lambda res: all(r is not None and (r[0] in ("I", "LS") or r[1] in (None, [])) for r in res)))
    # regression for C18-F3 (fixed in liblouis): a proper prefix of language/region/locale is an ordinary key
    h = Header("w6", [("+", "l", " ", "en"), ("+", "reg", " ", "e_n")])
    W.append((MetaCase("w-prefix-key", [h], [(b"l:en", [("l", "en")]), (b"reg:e_n l:en", [("reg", "e_n"), ("l", "en")])],
                       [(0, b"l"), (0, b"reg")], "witness"),
              "prefix keys are ordinary keys (C18-F3 fixed)",
              lambda res: res[-1] is not None and res[-1][1] == b"e_n" and res[-2][1] == b"en"))
    return W


# ---------------------------------------------------------------- the property text as an oracle

def oracle(mc, res, v):
    """evaluate the property text on the implementation's results `res` (parallel to mc.ops)"""
    H = mc.headers
    structured = all(h.structured() for h in H)
    ok_tables = None
    if structured:
        ok_tables = []
        for h in H:
            sc = h.scanned()
            good = all(line_ok(l) for l in sc if l[0] == "+")
            f = active_fields(h)
            ok_tables.append(good and bool(f))
    byq = {}
    for k, (op, a, b) in enumerate(mc.ops):
        r = res[k]
        if r is None:
            continue
        if op in ("FIND", "FINDS"):
            byq.setdefault((b, a), {})[op] = (k, r)
    found_by_q = {}
    for (qi, oi), d in sorted(byq.items()):
        if "FIND" not in d or "FINDS" not in d:
            continue
        kf, (_, f, _, _) = d["FIND"]
        ks, (_, fs, _, _) = d["FINDS"]
        v.cov["evaluations"] += 1
        # 1. NULL exactly when lou_findTables returns no table
        if (f is None) != (len(fs) == 0):
            v.violation("C18:none-iff", "lou_findTable=%r but lou_findTables=%r for query %r (order %s)" %
                        (f, fs, mc.queries[qi][0], mc.orders[oi]), mc.replay(ks))
        # 2. otherwise one of the tables lou_findTables lists
        if f is not None and fs and f not in fs:
            v.violation("C18:membership", "lou_findTable=%r not among lou_findTables=%r for query %r" %
                        (f, fs, mc.queries[qi][0]), mc.replay(ks))
        found_by_q.setdefault(qi, {})[oi] = (f, fs, kf)
    if not structured:
        return
    for qi, per_order in found_by_q.items():
        qb, q = mc.queries[qi]
        if q is None or not nodup(q):
            continue
        qf = query_fields(q)
        # 3. a table whose metadata equals the query is always found
        for ti, h in enumerate(H):
            f = active_fields(h)
            if ok_tables[ti] and nodup(f) and sorted(expand(f)) == sorted(expand(q)):
                for oi, (fr, fs, kf) in per_order.items():
                    if h.name.encode() not in fs:
                        v.violation("C18:exact-found", "table %s has exactly the metadata of query %r but lou_findTables=%r" %
                                    (h.name, qb, fs), mc.replay(kf + 1))
                v._distinct.add(("exact", qb, tuple(f)))
        # 4. a table that dominates all others is returned whatever the index order
        idx = [ti for ti in range(len(H)) if ok_tables[ti]]
        profs = {}
        for ti in idx:
            p = profile(effective(active_fields(H[ti])), qf)
            if p is None:
                profs = None
                break
            profs[ti] = p
        if not profs or len(idx) < 2:
            continue
        top = [ti for ti in idx if all(dominates(profs[ti], profs[u]) for u in idx if u != ti)]
        if not top:
            continue
        t = top[0]
        name = H[t].name.encode()
        answers = set(fr for fr, _, _ in per_order.values())
        v.cov["dominance_evaluations"] = v.cov.get("dominance_evaluations", 0) + 1
        if answers != {name} and answers != {None}:
            oi = next(o for o, (fr, _, _) in per_order.items() if fr != name)
            # the ucs2-for-ucs4 rule is applied even when the table declares ucs4 as well (ucs2 sorts first)
            both = any(k == "unicode-range" and qv.lower() == "ucs4" for k, qv in qf) and any(
                {"ucs2", "ucs4"} <= set(v.lower() for k, v in effective(active_fields(H[ti])) if k == "unicode-range") for ti in idx)
            v.violation("C18:dominance:ucs2-and-ucs4" if both else "C18:dominance",
                        "table %s dominates every other indexed table for query %r (profiles %r) but "
                        "lou_findTable answered %r over the index orders" % (H[t].name, qb, profs, sorted(answers, key=repr)),
                        mc.replay(per_order[oi][2]))
        if answers == {name}:
            v._distinct.add(("dominance", qb, tuple(sorted((tuple(p[0]), p[1]) for p in profs.values()))))
    # 5. lou_getTableInfo returns the value of the first occurrence of the key in the file
    for k, (op, hi, kb) in enumerate(mc.ops):
        if op != "INFO" or res[k] is None:
            continue
        h = H[hi]
        sc = h.scanned()
        if not all(line_ok(l) for l in sc if l[0] in ("+", "-")):
            continue
        key = kb.decode("latin-1")
        want = first_occurrence(h, key)
        got = res[k][1]
        v.cov["info_evaluations"] = v.cov.get("info_evaluations", 0) + 1
        if want is not None:
            if got is None or got.decode("latin-1") != want:
                kl = key.lower()
                if kl == "locale":
                    sig = "C18:info-first-occurrence:locale-key"
                elif has_dup_feature(h, key):
                    sig = "C18:info-first-occurrence:dup-feature"
                elif any(w.startswith(kl) and w != kl for w in LANG) and kl:
                    sig = "C18:info-first-occurrence:prefix-key"     # C18-F3, fixed: an ordinary violation
                else:
                    sig = "C18:info-first-occurrence"
                v.violation(sig, "lou_getTableInfo(%s, %r) = %r but the first occurrence of the key in the file has value %r" %
                            (h.name, key, got, want), mc.replay(k))
            else:
                v._distinct.add(("info", key, want, len(sc)))


# ---------------------------------------------------------------- run

QUICK_UNIVERSES = [
    (("type", "x"), ("a", "b")),
    (("language", "region"), ("en", "en-US")),
    (("locale", "language"), ("en-US", "de")),
    (("unicode-range", "grade"), (("ucs2", "ucs4"), ("a", "b"))),
    (("l", "reg"), ("en", "a")),
]
THOROUGH_UNIVERSES = QUICK_UNIVERSES + [
    (("LANGUAGE", "loc"), ("en", "en-US")),
    (("language", "type"), ("*", "en")),
    (("region", "locale"), ("en", "en-US")),
    (("dots", "contraction"), ("a", "en-US")),
]
THOROUGH_3KEY = [
    (("type", "x", "grade"), ("a", "b")),
    (("language", "region", "type"), ("en", "en-US")),
]


def run(tier):
    v = common.Verdict("C18", tier)
    rng = random.Random(common.seed() * 1000003 + 18)
    common.lean_obligations(v, THEOREMS)
    try:
        exe = common.build_harness()
        v.obligation("harness builds from /repo working tree (hooks on, ASan+UBSan)", True)
    except common.BuildError as e:
        v.obligation("harness builds from /repo working tree (hooks on, ASan+UBSan)", False, str(e)[-2000:])
        return v.finish()
    quick = tier == "quick"
    dist = {"tables_per_set": {}, "active_lines_per_table": {}, "streams": {}, "ops": {}, "find_null": 0, "find_hit": 0,
            "finds_sizes": {}, "index_orders": 0, "queries_malformed(e>0)": 0, "tables_rejected": 0, "info_null": 0,
            "info_value": 0, "model_unsupported": 0}
    mism = []
    faults = []
    nlines = [0]
    wit = witnesses()
    wit_report = {}

    def process(mcs):
        """run one chunk through the harness and (concurrently) the model, compare, evaluate the oracle"""
        cases = [m.case() for m in mcs]
        mlines = [l for m in mcs for l in m.mlines]
        nlines[0] += len(mlines)
        with ThreadPoolExecutor(1) as ex:
            fut = ex.submit(run_model, mlines)
            common.run_cases(exe, cases, batch=40 if quick else 100)
            mout = fut.result()
        pos = 0
        for m, c in zip(mcs, cases):
            n = len(m.ops)
            mo = mout[pos:pos + n]
            pos += n
            dist["streams"][m.stream] = dist["streams"].get(m.stream, 0) + 1
            dist["tables_per_set"][len(m.headers)] = dist["tables_per_set"].get(len(m.headers), 0) + 1
            for h in m.headers:
                na = len(active_fields(h))
                dist["active_lines_per_table"][na] = dist["active_lines_per_table"].get(na, 0) + 1
            dist["index_orders"] += len(m.orders)
            if c.fault:
                faults.append((m, c.fault))
            res = []
            for k in range(n):
                hl = c.out[k] if k < len(c.out) else None
                if hl is None:
                    res.append(None)
                    continue
                r = parse_result(hl)
                res.append(r)
                op = m.ops[k][0]
                dist["ops"][op] = dist["ops"].get(op, 0) + 1
                if op == "FIND":
                    dist["find_hit" if r[1] is not None else "find_null"] += 1
                    if r[2]:
                        dist["queries_malformed(e>0)"] += 1
                elif op == "FINDS":
                    dist["finds_sizes"][len(r[1])] = dist["finds_sizes"].get(len(r[1]), 0) + 1
                elif op == "INDEX":
                    dist["tables_rejected"] += r[2] or 0
                elif op == "INFO":
                    dist["info_value" if r[1] is not None else "info_null"] += 1
                ml = mo[k] if k < len(mo) else None
                if ml == "UNSUPPORTED":
                    dist["model_unsupported"] += 1
                elif ml != hl and len(mism) < 50:
                    mism.append((m, k, hl, ml))
            oracle(m, res, v)
            for wm, name, pred in wit:
                if wm is m:
                    try:
                        wit_report[name] = bool(pred(res))
                    except Exception as e:
                        wit_report[name] = "error: %r" % e
            if m.stream != "exhaustive" or len(v.cov["samples"]) < 2:
                for k, (op, a, b) in enumerate(m.ops):
                    if op == "FINDS" and res[k] and len(res[k][1]) >= 2 and len(v.cov["samples"]) < 6:
                        v.sample({"files": {h.name: h.data().decode("latin-1") for h in m.headers},
                                  "index_order": [m.headers[i].name for i in m.orders[a]],
                                  "query": m.queries[b][0].decode("latin-1"), "lou_findTables": [x.decode() for x in res[k][1]],
                                  "lou_findTable": (res[k - 1][1] or b"null").decode()})
                        break

    first = gen_exhaustive(QUICK_UNIVERSES if quick else THOROUGH_UNIVERSES, 3, "e")
    first += [w[0] for w in wit]
    process(first)
    if not quick:
        process(gen_exhaustive(THOROUGH_3KEY, 2, "e3"))
    n_random, n_ladder, n_malformed = (1600, 300, 400) if quick else (100000, 6000, 12000)
    chunk = 2500
    done = 0
    while done < n_random:
        k = min(chunk, n_random - done)
        process(gen_random(rng, k, "c%d" % done))
        done += k
    done = 0
    while done < n_ladder:
        k = min(chunk, n_ladder - done)
        process(gen_ladders(rng, k, "c%d" % done))
        done += k
    done = 0
    while done < n_malformed:
        k = min(chunk, n_malformed - done)
        process(gen_malformed(rng, k, "c%d" % done))
        done += k
    v.cov["witnesses_reproduced_on_implementation"] = wit_report
    v.obligation("correspondence: model line == implementation line for every INDEX/LIST/FIND/FINDS/INFO op", not mism,
                 "; ".join("case %s op %r: impl %r model %r files %r" % (
                     m.id, m.hlines[k], hl, ml, {h.name: h.data()[:200] for h in m.headers}) for m, k, hl, ml in mism[:4]))
    v.obligation("the model answers every operation (no UNSUPPORTED)", dist["model_unsupported"] == 0,
                 "%d operations answered UNSUPPORTED" % dist["model_unsupported"])
    v.obligation("no sanitizer fault or crash while running the metadata operations", not faults,
                 "; ".join("%s: %s %s" % (m.id, f.get("kind"), f.get("frame")) for m, f in faults[:4]))
    for m, k, hl, ml in mism[:3]:
        v.notes.append({"mismatch": m.replay(k), "impl": hl, "model": ml})
    for m, f in faults[:3]:
        v.notes.append({"fault": f, "replay": m.replay()})
    v.cov["distribution"] = dist
    v.cov["exhaustive"] = True
    v.cov["exhaustive_scope"] = ("every multiset of <=3 tables over {absent,v1,v2}^2 keys x 9 queries x every index order, key pairs: %s"
                                 % [u[0] for u in (QUICK_UNIVERSES if quick else THOROUGH_UNIVERSES)]) + \
        ("" if quick else "; every multiset of <=2 tables over 3 keys x 27 queries: %s" % [u[0] for u in THOROUGH_3KEY])
    v.cov["rule"] = ("evaluation = one (table set, index order, query) with lou_findTable and lou_findTables compared; distinct "
                     "non-trivial = distinct (query, own-metadata table) exact matches found, distinct dominance profiles whose "
                     "dominating table was returned in every order, distinct (key, value, position) first-occurrence answers")
    v.cov["model_ops_compared"] = nlines[0]
    v.assumptions += [
        "an empty index: LOUIS_TABLEPATH points to an empty directory, so lou_findTable's implicit indexing finds nothing",
        "exact_found/tableInfo_first carry the no-duplicate hypotheses the code forces (negations proved on witnesses and "
        "reproduced on the implementation by the `witness` stream)",
        "dominance is evaluated only where the documented order decides every queried key (no partial language-range match, "
        "no '*', no ucs2-for-ucs4) and the table defaults (region := language, unicode-range := ucs2) are counted as fields"]
    return v.finish()
