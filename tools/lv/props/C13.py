"""C13 — table compilation is total: a table or a clean, reported failure."""
import os, random, re, shutil, tempfile, hashlib
from concurrent.futures import ThreadPoolExecutor
from .. import common, corpus, gen_table as G, tblfiles as TF

THEOREMS = [
    "Lou.C13.error_sites", "Lou.C13.exceptions_used", "Lou.C13.compileError_body", "Lou.C13.counter_resets",
    "Lou.C13.counter_reads", "Lou.C13.lexer_constants",
    "Lou.C13.compile_outcome", "Lou.C13.early_return_is_silent", "Lou.C13.success_without_error_log",
    "Lou.C13.failure_logged", "Lou.C13.failed_compile_no_insert", "Lou.C13.failed_compile_inert",
    "Lou.C13.rejected_not_cached", "Lou.C13.rejected_again", "Lou.C13.failed_compile_keeps_entries",
    "Lou.C13.getTable_requests", "Lou.C13.empty_list_is_silent", "Lou.C13.success_cached",
    "Lou.C13.lexer_bounds", "Lou.C13.parseDots_bound", "Lou.C13.getToken_guard_is_off_by_one",
    "Lou.C13.getALine_progress", "Lou.C13.line_count", "Lou.Lexer.parseChars_bound", "Lou.Lexer.parseChars_fuel",
]

CLAIM = dict(
    text=("Kernel-checked (LouProofs/C13.lean): error_sites — on an inventory regenerated from compileTranslationTable.c and "
          "pattern.c on every run, every errorCount++ is preceded by an error-level log call in its block (or counts a NULL from "
          "the logging resolver) and every error-level log call in compile code is compileError (logs once and counts), is "
          "followed by errorCount++, or is one of eight listed calls issued only after the failure is already counted or "
          "returning failure to a counting caller; compile_outcome — on the control skeleton of compileTable a table is returned "
          "iff errorCount = 0 at cleanup, success frees nothing, failure frees everything allocated, returns NULL for both tables "
          "and has logged; failed_compile_inert / rejected_not_cached / rejected_again — on the two-chain cache model a failed "
          "compile inserts nothing, leaves other entries in place and is compiled again at the next lookup; lexer_bounds — lines "
          "<= 2047 characters, tokens < 2048, parseChars writes <= 2047 characters for ANY token, parseDots <= |token| cells; "
          "getALine_progress — reading terminates. The runtime clauses (no crash, hang, leak; loaded tables undisturbed; outcome "
          "a function of the bytes; rejected table not handed out) are SEARCHED under ASan+UBSan+LSan: every line of seven small "
          "valid tables replaced by each of a fixed corruption set, random byte-level mutations of shipped tables, and a rule "
          "grammar with out-of-range operands; each mutant is compiled in a process that already translated with a good table, "
          "then the good table is used again and another one compiled, compared with a fresh process; each mutant is compiled "
          "again in a fresh process and must give the same outcome."),
    note=("Hypotheses forced by the code: compileTable called with a table pointer and a NULL list returns 0 silently (never done "
          "by getTable); lou_getTable(\"\") returns NULL without any message. "
          "Crash/leak/hang freedom of compileRule and its helpers is not proved, only searched; known defects found by the search "
          "are listed in known_findings.json with their signatures."),
    technique="Lean 4 proof (source inventory by decide + skeleton/cache/lexer models) + sanitizer-backed mutant-table search with fresh-process comparison",
    design="DESIGN.md §7 C13")

hx = common.hexbytes
KS = "C13-kitchen-sink.ctb"
KSI = "C13-ks-inc.uti"


def corpus_file(n):
    return open(os.path.join(common.VERIF, "corpus", n), "rb").read()


# ---------------------------------------------------------------- base tables

def base_tables(rng, tier):
    """[(label, main name, {name: bytes})] small valid tables for the systematic corruption"""
    out = []
    ks = {"ks.ctb": corpus_file(KS).replace(b"include ks-inc.uti", b"include ksi.uti"), "ksi.uti": corpus_file(KSI)}
    out.append(("kitchen-sink", "ks.ctb", ks))
    r2 = random.Random(20260930)          # the generated bases are fixed, not seed dependent: same mutant set every run
    for kind in ("f0", "mixed", "multipass"):
        tb = G.gen_table(r2, kind)
        out.append(("gen-" + kind, "gb.ctb", {"gb.ctb": tb.text().encode("utf-8")}))
    for n in ("en-us-comp6.ctb", "unicode-braille.utb", "en-us-comp8.ctb"):
        files = TF.closure([n])
        if files:
            out.append((n, n, files))
    return out


# ---------------------------------------------------------------- corruptions

TOK = re.compile(rb"[^\x00-\x20]+")
NUM_OPS = {b"lencapsphrase", b"lenemphphrase", b"lenmodephrase"}


def opcode_of(line):
    t = [m.group(0) for m in TOK.finditer(line)]
    i = 0
    while i < len(t) and t[i] in (b"nofor", b"noback", b"nocross", b"empmatchbefore", b"empmatchafter"):
        i += 1
    while i + 1 < len(t) and t[i] in (b"before", b"after"):
        i += 2
    if i >= len(t):
        return "blank"
    o = t[i].decode("latin-1")
    if o.startswith("#") or o.startswith("<"):
        return "comment"
    return re.sub(r"[^A-Za-z0-9]", "", o)[:20] or "x"


def corruptions(line, self_name):
    """[(kind, [replacement lines])] for one line (bytes, no terminator)"""
    out = [("del", []), ("dup", [line, line])]
    spans = [(m.start(), m.end()) for m in TOK.finditer(line)]
    toks = [line[a:b] for a, b in spans]
    for k in range(1, len(spans)):
        out.append(("trunc", [line[:spans[k][0]].rstrip()]))
    for k in range(len(toks) - 1):
        t2 = list(toks)
        t2[k], t2[k + 1] = t2[k + 1], t2[k]
        out.append(("swap", [b" ".join(t2)]))
    for k in range(1, len(spans)):
        a, b = spans[k]
        for fill in (b"a" * 2100, b"\\x0041" * 350, "é".encode() * 1050, b"1-" * 1050 + b"1", b"1" * 2100):
            out.append(("long", [line[:a] + fill + line[b:]]))
    for k in range(1, len(spans)):
        a, b = spans[k]
        if TF.DOTS_RE.match(line[a:b]) or k == len(spans) - 1:
            out.append(("dots9", [line[:a] + b"9" + line[b:]]))
            out.append(("dotsg", [line[:a] + b"g" + line[b:]]))
            out.append(("dotsempty", [(line[:a].rstrip() + b" " + line[b:].lstrip()).rstrip()]))
            out.append(("dotsdash", [line[:a] + b"-" + line[b:]]))
            out.append(("dotsdup", [line[:a] + b"1-11" + line[b:]]))
    pos = sorted(set([0, len(line)] + [(a + b) // 2 for a, b in spans] + [a for a, b in spans]))
    for p in pos:
        for byte, kind in ((b"\x00", "nul"), (b"\xff", "ff"), (b"\xfe", "fe"), (b"\\", "bslash"), (b"\xc3", "lead"), (b"\x0d", "cr")):
            out.append((kind, [line[:p] + byte + line[p:]]))
    if b'"' in line:
        i = line.rfind(b'"')
        out.append(("unterm", [line[:i] + line[i + 1:]]))
    out.append(("unterm", [line + b' "abc']))
    if spans:
        a, b = spans[0]
        out.append(("badop", [line[:a] + b"zzzop" + line[b:]]))
        out.append(("badop", [b"macro " + line]))
    out.append(("selfinc", [b"include " + self_name.encode()]))
    out.append(("incmissing", [b"include no-such-file.ctb"]))
    out.append(("inclist", [b"include a.ctb,b.ctb"]))
    for m in re.finditer(rb"\d+", line):
        for v in (b"0", b"65535", b"65536", b"99999999999", b"-1"):
            out.append(("num", [line[:m.start()] + v + line[m.end():]]))
    return out


BAD_LINES = [
    # (kind, line) — the grammar with out-of-range operands
    ("badcell", "letter a 0-0-0"), ("badcell", "letter a 12345678"), ("badcell", "letter a 9abcdef"), ("badcell", "letter a 1--2"),
    ("badcell", "letter a -"), ("badcell", "letter a 1-"), ("badcell", "always a 0"), ("badchar", "letter \\xzzzz 1"),
    ("badchar", "letter \\x12 1"), ("badchar", "letter \\y12345 1"), ("badchar", "letter \\z12345678 1"), ("badchar", "letter \\ 1"),
    ("badchar", "letter \\q 1"), ("badchar", "letter ab 1"), ("badchar", "letter \xf0\x9f\x98\x80 1"), ("badchar", "letter \xc3 1"),
    ("badchar", "letter \xff\xfe 1"), ("overlong", "always " + "a" * 2040 + " 1"), ("overlong", "always a " + "1-" * 1020 + "1"),
    ("overlong", "always " + "\\x0061" * 340 + " 1"), ("overlong", "x" * 2047), ("overlong", "x" * 2048 + " y"), ("overlong", "# " + "c" * 4100),
    ("overlong", "always " + "a" * 60 + " " + "1-" * 60 + "1"), ("overlong", "always " + "a" * 300 + " " + "1-" * 300 + "1"),
    ("mpunbal", "noback pass2 [@1 @2"), ("mpunbal", "noback pass2 @1] @2"), ("mpunbal", "noback pass2 [[@1]] @2"), ("mpunbal", "noback pass2 [@1][@2] @3"),
    ("mpunbal", "noback correct \"a \"b\""), ("mpunbal", "noback correct \"a\" \"b"), ("mpunbal", "noback context \"a\" @"),
    ("mpattr", "noback pass2 $z @1"), ("mpattr", "noback pass2 $ @1"), ("mpattr", "noback pass2 %nosuch @1"), ("mpattr", "noback pass2 @1 %nosuch"),
    ("mpattr", "noback pass2 {nosuch @1"), ("mpattr", "noback pass2 $l0-0 @1"), ("mpattr", "noback pass2 $l5-2 @1"), ("mpattr", "noback pass2 $l70000 @1"),
    ("mpvar", "noback pass2 #60=1 @1"), ("mpvar", "noback pass2 #1=99999 @1"), ("mpvar", "noback pass2 @1 #99+"), ("mpvar", "noback pass2 #1? @1"),
    ("mpvar", "noback pass2 _99999@1 @1"), ("mpvar", "noback pass2 #1<=2#1>=3#1<4#1>5 @1"),
    ("mplong", "noback pass2 " + "@1" * 700 + " @1"), ("mplong", "noback pass2 @1 " + "@1" * 700), ("mplong", "noback pass2 \"" + "a" * 2030 + "\" @1"),
    ("mplong", "noback pass2 " + "$l" * 500 + " @1"), ("mplong", "noback pass2 @1 " + "*" * 2030), ("mplong", "noback correct \"" + "a" * 1000 + "\" \"" + "b" * 1000 + "\""),
    ("mponly", "pass2 @1 @2"), ("mponly", "noback pass2 @1"), ("mponly", "noback pass2"), ("mponly", "noback nofor pass2 @1 @2"), ("mponly", "noback noback always a 1"),
    ("groups", "noback pass2 " + "{grpa" * 100 + " @1"), ("groups", "grouping " + "g" * 100 + " () 1,2"), ("groups", "grouping g1 ( 1,2"),
    ("groups", "grouping g1 () 12"), ("groups", "grouping g-1 () 1,2"), ("groups", "grouping g1 () 1,2,3"),
    ("attrs", "attribute"), ("attrs", "attribute 8 a"), ("attrs", "attribute x"), ("attrs", "attribute italic a"), ("attrs", "attribute numericmode a"),
    ("attrs", "after nosuch always a 1"), ("attrs", "before"), ("attrs", "base nosuch A a"), ("attrs", "base uppercase A"), ("attrs", "base uppercase A zz"),
    ("attrs", "base uppercase a a"), ("emph", "emphclass"), ("emph", "emphclass bold"), ("emph", "begemph nosuch 1"), ("emph", "emphletter"),
    ("emph", "endemphphrase italic sideways 1"), ("emph", "lenemphphrase italic 0"), ("emph", "lencapsphrase x"), ("emph", "begmodeword space 1"),
    ("swap", "swapcc s1"), ("swap", "swapcc s1 ab"), ("swap", "swapcd s1 ab 1,,2"), ("swap", "swapdd s1 1, 2"), ("swap", "swapcd s-1 ab 1,2"),
    ("swap", "swapdd s1 " + "1," * 1000 + "1 2"), ("swap", "swapcd s1 a " + "1-2," * 500 + "1"),
    ("match", "match"), ("match", "match a"), ("match", "match a b"), ("match", "match a b c"), ("match", "match ( b ) 1"), ("match", "match [a b c 1"),
    ("match", "match %[ b c 1"), ("match", "match %z b c 1"), ("match", "match " + "(" * 300 + " b c 1"), ("match", "match " + "a" * 2000 + " b c 1"),
    ("match", "backmatch a|*|+ b ?? 1"), ("match", "match a " + "b" * 2040 + " c 1"), ("match", "match \\ b c 1"), ("match", "match %0%1%2%3%4%5%6%7 b c 1"),
    ("misc", "include"), ("misc", "display ab 1"), ("misc", "display a 1-2"), ("misc", "multind 1 nosuch"), ("misc", "multind 1 always"), ("misc", "multind"),
    ("misc", "rependword a 1"), ("misc", "rependword a 1,"), ("misc", "rependword a ,1"), ("misc", "rependword a 1,2,3"), ("misc", "exactdots a"),
    ("misc", "exactdots @"), ("misc", "exactdots @9g"), ("misc", "replace"), ("misc", "replace a \\#"), ("misc", "comp6 ab 1"), ("misc", "uplow Aa 1,2"),
    ("misc", "hyphen"), ("misc", "literal z"), ("misc", "compbrl"), ("misc", "nocont \\x1234"), ("misc", "always z ="), ("misc", "seqafterexpression a"),
    ("misc", "ISO8859-1"), ("misc", "UTF-8 x"), ("misc", "numericmodechars"), ("misc", "noletsign"), ("misc", "macro m"), ("misc", "eom"),
]


# ---------------------------------------------------------------- mutants

class Mutant:
    def __init__(self, mid, label, opcode, kind, main, files):
        self.id, self.label, self.opcode, self.kind, self.main, self.files = mid, label, opcode, kind, main, files
        self.pre = None      # (name, bytes): a table compiled between G and the mutant in the history run
        self.res = None      # result lines of the in-history run
        self.res2 = None     # of the fresh run
        self.fault = None
        self.fault2 = None

    def key(self):
        h = hashlib.sha256()
        for n in sorted(self.files):
            h.update(n.encode() + b"\0" + self.files[n] + b"\0")
        return h.hexdigest()


def systematic(bases):
    ms = []
    for label, main, files in bases:
        raw = files[main]
        lines = raw.replace(b"\r", b"").split(b"\n")
        if lines and lines[-1] == b"":
            lines = lines[:-1]
        for li, line in enumerate(lines):
            op = opcode_of(line)
            seen = set()
            for kind, repl in corruptions(line, main):
                new = lines[:li] + repl + lines[li + 1:]
                body = b"\n".join(new) + b"\n"
                if body == raw or body in seen:
                    continue
                seen.add(body)
                f = dict(files)
                f[main] = body
                ms.append(Mutant("s%d" % len(ms), label, op, kind, main, f))
    return ms


def byte_mutants(rng, n):
    pool = []
    for t in corpus.quick_tables():
        files = TF.closure([t])
        if files and sum(len(b) for b in files.values()) < 120000:
            pool.append((t, files))
    ms = []
    for i in range(n):
        t, files = rng.choice(pool)
        victim = rng.choice(sorted(files))
        b = bytearray(files[victim])
        for _ in range(rng.randint(1, 5)):
            if not b:
                break
            p = rng.randrange(len(b))
            r = rng.random()
            if r < 0.35:
                b[p] = rng.choice([0, 0xff, 0xfe, 0x5c, 0x22, 0x2d, 0x20, 0x0a, rng.randrange(256)])
            elif r < 0.6:
                b[p:p] = bytes([rng.choice([0, 0xff, 0x5c, 0x20, 0x0a, 0x2c, 0x39, rng.randrange(256)])])
            elif r < 0.8:
                del b[p:p + rng.randint(1, 8)]
            elif r < 0.9:
                q = rng.randrange(len(b))
                b[p:p] = b[q:q + rng.randint(1, 40)]
            else:
                del b[p:]
        f = dict(files)
        f[victim] = bytes(b)
        # locate the opcode of the first changed line (for the signature)
        ol, nl = files[victim].split(b"\n"), bytes(b).split(b"\n")
        k = next((j for j, (x, y) in enumerate(zip(ol, nl)) if x != y), min(len(ol), len(nl)) - 1)
        ms.append(Mutant("b%d" % i, t, opcode_of(nl[k] if 0 <= k < len(nl) else b""), "bytes", t, f))
    return ms


def corpus_mutants():
    """minimised replays of the findings made so far (corpus/C13.json): always run, first"""
    import json
    ms = []
    for ent in json.load(open(os.path.join(common.VERIF, "corpus", "C13.json"))):
        files = {n: t.encode("latin-1") for n, t in ent["files"].items()}
        m = Mutant("c-" + ent["id"], "corpus:" + ent["id"], ent["opcode"], ent["kind"], ent["main"], files)
        if ent.get("pre"):
            m.pre = (ent["pre"]["name"], ent["pre"]["text"].encode("latin-1"))
            m.files[m.pre[0]] = m.pre[1]
        ms.append(m)
    return ms


def grammar_mutants(rng, n):
    ms = []
    r2 = random.Random(4242)
    for i in range(n):
        if i < len(BAD_LINES):
            kind, line = BAD_LINES[i]
            tb = G.gen_table(r2, "f0")
        else:
            kind, line = rng.choice(BAD_LINES)
            tb = G.gen_table(rng, rng.choice(["f0", "mixed", "multipass"]))
            # random splice of two bad lines / random operand growth
            if rng.random() < 0.3:
                k2, l2 = rng.choice(BAD_LINES)
                a, b = line.split(" "), l2.split(" ")
                line = " ".join(a[:rng.randint(1, len(a))] + b[rng.randint(0, len(b) - 1):])
                kind = kind + "+" + k2
        pre = "grouping grpa () 12356,23456\nattribute vowel a\nemphclass italic\n"
        body = tb.text() + pre
        lb = line.encode("latin-1") if isinstance(line, str) else line
        pos = rng.choice(["end", "start", "mid"]) if i >= len(BAD_LINES) else "end"
        bb = body.encode("utf-8")
        if pos == "end":
            text = bb + lb + b"\n"
        elif pos == "start":
            text = lb + b"\n" + bb
        else:
            ls = bb.split(b"\n")
            k = rng.randrange(len(ls))
            text = b"\n".join(ls[:k] + [lb] + ls[k:])
        ms.append(Mutant("g%d" % i, "grammar", opcode_of(lb), kind, "gm.ctb", {"gm.ctb": text}))
    return ms


# ---------------------------------------------------------------- a second harness build that survives the struct hack

STRUCT_HACK = re.compile(r"runtime error: index \d+ out of bounds for type '(const )?widechar\[50\]'")
ANY_BOUNDS = re.compile(r"runtime error: index -?\d+ out of bounds for type '([^']*)'")


def build_variant(tag, flags, link):
    """Same objects as common.build_harness() with other sanitizer flags, in its own directory
    (common.build_harness removes older h-* builds, so the prefix differs)."""
    srcs = [os.path.join(common.REPO, "liblouis", s + ".c") for s in common.SRC]
    hdrs = [os.path.join(common.REPO, "liblouis", h) for h in ("internal.h", "liblouis.h", "config.h")]
    hfiles = [os.path.join(common.VERIF, "harness", f) for f in sorted(os.listdir(os.path.join(common.VERIF, "harness")))
              if f.endswith((".c", ".h"))]
    key = common._hash_files(srcs + hdrs + hfiles, " ".join(flags))
    d = os.path.join(common.BUILD, "%s-%s" % (tag, key))
    exe = os.path.join(d, "lvh")
    if os.path.exists(exe):
        return exe
    if os.path.isdir(common.BUILD):
        for old in os.listdir(common.BUILD):
            if old.startswith(tag + "-") and old != "%s-%s" % (tag, key):
                shutil.rmtree(os.path.join(common.BUILD, old), ignore_errors=True)
    os.makedirs(os.path.join(d, "liblouis"), exist_ok=True)
    # compile from a snapshot: reports carry line numbers, and /repo may move while a check is running
    snap = []
    for p in srcs:
        q = os.path.join(d, "liblouis", os.path.basename(p))
        shutil.copyfile(p, q)
        snap.append(q)
    flags = flags + ["-I" + os.path.join(common.REPO, "liblouis")]
    srcs = snap
    jobs = [["clang-14"] + flags + ["-c", p, "-o", os.path.join(d, s + ".o")] for s, p in zip(common.SRC, srcs)]
    jobs.append(["clang-14"] + flags + ["-c", os.path.join(common.VERIF, "harness", "lvh.c"),
                                         "-I" + os.path.join(common.VERIF, "harness"), "-o", os.path.join(d, "lvh.o")])
    with ThreadPoolExecutor(common.NCPU) as ex:
        res = list(ex.map(lambda c: common.sh(c), jobs))
    bad = [r for r in res if r.returncode != 0]
    if bad:
        shutil.rmtree(d, ignore_errors=True)
        raise common.BuildError("\n".join(r.stdout for r in bad))
    r = common.sh(["clang-14"] + link + ["-Wl,--wrap=fopen", "-o", exe + ".tmp"] + [os.path.join(d, s + ".o") for s in common.SRC] + [os.path.join(d, "lvh.o")])
    if r.returncode != 0:
        shutil.rmtree(d, ignore_errors=True)
        raise common.BuildError(r.stdout)
    os.rename(exe + ".tmp", exe)
    return exe


def build_harness_recover_bounds():
    """-fsanitize-recover=bounds: the process goes on after UBSan's report about
    `TranslationTableRule.charsdots[DEFAULTRULESIZE]` being indexed beyond 50 (the pre-C99 'struct hack': the
    memory is allocated, the declared bound is not).  Without it every mutant with a rule longer than 50
    characters would stop at addRule and nothing behind it would be looked at."""
    return build_variant("hr", common.CFLAGS + ["-fsanitize-recover=bounds"], ["-fsanitize=address,undefined"])


def build_harness_msan():
    """MemorySanitizer instead of ASan+UBSan: a branch or address that depends on memory nobody wrote is a
    result that does not depend on the file contents only (clause d)."""
    flags = [f for f in common.CFLAGS if not f.startswith(("-fsanitize", "-fno-sanitize"))]
    flags += ["-fsanitize=memory", "-fsanitize-memory-track-origins"]
    return build_variant("hm", flags, ["-fsanitize=memory"])


MSAN_RE = re.compile(r"WARNING: MemorySanitizer: (\S+)")
MSAN_ORIGIN = re.compile(r"allocation of '([^']+)' in the stack frame of function '([^']+)'|Uninitialized value was created by a (heap) allocation")


def run_msan(exe, files, script, timeout=60):
    d = tempfile.mkdtemp(prefix="c13m-", dir=common.scratch_root())
    try:
        write_files(d, files)
        write_files(d, {GOOD_G[0]: GOOD_G[1], GOOD_H[0]: GOOD_H[1]})
        e = dict(os.environ)
        e["MSAN_OPTIONS"] = "exit_code=98:halt_on_error=1"
        e.pop("LOUIS_TABLEPATH", None)
        try:
            import subprocess
            p = subprocess.run([exe], input="\n".join(script) + "\n", stdout=subprocess.PIPE, stderr=subprocess.PIPE,
                               text=True, cwd=d, env=e, timeout=timeout, errors="replace")
        except Exception:
            return None
    finally:
        shutil.rmtree(d, ignore_errors=True)
    m = MSAN_RE.search(p.stderr)
    if not m:
        return None
    frame, path = "?", "?"
    for fm in common.FRAME_RE.finditer(p.stderr):
        if "/liblouis/" in fm.group(2) or fm.group(2).endswith("lvh.c"):
            frame, path = fm.group(1), os.path.basename(fm.group(2)) + ":" + (fm.group(3) or "?")
            break
    # the opcode whose code was running: nearest `case CTO_xxx:` above the compileRule frame (stable under line shifts,
    # and meaningful for byte mutants, where the mutated line is not known)
    case = frame
    for fm in common.FRAME_RE.finditer(p.stderr.split("Uninitialized value was created")[0]):
        if fm.group(1) == "compileRule" and fm.group(3):
            try:
                snapf = os.path.join(os.path.dirname(exe), "liblouis", os.path.basename(fm.group(2)))
                src = open(snapf, encoding="utf-8", errors="replace").read().split("\n")
                for k in range(int(fm.group(3)) - 1, 0, -1):
                    mm = re.match(r"\s*case (CTO_\w+):", src[k])
                    if mm:
                        case = mm.group(1)
                        break
            except OSError:
                pass
            break
    om = MSAN_ORIGIN.search(p.stderr)
    # clang numbers same-named locals of different scopes (ptn_before374): drop the number
    origin = ("%s.%s" % (om.group(2), re.sub(r"\d+$", "", om.group(1))) if om and om.group(1) else ("heap" if om else "?"))
    nout = len([l for l in p.stdout.split("\n") if l])
    return {"kind": "msan:" + m.group(1), "frame": frame, "at": path, "origin": origin, "case": case, "op_index": nout,
            "stderr_tail": p.stderr[:2500]}


# ---------------------------------------------------------------- running

GOOD_G = ("cg.ctb", b"space \\s 0\nletter a 1\nletter b 12\nlowercase c 14\nbase uppercase C c\ncapsletter 6\nalways ab 123\n"
                     b"noback pass2 @123 @1-2-3\nnofor pass2 @1-2-3 @123\nsign - 36\n")
GOOD_H = ("ch.ctb", b"include cg.ctb\nletter d 145\nalways dd 1456\nnoback correct \"da\" \"ad\"\n")
PROBE_F = [0x61, 0x62, 0x20, 0x43, 0x63, 0x2d, 0x64, 0x64, 0x61]
PROBE_B = [0x8001, 0x8003, 0x8000, 0x8007, 0x8020, 0x8009, 0x8019]


def good_ops(name):
    return ["GET " + name,
            "FWD %s 4 60 0 28 %s - -" % (name, common.wide(PROBE_F)),
            "FWD %s 0 60 - 12 %s - -" % (name, common.wide(PROBE_F)),
            "BWD %s 4 60 0 28 %s - -" % (name, common.wide(PROBE_B))]


def probe_ops(name):
    return ["FWD %s 4 80 - 12 %s - -" % (name, common.wide(PROBE_F + [0x31, 0x2e, 0xe9, 0x41])),
            "BWD %s 4 80 - 12 %s - -" % (name, common.wide(PROBE_B + [0x803c, 0x8024]))]


def history_script(m):
    """G loaded and used, then the mutant, then G again, H, FREE"""
    return (good_ops(GOOD_G[0]) + (["CHK " + m.pre[0]] if m.pre else []) + ["CHK " + m.main, "GET " + m.main] + probe_ops(m.main) + good_ops(GOOD_G[0]) +
            ["CHK " + GOOD_H[0]] + probe_ops(GOOD_H[0]) + ["FREE"])


def fresh_script(m):
    return ["CHK " + m.main] + probe_ops(m.main) + ["FREE"]


def write_files(d, files):
    for n, b in files.items():
        p = os.path.join(d, n)
        if os.path.dirname(n):
            os.makedirs(os.path.dirname(p), exist_ok=True)
        with open(p, "wb") as f:
            f.write(b)


def run_script(exe, files, script, timeout=60, recover=False):
    d = tempfile.mkdtemp(prefix="c13-", dir=common.scratch_root())
    try:
        write_files(d, files)
        write_files(d, {GOOD_G[0]: GOOD_G[1], GOOD_H[0]: GOOD_H[1]})
        env = {"UBSAN_OPTIONS": "print_stacktrace=1:halt_on_error=0"} if recover else None
        r = common.run_harness(exe, ["HOOK budget 5000000"] + script, d, timeout=timeout, leak=True, env=env)
    finally:
        shutil.rmtree(d, ignore_errors=True)
    lines = r.lines[1:]
    fault = None
    if r.fault:
        # the harness prints a tick-budget overflow as the result line of the op that was running
        nres = len(lines) - (1 if lines and lines[-1].startswith("FAULT ") else 0)
        fault = dict(r.fault, op_index=nres, stderr_tail=r.stderr[-2500:])
    elif "LeakSanitizer" in r.stderr:
        fault = dict(common.parse_fault(r.stderr, 99), op_index=len(lines), stderr_tail=r.stderr[-2500:])
    elif recover:
        other = [t for t in ANY_BOUNDS.findall(r.stderr) if t not in ("widechar[50]", "const widechar[50]")]
        if other:
            fault = {"kind": "ubsan", "frame": "?", "detail": "index out of bounds for type '%s'" % other[0],
                     "op_index": len(lines), "stderr_tail": r.stderr[-2500:]}
    return lines, fault


def is_struct_hack(fault):
    return bool(fault) and fault["kind"] == "ubsan" and STRUCT_HACK.search("runtime error: " + fault.get("detail", "")) is not None


def innermost(fault):
    fr = fault.get("frame", "?")
    return fr.split(":")[-1] if fr != "?" else "?"


def leak_frame(stderr):
    """first liblouis function in the first leak stack"""
    for fm in common.FRAME_RE.finditer(stderr):
        fn, path = fm.group(1), fm.group(2)
        if "/liblouis/" in path:
            return fn
    return "?"


def cstat(line):
    """(ret, e) of a `C r e= w=` / `G id e= w=` line"""
    m = re.match(r"^[CG] (\d+) e=(\d+) w=(\d+)", line or "")
    return (int(m.group(1)), int(m.group(2))) if m else None


def strip_w(l):
    return re.sub(r" w=\d+", "", l or "")


def run(tier):
    v = common.Verdict("C13", tier)
    rng = random.Random(common.seed() * 1000003 + 13)
    common.lean_obligations(v, THEOREMS)
    try:
        exe = common.build_harness()
        v.obligation("harness builds from /repo working tree (hooks on, ASan+UBSan)", True)
    except common.BuildError as e:
        v.obligation("harness builds from /repo working tree (hooks on, ASan+UBSan)", False, str(e)[-2000:])
        return v.finish()

    bases = base_tables(rng, tier)
    # every base must be a valid table: otherwise the corruption set is aimed at nothing
    for label, main, files in bases:
        lines, fault = run_script(exe, files, ["CHK " + main, "FREE"])
        st = cstat(lines[0]) if lines else None
        ok = st is not None and st[0] == 1 and st[1] == 0 and fault is None
        v.obligation("base table %s compiles cleanly" % label, ok, "%s %s" % (lines[:1], fault))
    ms = systematic(bases)
    cms = corpus_mutants()
    if tier == "quick":
        # the full systematic set is ~25k mutants: the quick tier takes all kinds on the kitchen sink and the generated
        # tables for a fixed third of the lines plus a seeded sample of the rest
        keep = [m for m in ms if m.label in ("kitchen-sink",) and m.kind not in ("nul", "ff", "fe", "bslash", "lead", "cr", "num", "long")]
        rest = [m for m in ms if m not in keep]
        rng.shuffle(rest)
        ms = keep + rest[:800]
    nb = 100 if tier == "quick" else 20000
    ng = 190 if tier == "quick" else 8000
    ms += byte_mutants(rng, nb)
    ms += grammar_mutants(rng, ng)
    ms = cms + ms

    # reference: G and H in a fresh process that never saw a mutant
    ref_lines, ref_fault = run_script(exe, {}, good_ops(GOOD_G[0]) + ["CHK " + GOOD_H[0]] + probe_ops(GOOD_H[0]) + ["FREE"])
    nG = len(good_ops(GOOD_G[0]))
    refG = [strip_w(l) for l in ref_lines[:nG]]
    refH = [strip_w(l) for l in ref_lines[nG:nG + 3]]
    v.obligation("reference: the known-good tables G and H compile and translate in a fresh process",
                 ref_fault is None and len(ref_lines) == nG + 4 and cstat(ref_lines[0]) == (1, 0) and cstat(ref_lines[nG]) == (1, 0),
                 "%s %s" % (ref_lines, ref_fault))

    try:
        exe_r = build_harness_recover_bounds()
    except common.BuildError as e:
        exe_r = None
        v.obligation("second harness build (-fsanitize-recover=bounds) compiles", False, str(e)[-1500:])
    try:
        exe_m = build_harness_msan()
        v.obligation("third harness build (MemorySanitizer) compiles", True)
    except common.BuildError as e:
        exe_m = None
        v.obligation("third harness build (MemorySanitizer) compiles", False, str(e)[-1500:])

    def work(m):
        m.res, m.fault = run_script(exe, m.files, history_script(m))
        m.res2, m.fault2 = run_script(exe, m.files, fresh_script(m))
        m.hack = False
        if exe_r and (is_struct_hack(m.fault) or is_struct_hack(m.fault2)):
            # the rule array declared with 50 elements was indexed beyond 50: reported once as a known finding;
            # the mutant is looked at again with that one report made non-fatal
            m.hack = True
            m.res, m.fault = run_script(exe_r, m.files, history_script(m), recover=True)
            m.res2, m.fault2 = run_script(exe_r, m.files, fresh_script(m), recover=True)
        m.msan = run_msan(exe_m, m.files, fresh_script(m)) if exe_m else None
        return m
    with ThreadPoolExecutor(common.NCPU) as ex:
        list(ex.map(work, ms))

    dist = {"mutants": len(ms), "by_kind": {}, "rejected": 0, "accepted": 0, "faults": 0, "by_opcode": {}}
    for m in ms:
        dist["by_kind"][m.kind.split("+")[0]] = dist["by_kind"].get(m.kind.split("+")[0], 0) + 1
        dist["by_opcode"][m.opcode] = dist["by_opcode"].get(m.opcode, 0) + 1
        v.cov["evaluations"] += 1
        replay = {"files": {n: b.hex() for n, b in m.files.items()} if sum(len(b) for b in m.files.values()) < 60000 else
                  {m.main: m.files[m.main].hex(), "others": "shipped:" + m.label},
                  "good": {GOOD_G[0]: GOOD_G[1].hex(), GOOD_H[0]: GOOD_H[1].hex()},
                  "script": history_script(m), "fresh_script": fresh_script(m), "label": m.label, "kind": m.kind, "opcode": m.opcode}
        kindsig = m.kind.split("+")[0]
        if m.hack:
            dist["struct_hack"] = dist.get("struct_hack", 0) + 1
            v.violation("C13:b:addRule:ubsan:bounds-charsdots",
                        "UBSan: TranslationTableRule.charsdots[50] indexed beyond its declared bound (rule with more than 50 "
                        "characters+cells; memory is allocated, the declaration is the pre-C99 struct hack) — %s line of %s, %s"
                        % (m.opcode, m.label, m.kind), replay)
        # (b) no sanitizer fault, no hang, no leak — in either process
        for which, fault, script in (("history", m.fault, history_script(m)), ("fresh", m.fault2, fresh_script(m))):
            if fault:
                dist["faults"] += 1
                fn = innermost(fault)
                if fault["kind"] == "leak":
                    fn = leak_frame(fault.get("stderr_tail", ""))
                opi = fault.get("op_index", 0)
                during = script[opi].split(" ")[0] if 0 <= opi < len(script) else "exit"
                if fault["kind"] in ("tick-budget", "timeout") and during in ("FWD", "BWD"):
                    # an accepted mutant whose translation does not terminate: C03's business (F2), not the compiler's
                    v.notes.append("non-terminating translation with an accepted mutant (decided by C03): %s %s %s" % (m.label, m.opcode, m.kind))
                    break
                v.violation("C13:b:%s:%s:%s" % (fn, fault["kind"], kindsig),
                            "%s while/after compiling a corrupted table (%s line of %s, corruption %s; %s run, during %s): %s"
                            % (fault["kind"], m.opcode, m.label, m.kind, which, during, fault.get("detail", "")[:120]),
                            dict(replay, fault={k: fault[k] for k in ("kind", "frame", "detail", "op_index")}, stderr=fault.get("stderr_tail", "")[-1800:]))
                break
        if m.msan:
            dist["msan_reports"] = dist.get("msan_reports", 0) + 1
            ms_ = m.msan
            fscript = fresh_script(m)
            during = fscript[ms_["op_index"]].split(" ")[0] if ms_["op_index"] < len(fscript) else "exit"
            if ms_["at"].startswith(("compileTranslationTable.c", "pattern.c")) or during == "CHK":
                v.violation("C13:d:%s:msan:%s" % (ms_["origin"], ms_["case"]),
                            "MemorySanitizer: the compiler's control flow depends on memory nobody wrote (%s at %s, value from %s) — "
                            "%s line of %s, corruption %s: the outcome is not a function of the file contents"
                            % (ms_["frame"], ms_["at"], ms_["origin"], m.opcode, m.label, m.kind),
                            dict(replay, msan={k: ms_[k] for k in ("kind", "frame", "at", "origin")}, stderr=ms_["stderr_tail"][:1800]))
            else:
                v.notes.append("uninitialised read outside the compiler during C13 run (decided by C02/C08): %s %s" % (ms_["frame"], ms_["at"]))
        if m.fault or m.fault2 or not m.res or not m.res2:
            continue
        n0 = nG + (1 if m.pre else 0)
        chk, get = cstat(m.res[n0]), cstat(m.res[n0 + 1])
        if chk is None or get is None:
            continue
        if chk[0] == 0:
            dist["rejected"] += 1
        else:
            dist["accepted"] += 1
        v._distinct.add((m.label, m.opcode, m.kind, chk))
        # (a) 0 ⇒ at least one error-level message; 1 ⇒ none
        if chk[0] == 0 and chk[1] < 1:
            v.violation("C13:a:%s:%s" % (m.opcode, kindsig), "lou_checkTable returned 0 without any error-level message (%s, %s)" % (m.label, m.kind), replay)
        if chk[0] == 1 and chk[1] != 0:
            v.violation("C13:a:%s:%s" % (m.opcode, kindsig),
                        "lou_checkTable returned 1 although %d error-level message(s) were delivered (%s, %s): %s"
                        % (chk[1], m.label, m.kind, m.res[n0][:200]), replay)
        # (e) a rejected table is not handed out by the next lookup; an accepted one is (same pointer: G <id>)
        if chk[0] == 0 and get[0] != 0:
            v.violation("C13:e:%s:%s" % (m.opcode, kindsig), "after a failed lou_checkTable, lou_getTable of the same list returned a table (%s, %s)" % (m.label, m.kind), replay)
        if chk[0] == 0 and get[1] < 1:
            v.violation("C13:e:%s:%s" % (m.opcode, kindsig), "second lookup of a rejected table failed without message (%s, %s)" % (m.label, m.kind), replay)
        if chk[0] == 1 and get[0] == 0:
            v.violation("C13:e:%s:%s" % (m.opcode, kindsig), "an accepted table was not found by the next lookup (%s, %s)" % (m.label, m.kind), replay)
        # (c) G and H behave as in a fresh process
        g_after = [strip_w(l) for l in m.res[n0 + 4:n0 + 4 + nG]]
        h_after = [strip_w(l) for l in m.res[n0 + 4 + nG:n0 + 4 + nG + 3]]
        g_before = [strip_w(l) for l in m.res[:nG]]
        if g_before != refG or g_after != refG:
            k = next((j for j in range(nG) if j >= len(g_after) or g_after[j] != refG[j]), 0)
            v.violation("C13:c:%s:%s" % (m.opcode, kindsig),
                        "a good table behaves differently after the mutant was compiled (%s, %s): fresh %s, after %s"
                        % (m.label, m.kind, refG[k][:120], (g_after + [""] * nG)[k][:120]), replay)
        if h_after != refH:
            k = next((j for j in range(3) if j >= len(h_after) or h_after[j] != refH[j]), 0)
            v.violation("C13:c:%s:%s" % (m.opcode, kindsig),
                        "compiling another good table after the mutant differs from a fresh process (%s, %s): fresh %s, after %s"
                        % (m.label, m.kind, refH[k][:120], (h_after + [""] * 3)[k][:120]), replay)
        # (d) the same bytes give the same outcome in a fresh process (return value, error count, probe translations)
        a = [strip_w(m.res[n0])] + [strip_w(l) for l in m.res[n0 + 2:n0 + 4]]
        b = [strip_w(l) for l in m.res2[:3]]
        # probes after a failed compile re-compile and re-log: compare return values and outputs, not message counts
        if chk[0] == 0:
            a = [re.sub(r" e=\d+", "", x) for x in a[1:]] + [a[0]]
            b = [re.sub(r" e=\d+", "", x) for x in b[1:]] + [b[0]]
        if a != b:
            k = next((j for j in range(len(a)) if j >= len(b) or a[j] != b[j]), 0)
            v.violation("C13:d:%s:%s" % (m.opcode, kindsig),
                        "the same table bytes give different outcomes after other tables and in a fresh process (%s, %s): %s vs %s"
                        % (m.label, m.kind, a[k][:140], (b + [""] * 4)[k][:140]), replay)
        if len(v.cov["samples"]) < 6 and m.kind not in ("del", "dup") and m.id.startswith("s") and rng.random() < 0.01:
            v.sample({"base": m.label, "opcode": m.opcode, "corruption": m.kind, "check": m.res[n0][:80]})
    v.cov["distribution"] = dist
    v.cov["exhaustive"] = tier != "quick"
    v.cov["rule"] = ("systematic: every line of %d small valid tables (kitchen sink with ~110 opcodes, 3 generated, 3 shipped) x the fixed "
                     "corruption set {del, dup, trunc at each token boundary, swap adjacent tokens, operand replaced by 2100 characters in 5 "
                     "spellings, dots replaced by 9/g/empty/-/duplicate, NUL/0xFF/0xFE/backslash/UTF-8 lead/CR inserted at token "
                     "boundaries and mid-token, unterminated string, unknown opcode, macro, self-include, missing include, include list, "
                     "each number replaced by 0/65535/65536/99999999999/-1}%s; %d random byte-level mutants of shipped tables with their "
                     "includes; %d grammar mutants (%d hand-written out-of-range lines + random splices) in generated tables; each mutant: "
                     "G translate, CHK M, GET M, probes, G again, CHK H + probes, FREE under ASan+UBSan+LSan, then CHK M + probes in a "
                     "fresh process; non-trivial = distinct (base, opcode, corruption, outcome)"
                     % (len(bases), " (quick tier: seeded sample of 800 + all structural kinds on the kitchen sink)" if tier == "quick" else "",
                        nb, ng, len(BAD_LINES)))
    return v.finish()
