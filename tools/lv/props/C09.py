"""C09 — dotsIO, ucBrl and the display table only re-encode cells."""
import random
from .. import common, corpus, suite_translate as st

THEOREMS = ["Lou.C09.fwdRun_enc", "Lou.C09.finish_encodings", "Lou.C09.typeformCell_spec", "Lou.C09.back_decode",
            "Lou.C09.back_unicode", "Lou.C09.translate_enc", "Lou.C09.translateC_enc", "Lou.C09B.translate_enc",
            "Lou.C09B.translateC_enc", "Lou.C09.engineFor_modeBlind", "Lou.C09.engineForBack_modeBlind",
            "Lou.C09.whole_call_fwd_encodings", "Lou.C09.whole_call_fwd_three", "Lou.C09.backRun_decode",
            "Lou.C09.whole_call_back_decode"]

CLAIM = dict(
    text=("Kernel-checked: for engines that ignore the two encoding bits (ModeBlind) the pass loop is identical for the "
          "three encodings (fwdRun_enc), and for one and the same driver state the default output is the display image of "
          "the dotsIO output cell by cell, the ucBrl output is (cell & 0xff) | 0x2800, lengths and both position maps are "
          "equal, and typeform[k] = '8' iff cell k has dot 7 or 8 (finish_encodings, typeformCell_spec); the backward input "
          "decoder in character mode equals the dotsIO decoder on the lou_charToDots image (back_decode) and accepts U+28xx in "
          "place of flagged dot patterns (back_unicode; false on the tree as found - F8 - repaired). ModeBlind is PROVED for the "
          "four modelled main passes (F0, B0 and their extensions with context rules: translate_enc, translateC_enc in both "
          "directions - the mode reaches only the noUndefined, noContractions and partialTrans tests) and hence for the engines "
          "of the whole-call model (engineFor_modeBlind, engineForBack_modeBlind); so without any hypothesis about the engine: "
          "two forward calls of the whole-call model that differ only in the encoding bits go through the same stages with the "
          "same data and end in the same driver state (whole_call_fwd_encodings), the default / dotsIO / dotsIO|ucBrl results "
          "are related cell by cell with equal lengths and position maps (whole_call_fwd_three), and back-translating "
          "NUL-free characters equals back-translating (dotsIO) their display image: same stages, same result "
          "(whole_call_back_decode). Tie: the same call is "
          "run in the three encodings on every shipped table and display table with the other mode bits; the H4 traces of "
          "the three runs must be identical (engine blindness on real runs), and the statement itself is the oracle."),
    note=("ModeBlind is proved for the Layer B engines (tables inside the whole-call fragment; the whole-call model is compared with the "
          "code in all encodings on composite generated tables in this check); for the other opcodes it is what the cross-encoding "
          "trace equality checks on every shipped table."),
    technique="Lean 4 proof over the driver model + cross-encoding H4 trace equality + oracle search",
    design="DESIGN.md §7 C09")


def strip_cursor(passes):
    return [(p["pass"], tuple(p["in"]), tuple(p["out"]), tuple(p["map"]), p["realInlen"]) for p in passes]


def run(tier):
    v = common.Verdict("C09", tier)
    rng = random.Random(common.seed() * 1000003 + 9)
    common.lean_obligations(v, THEOREMS)
    try:
        exe = common.build_harness()
        v.obligation("harness builds from /repo working tree (hooks on, ASan+UBSan)", True)
    except common.BuildError as e:
        v.obligation("harness builds from /repo working tree (hooks on, ASan+UBSan)", False, str(e)[-2000:])
        return v.finish()
    tables = corpus.quick_tables() if tier == "quick" else corpus.all_tables()
    dis = corpus.display_tables()[: (5 if tier == "quick" else 40)]
    n = 10 if tier == "quick" else 40
    cases = []
    groups = []   # (case, start index) of a 3-encoding forward group / backward group
    for ti, t in enumerate(tables):
        ops = []
        for _ in range(n):
            u = [c for c in corpus.rand_input(rng, 20)]
            other = rng.choice([0, 0, 1, 128, 1 | 128])
            cap = st.caps_for(rng, len(u))
            am = rng.choice([29, 13, 1, 28])
            cur = rng.randint(0, max(len(u) - 1, 0))
            disp = rng.choice(dis) if (dis and rng.random() < 0.25) else None
            g = []
            for enc in (0, 4, 4 | 64):
                op = st.gen_fwd_op(rng, t, inp=u, mode=other | enc, cap=cap, argmask=am | (256 if disp else 0), cursor=cur)
                # identical typeform for the three runs
                if am & 1:
                    tt = op.split(" "); tt[7] = common.wide([0] * len(u)); op = " ".join(tt)
                if disp:
                    op += " " + corpus.tpath(disp)
                g.append(op)
            groups.append(("F", t, len(ops), disp))
            ops += g
            if disp:
                ops.append("D2C %s 0 PLACEHOLDER" % corpus.tpath(disp))
            else:
                ops.append("D2C %s 0 PLACEHOLDER" % corpus.tpath(t))
        cases.append(common.Case("c09-f%d" % ti, ["HOOK trace 1"], ops, {"table": t}))
    # the D2C placeholder needs the dotsIO output: two-phase run
    common.run_cases(exe, cases, batch=8)
    cases2 = []
    for c in cases:
        ops = list(c.ops)
        for i, op in enumerate(ops):
            if op.endswith("PLACEHOLDER"):
                R = common.parse_R(c.out[i - 2]) if i - 2 < len(c.out) else None
                cells = R["out"] if (R and R["ret"]) else []
                ops[i] = op.replace("PLACEHOLDER", common.wide(cells))
        cases2.append(common.Case(c.id, c.setup, ops, c.meta))
    common.run_cases(exe, cases2, batch=8)
    nfwd = 0
    for c in cases2:
        t = c.meta["table"]
        i = 0
        while i + 3 < len(c.ops):
            if not c.ops[i].startswith("FWD"):
                i += 1
                continue
            if len(c.out) <= i + 3:
                break
            Rd, Ri, Ru = (common.parse_R(c.out[i + j]) for j in range(3))
            conv = c.out[i + 3]
            ops3 = c.ops[i:i + 3]
            i += 4
            if not (Rd and Ri and Ru):
                continue
            v.cov["evaluations"] += 1
            nfwd += 1
            rep = {"script": c.setup + ops3, "results": [c.out[i - 4 + j][:1500] for j in range(3)]}
            if Ri["ret"] != 1 or Ru["ret"] != 1:
                if Ri["ret"] != Ru["ret"]:
                    v.violation("C09:ret:dots", "dotsIO and dotsIO|ucBrl runs disagree on the return value | table=%s" % t, rep)
                continue
            if Ri["out"]:
                v._distinct.add((t, ops3[1].split(" ")[2], tuple(Ri["out"])))
            if [(x & 0xff) | 0x2800 for x in Ri["out"]] != Ru["out"]:
                v.violation("C09:ucbrl", "ucBrl output is not (cell & 0xff) | 0x2800 of the dotsIO output | table=%s" % t, rep)
            for a, b, nm in ((Ri, Ru, "ucbrl"),) + (((Ri, Rd, "default"),) if Rd["ret"] else ()):
                if (a["inlen"], a["outlen"], a.get("ip"), a.get("op"), a.get("cur")) != (b["inlen"], b["outlen"], b.get("ip"), b.get("op"), b.get("cur")):
                    v.violation("C09:lengths:%s" % nm, "lengths / position maps / cursor differ between dotsIO and %s run | table=%s" % (nm, t), rep)
                if strip_cursor(a["passes"]) != strip_cursor(b["passes"]):
                    v.violation("C09:traces:%s" % nm, "the stages saw or produced different cells in the dotsIO and the %s run | table=%s" % (nm, t), rep)
            if Rd["ret"]:
                if conv.startswith("V 1 "):
                    img = common.unwide(conv.split(" ")[2])
                    if img != Rd["out"]:
                        v.violation("C09:default", "default output is not the display-table image (lou_dotsToChar) of the dotsIO output | table=%s" % t, rep)
            else:
                # default run failed: must be a missing display mapping (some dotsIO cell maps to NUL -> ' ' in D2C)
                if Rd["e"] < 1:
                    v.violation("C09:ret0", "default-encoding run returned 0 without an error although the dotsIO run succeeded | table=%s" % t, rep)
            tf = Ri.get("tf", "-")
            if tf not in ("-", ""):
                want = ["0038" if (x & 0xc0) else "0030" for x in Ri["out"]]
                if "".join(want) != tf and Ri["out"]:
                    v.violation("C09:typeform", "typeform on return is not '8' exactly at cells with dot 7/8 | table=%s" % t, rep)
            if len(v.cov["samples"]) < 4 and Ri["out"]:
                v.sample({"ops": [o[:160] for o in ops3], "dotsIO": common.wide(Ri["out"])[:80], "default": common.wide(Rd["out"])[:80]})
    # backward: characters vs dotsIO of their lou_charToDots image; unicode braille vs flagged
    bcases = []
    for ti, t in enumerate(tables):
        ops = []
        for _ in range(n):
            chars = [rng.choice(b" abcdefghijklmnopqrstuvwxyz,;:.!?'-0123456789#^_\"=+<>/") for _ in range(rng.randint(1, 20))]
            if rng.random() < 0.5:
                # words: short groups between single blanks, lower cells (digits and punctuation of the ASCII braille
                # code) standing alone - the shapes whole-word, lowword and punctuation rules of the backward tables test
                chars = []
                for _w in range(rng.randint(1, 6)):
                    chars += [rng.choice(b"abcdefghijklmnopqrstuvwxyz0123456789,;:.!?'-\"") if rng.random() < 0.6 else rng.choice(b"0123456789,;:.!?'-\"")
                              for _ in range(rng.choice([1, 1, 1, 2, 3, 5]))] + [0x20]
                chars = chars[:-1] if rng.random() < 0.7 else chars
            ops.append("C2D %s 0 %s" % (corpus.tpath(t), common.wide(chars)))
            cells = corpus.rand_braille(rng, 20, dots_io=True)
            if rng.random() < 0.35:
                # the corners of the Unicode braille block (U+2800, U+28FF) and of the flagged range
                k = rng.randrange(len(cells) + 1)
                cells.insert(k, rng.choice([0x80ff, 0x80ff, 0x8000, 0x80fe, 0x8080]))
            other = rng.choice([0, 256, 128])
            cap = st.caps_for(rng, len(cells))
            ops.append(st.gen_bwd_op(rng, t, cells, mode=4 | other, cap=cap, argmask=28, cursor=0))
            ops.append(st.gen_bwd_op(rng, t, [(c & 0xff) | 0x2800 for c in cells], mode=4 | other, cap=cap, argmask=28, cursor=0))
        bcases.append(common.Case("c09-b%d" % ti, ["HOOK trace 1"], ops, {"table": t, "chars": True}))
    common.run_cases(exe, bcases, batch=8)
    b2 = []
    for c in bcases:
        ops = []
        for i in range(0, len(c.ops) - 2, 3):
            if len(c.out) <= i:
                break
            cv = c.out[i]
            chars = c.ops[i].split(" ")[3]
            if cv.startswith("V 1 "):
                dots = cv.split(" ")[2]
                other = rng.choice([0, 256, 128])
                cap = st.caps_for(rng, len(chars) // 4)
                ops.append("BWD %s %d %d 0 28 %s - -" % (corpus.tpath(c.meta["table"]), other, cap, chars))
                ops.append("BWD %s %d %d 0 28 %s - -" % (corpus.tpath(c.meta["table"]), other | 4, cap, dots))
        b2.append(common.Case(c.id + "x", ["HOOK trace 1"], ops, c.meta))
    common.run_cases(exe, b2, batch=8)
    nb = 0
    for c in bcases:
        for i in range(0, len(c.ops) - 2, 3):
            if len(c.out) <= i + 2:
                break
            Ra, Rb = common.parse_R(c.out[i + 1]), common.parse_R(c.out[i + 2])
            if not (Ra and Rb):
                continue
            nb += 1
            v.cov["evaluations"] += 1
            key = lambda R: (R["ret"], R["inlen"], R["outlen"], tuple(R["out"]), R.get("ip"), R.get("op"), R.get("cur"))
            if key(Ra) != key(Rb):
                v.violation("C09:back:unicode", "dotsIO back-translation of U+28xx cells differs from the same cells as flagged dot patterns | table=%s" % c.meta["table"],
                            {"script": c.setup + c.ops[i + 1:i + 3], "results": [c.out[i + 1][:800], c.out[i + 2][:800]]})
            elif Ra["out"]:
                v._distinct.add(("bu", c.meta["table"], tuple(Ra["out"])))
    for c in b2:
        for i in range(0, len(c.ops) - 1, 2):
            if len(c.out) <= i + 1:
                break
            Ra, Rb = common.parse_R(c.out[i]), common.parse_R(c.out[i + 1])
            if not (Ra and Rb):
                continue
            nb += 1
            v.cov["evaluations"] += 1
            key = lambda R: (R["ret"], R["inlen"], R["outlen"], tuple(R["out"]), R.get("ip"), R.get("op"), R.get("cur"))
            if key(Ra) != key(Rb):
                v.violation("C09:back:decode", "back-translating characters differs from back-translating (dotsIO) their lou_charToDots image | table=%s" % c.meta["table"],
                            {"script": c.setup + c.ops[i:i + 2], "results": [c.out[i][:800], c.out[i + 1][:800]]})
            elif Ra["out"]:
                v._distinct.add(("bd", c.meta["table"], tuple(Ra["out"])))
    # whole calls on composite generated tables in every encoding: the model alone (driver + engines, about which
    # engineFor_modeBlind / whole_call_fwd_three / whole_call_back_decode speak) computes the result
    wc = st.composite_cases(rng, 100 if tier == "quick" else 2500, per_table=8, tag="c09wc", argmasks=[12, 28, 13, 29],
                            modes_f=(0, 4, 4 | 64, 4 | 64 | 128, 128, 64), modes_b=(4, 4 | 128, 4 | 256))
    wcalls = st.run_and_trace(exe, wc)
    wdist = {}
    whole_bad = st.compare_whole(wcalls, wdist)
    v.obligation("correspondence: the model alone (driver + main-pass + stage models) computes the whole result of every call on "
                 "composite generated tables in the default, dotsIO and dotsIO|ucBrl encodings", not whole_bad, "\n".join(whole_bad[:3]))
    v.cov["evaluations"] += wdist.get("whole_calls_compared", 0)
    for c in cases2 + bcases + b2:
        if c.fault:
            v.notes.append("fault during C09 run (memory faults are decided by C01/C02): %s %s" % (c.fault["kind"], c.fault["frame"]))
    v.cov["distribution"] = {"forward_triples": nfwd, "backward_pairs": nb, "display_tables": len(dis), "whole_calls": wdist}
    v.cov["traces_validated_against_impl"] = nfwd * 3
    v.cov["rule"] = ("each forward call is run in the three encodings {default, dotsIO, dotsIO|ucBrl} with identical other arguments "
                     "(incl. noContractions/noUndefined, separate .dis display tables) on %d tables; each backward call as characters vs "
                     "dotsIO(lou_charToDots image) and as U+28xx vs flagged cells; distinct by (table, mode, produced cells)" % len(tables))
    return v.finish()
