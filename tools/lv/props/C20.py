"""C20 — table names resolve by a fixed precedence."""
import os, random, re, shutil, tempfile
from .. import common

THEOREMS = [
    "Lou.C20.resolve_precedence", "Lou.C20.candidates_eq_of_fits", "Lou.C20.resolve_precedence_fits",
    "Lou.C20.resolve_some_iff", "Lou.C20.resolve_pure", "Lou.C20.resolver_pure",
    "Lou.C20.resolve_none_iff", "Lou.C20.resolve_none_fails", "Lou.C20.resolve_none_fails_fits",
    "Lou.C20.list_base_rule", "Lou.C20.resolver_fails_iff", "Lou.C20.resolver_fail_logs_error",
    "Lou.C20.resolver_ok_logs_nothing", "Lou.C20.include_unresolved",
    "Lou.C20.searchpath_entries", "Lou.C20.searchpath_order", "Lou.C20.getTablePath_cases",
    "Lou.C20.tablepath_dirs_first",
    "Lou.C20.base_dir_wins", "Lou.C20.as_given_wins", "Lou.C20.path_order", "Lou.C20.path_order_variant",
    "Lou.C20.dirPrefix_dir_file", "Lou.C20.dirPrefix_plain", "Lou.C20.overflow_hides_later_candidate",
]

CLAIM = dict(
    text=("Kernel-checked theorems (LouProofs/C20.lean) over a transcription of resolveSubtable, _lou_getTablePath and "
          "_lou_defaultTableResolver on an ABSTRACT file system: for all file systems, names, bases and search paths the "
          "resolver returns the first regular file of an explicit candidate list (base directory, name as given, each "
          "search-path entry with its liblouis/tables variant except the last), NULL iff none exists, a list fails as a "
          "whole iff one member fails (then an ERROR is logged), the search path is LOUIS_TABLEPATH entries in order, then "
          "the data path, then TABLESDIR only when the variable is unset/empty; the answer is a function of those inputs "
          "only. Tied to the code by an exhaustive differential: every presence/absence pattern of a marker table over "
          "{base dir, as given, p1, p1/liblouis/tables, p2, p2/liblouis/tables} x {plain, relative, absolute name} x "
          "{list member, include} is built on disk, _lou_resolveTable must print what the Lean model prints, and the "
          "file actually compiled is identified end to end by the marker rule it carries; repeated after unrelated "
          "loads, after lou_free and in reverse case order."),
    note=("Hypotheses forced by the code: no candidate reaches 4096 bytes (an over-long early candidate aborts the whole "
          "resolution); list members after the first are resolved against the first member's name as written; TABLESDIR "
          "is not searched when LOUIS_TABLEPATH is set. Default resolver only (lou_registerTableResolver replaces it). "
          "_lou_getTablePath overflows its 2048-byte stack buffer for longer LOUIS_TABLEPATH values (outside the model: "
          "tablePathFits)."),
    technique="Lean 4 proof over an abstract file system + exhaustive differential on real directories + end-to-end marker identification",
    design="DESIGN.md §7 C20")

LOCS = ["D", "G", "P1", "P1L", "P2", "P2L"]      # P2L: liblouis/tables below the LAST entry: never searched
DOT = {"D": 1, "G": 2, "P1": 3, "P1L": 4, "P2": 5, "P2L": 6, "X": 7, "O": 8}
PROP_ORDER = ["D", "G", "P1", "P2"]              # the order the property text states
MODEL_ORDER = ["D", "G", "P1", "P1L", "P2"]
MK = "c20mk.utb"


def hx(s):
    return common.hexbytes(s)


def dotword(loc):
    return "%04x" % (0x8000 | (1 << (DOT[loc] - 1)))


class Scn:
    """one scenario: a directory tree, an environment, a list/include request"""
    def __init__(self, cid, C):
        self.id = cid
        self.C = C
        self.files = {}       # abs path -> content
        self.dirs = set()     # abs paths
        self.env = None       # LOUIS_TABLEPATH value or None
        self.envset_empty = False
        self.datapath = None
        self.cwd = C + "/w"
        self.kind = "include"
        self.main = None      # main table as given
        self.name = None      # marker name as given (what is included / listed)
        self.locfile = {}     # loc -> abs path of the marker copy
        self.present = ()
        self.meta = {}
        self.extra_listing = []   # (kind, path) outside the case dir (e.g. TABLESDIR files)
        self.resolve_ops = None   # override [(list, base)]
        self.get = None           # override list given to GET/FWD
        self.expect_loc = "?"     # for special cases: expected location key, None = must fail, "?" = model only
        self.bits = None          # random scenarios: loc -> dot bits of the copy
        self.mid = None           # list kind: an unrelated member between the first member and the marker

    def add_file(self, p, content):
        self.files[os.path.normpath(p)] = content
        self.add_dir(os.path.dirname(os.path.normpath(p)))

    def add_dir(self, p):
        p = os.path.normpath(p)
        while p.startswith(self.C) and p not in self.dirs:
            self.dirs.add(p)
            p = os.path.dirname(p)

    def leaf_dirs(self):
        ds = sorted(self.dirs)
        # sorted: a directory with a descendant is directly followed by one ("/" sorts before letters only
        # sometimes, so test all later entries that share the prefix)
        out = []
        for i, d in enumerate(ds):
            j = i + 1
            has = False
            while j < len(ds) and ds[j].startswith(d):
                if ds[j].startswith(d + "/"):
                    has = True
                    break
                j += 1
            if not has:
                out.append(d)
        return out

    def setup(self):
        L = []
        for d in self.leaf_dirs():
            L.append("MKDIRP " + d)
        for p, c in sorted(self.files.items()):
            L.append("TBL %s %s" % (p, hx(c)))
        return L

    def env_ops(self):
        L = []
        if self.envset_empty:
            L.append("ENVSET LOUIS_TABLEPATH -")
        elif self.env is None:
            L.append("ENV LOUIS_TABLEPATH -")
        else:
            L.append("ENV LOUIS_TABLEPATH " + hx(self.env))
        L.append("DATAPATH " + (self.datapath if self.datapath else "-"))
        L.append("CWD " + self.cwd)
        return L

    def requests(self):
        """(list, base) pairs given to RESOLVE; the LAST path of the answer is the marker's"""
        if self.resolve_ops is not None:
            return self.resolve_ops
        if self.kind == "include":
            return [(self.name, self.main)]
        return [(self.listname(), None)]

    def listname(self):
        return ",".join([self.main] + ([self.mid] if self.mid else []) + [self.name])

    def getlist(self):
        if self.get is not None:
            return self.get
        return self.main if self.kind == "include" else self.listname()

    def mresolve(self, lst, base, tablesdir):
        env = "-" if self.envset_empty else ("null" if self.env is None else hx(self.env))
        ents = ["d:" + hx(d) for d in self.leaf_dirs()] + ["f:" + hx(f) for f in sorted(self.files)]
        ents += ["%s:%s" % (k, hx(p)) for k, p in self.extra_listing]
        return "MRESOLVE %s %s %s %s %s %s %s" % (
            hx(self.cwd), env, hx(self.datapath) if self.datapath else "null", hx(tablesdir), hx(lst),
            hx(base) if base is not None else "null", " ".join(ents))


def std_scn(cid, R, present, form, kind, mainform):
    """the exhaustive family"""
    C = "%s/%s" % (R, cid)
    s = Scn(cid, C)
    s.kind, s.present = kind, tuple(present)
    for d in ("d", "w", "p1", "p2"):
        s.add_dir(C + "/" + d)
    s.env = "%s/p1,%s/p2" % (C, C)
    s.main = C + "/d/main.ctb" if mainform == "abs" else "../d/main.ctb"
    if kind == "list" and mainform == "abs":
        # three members: the marker is resolved against the FIRST member, not the one before it
        # (<R>/other/ holds a copy of the marker for every name form, carrying rule 8)
        s.mid = R + "/other/plain.ctb"
        s.extra_listing = [("f", R + "/other/plain.ctb")]
    if form == "plain":
        s.name = MK
    elif form == "rel":
        s.name = "sub/" + MK
    else:
        s.name = C + "/abs/" + MK
        s.add_dir(C + "/abs")
    n = s.name
    s.locfile = {
        "D": C + "/d/" + n, "G": n if form == "abs" else C + "/w/" + n,
        "P1": C + "/p1/" + n, "P1L": C + "/p1/liblouis/tables/" + n,
        "P2": C + "/p2/" + n, "P2L": C + "/p2/liblouis/tables/" + n}
    for loc in present:
        s.add_file(s.locfile[loc], "sign a %d\n" % DOT[loc])
    s.add_file(C + "/d/main.ctb", ("include %s\n" % n) if kind == "include" else "# main\nsign b 12\n")
    s.meta = dict(present="".join(l + "." for l in present), form=form, kind=kind, main=mainform)
    exp = [l for l in MODEL_ORDER if l in present]
    s.expect_loc = exp[0] if exp else None
    return s


def special_scns(R):
    """quirks of the code, outside the exhaustive family: the model must predict each;
    where the property text speaks, `expect_loc` is what it demands"""
    out = []

    def new(tag):
        C = "%s/s-%s" % (R, tag)
        s = Scn("s-" + tag, C)
        for d in ("d", "w", "p1", "p2"):
            s.add_dir(C + "/" + d)
        s.name = MK
        s.main = C + "/d/main.ctb"
        s.add_file(C + "/d/main.ctb", "include %s\n" % MK)
        s.meta = dict(special=tag)
        out.append(s)
        return s, C

    # search-path spellings
    for tag, envf, files, exp in [
        ("empty-mid", "{C}/p1,,{C}/p2", {"P2": "{C}/p2/" + MK, "X": "{C}/w/liblouis/tables/" + MK}, "X"),
        ("empty-last", "{C}/p1,", {"X": "{C}/w/liblouis/tables/" + MK, "P1L": "{C}/p1/liblouis/tables/" + MK}, "P1L"),
        ("empty-last-only", "{C}/p1,", {"X": "{C}/w/liblouis/tables/" + MK}, None),
        ("empty-first", ",{C}/p1", {"X": "{C}/w/liblouis/tables/" + MK, "P1": "{C}/p1/" + MK}, "X"),
        ("trailing-slash", "{C}/p1/,{C}/p2/", {"P1L": "{C}/p1/liblouis/tables/" + MK, "P2": "{C}/p2/" + MK}, "P1L"),
        ("three", "{C}/p1,{C}/p2,{C}/p3", {"P2L": "{C}/p2/liblouis/tables/" + MK, "X": "{C}/p3/" + MK}, "P2L"),
        ("three-last", "{C}/p1,{C}/p2,{C}/p3", {"X": "{C}/p3/liblouis/tables/" + MK}, None),
        ("reversed", "{C}/p2,{C}/p1", {"P1": "{C}/p1/" + MK, "P2": "{C}/p2/" + MK}, "P2"),
        ("single", "{C}/p1", {"P1L": "{C}/p1/liblouis/tables/" + MK}, None),
        ("dir-in-the-way", "{C}/p1,{C}/p2", {"P2": "{C}/p2/" + MK}, "P2"),
    ]:
        s, C = new(tag)
        s.env = envf.format(C=C)
        for loc, p in files.items():
            s.add_file(p.format(C=C), "sign a %d\n" % DOT[loc])
            s.locfile[loc] = p.format(C=C)
        if tag == "dir-in-the-way":        # directories called like the table at every earlier candidate
            for p in ("/d/", "/w/", "/p1/", "/p1/liblouis/tables/"):
                s.add_dir(C + p + MK)
        s.expect_loc = exp
    # LOUIS_TABLEPATH unset / empty: the built-in directory is searched, and only then
    real = "en-us-g1.ctb"
    realp = os.path.join(common.REPO, "tables", real)
    for tag in ("unset", "empty"):
        s, C = new("tablesdir-" + tag)
        s.env = None
        s.envset_empty = tag == "empty"
        s.resolve_ops = [(real, None), (MK, None), (MK, C + "/d/main.ctb")]
        s.extra_listing = [("f", realp)]
        s.get = C + "/d/main.ctb"
        s.expect_loc = None
    s, C = new("tablesdir-not-when-set")
    s.env = C + "/p1"
    s.resolve_ops = [(real, None)]
    s.extra_listing = [("f", realp)]
    s.get = real
    s.expect_loc = None
    # data path
    s, C = new("datapath-env")
    s.env = C + "/p1"
    s.datapath = C + "/dp"
    s.locfile = {"P1L": C + "/p1/liblouis/tables/" + MK, "X": C + "/dp/liblouis/tables/" + MK}
    for loc, p in s.locfile.items():
        s.add_file(p, "sign a %d\n" % DOT[loc])
    s.expect_loc = "P1L"
    s, C = new("datapath-only")
    s.env = None
    s.datapath = C + "/dp"
    s.locfile = {"X": C + "/dp/liblouis/tables/liblouis/tables/" + MK}
    s.add_file(s.locfile["X"], "sign a %d\n" % DOT["X"])
    s.expect_loc = "X"
    # list base = first member's NAME: main is found on the search path in p2, marker in p1 and p2
    for kind in ("list", "include"):
        s, C = new("plain-main-" + kind)
        s.env = "%s/p1,%s/p2" % (C, C)
        s.files.pop(os.path.normpath(C + "/d/main.ctb"))
        s.main = "main.ctb"
        s.kind = kind
        s.add_file(C + "/p2/main.ctb", "include %s\n" % MK if kind == "include" else "# main\n")
        s.locfile = {"P1": C + "/p1/" + MK, "P2": C + "/p2/" + MK}
        for loc, p in s.locfile.items():
            s.add_file(p, "sign a %d\n" % DOT[loc])
        if kind == "include":
            s.resolve_ops = [(MK, C + "/p2/main.ctb")]
        # list: the 2nd member is NOT looked up beside the file the 1st denotes; include: it is
        s.expect_loc = "P1" if kind == "list" else "P2"
    s, C = new("three-members")
    s.env = C + "/p1"
    s.kind = "list"
    s.add_file(C + "/d/main.ctb", "# main\n")
    s.add_file(C + "/e/mid.ctb", "# mid\n")
    s.mid = C + "/e/mid.ctb"
    s.locfile = {"D": C + "/d/" + MK, "X": C + "/e/" + MK}
    for loc, p in s.locfile.items():
        s.add_file(p, "sign a %d\n" % DOT[loc])
    s.expect_loc = "D"
    # backslash ends the base directory
    s, C = new("backslash")
    s.env = C + "/p1"
    s.main = "d\\main.ctb"
    s.add_file(C + "/w/d\\main.ctb", "include %s\n" % MK)
    s.locfile = {"D": C + "/w/d\\" + MK, "G": C + "/w/" + MK}
    for loc, p in s.locfile.items():
        s.add_file(p, "sign a %d\n" % DOT[loc])
    s.expect_loc = "D"
    # nested include: the base of the inner include is the name the outer one resolved to
    s, C = new("nested")
    s.env = C + "/p1"
    s.add_file(C + "/d/main.ctb", "include ../mid/mid.ctb\n")
    s.add_file(C + "/mid/mid.ctb", "include %s\n" % MK)
    s.locfile = {"X": C + "/mid/" + MK, "D": C + "/d/" + MK, "P1": C + "/p1/" + MK}
    for loc, p in s.locfile.items():
        s.add_file(p, "sign a %d\n" % DOT[loc])
    s.resolve_ops = [("../mid/mid.ctb", C + "/d/main.ctb"), (MK, C + "/d/../mid/mid.ctb")]
    s.expect_loc = "X"
    # malformed lists
    for tag, lst in [("empty-member", "{m},,{n}"), ("trailing-comma", "{m},"), ("leading-comma", ",{m}")]:
        s, C = new(tag)
        s.env = C + "/p1"
        s.add_file(C + "/p1/" + MK, "sign a 3\n")
        s.add_file(C + "/d/main.ctb", "# main\n")
        lst = lst.format(m=s.main, n=MK)
        s.resolve_ops = [(lst, None)]
        s.get = lst
        s.expect_loc = None
    s, C = new("include-list")
    s.env = C + "/p1"
    s.add_file(C + "/d/main.ctb", "include %s,%s\n" % (MK, MK))
    s.add_file(C + "/d/" + MK, "sign a 1\n")
    s.add_file(C + "/w/" + MK, "sign a 2\n")
    s.resolve_ops = [(MK + "," + MK, C + "/d/main.ctb")]
    s.meta["must_fail_compile"] = True
    s.expect_loc = "?"
    # an over-long early candidate abandons the whole resolution (hypothesis `Fits`)
    s, C = new("overflow")
    long_dir = C + "/" + ("q" * 200 + "/") * 7
    s.env = long_dir + "," + C + "/p2"
    s.name = ("s" * 200 + "/") * 14 + MK
    s.add_file(C + "/d/main.ctb", "# main\n")
    s.kind = "list"
    s.locfile = {"P2": C + "/p2/" + s.name}
    s.add_file(s.locfile["P2"], "sign a 5\n")
    s.meta["fits"] = False
    s.expect_loc = "?"
    return out


def loc_of_path(s, path):
    """which marker copy a returned file name denotes (by the file it reaches)"""
    p = path if path.startswith("/") else s.cwd + "/" + path
    p = os.path.normpath(p)
    for loc, f in s.locfile.items():
        if os.path.normpath(f if f.startswith("/") else s.cwd + "/" + f) == p:
            return loc
    return "other:" + path


def bits_rule(bits):
    return "sign a %s\n" % "".join(str(i + 1) for i in range(8) if bits >> i & 1)


def random_scn(cid, R, rng):
    """random search-path spellings, data path, name forms and marker placement: model differential
    plus 'the file compiled is the file named'"""
    C = "%s/%s" % (R, cid)
    s = Scn(cid, C)
    pool = ["d", "w", "p1", "p2", "p3", "dp/liblouis/tables", "w/liblouis/tables", "abs"]
    pool += [d + "/liblouis/tables" for d in ("p1", "p2", "p3", "dp/liblouis/tables")]
    for d in pool:
        s.add_dir(C + "/" + d)
    ents = [C + "/p1", C + "/p2", C + "/p3", "", C + "/p1/", ".", "../p2", C + "/p2/liblouis/tables"]
    k = rng.choice([0, 1, 1, 2, 2, 3, 4])
    s.env = ",".join(rng.choice(ents) for _ in range(k)) if k else None
    if s.env == "":
        s.env, s.envset_empty = None, True
    s.datapath = C + "/dp" if rng.random() < 0.3 else None
    s.kind = rng.choice(["include", "list"])
    s.main = rng.choice([C + "/d/main.ctb", "../d/main.ctb", C + "/w/../d/main.ctb"])
    s.name = rng.choice([MK, MK, "sub/" + MK, "./" + MK, "../w/" + MK, C + "/abs/" + MK, "sub/../" + MK])
    s.bits = {}
    nb = 1
    places = [C + "/" + d + "/" + s.name for d in pool] + ([s.name] if s.name.startswith("/") else [])
    for pth in places:
        q = os.path.normpath(pth)
        if rng.random() < 0.3 and q not in s.files:
            s.locfile[nb] = q
            s.bits[nb] = nb
            s.add_file(q, bits_rule(nb))
            nb += 1
    if "sub/" in s.name:
        for d in pool:
            if rng.random() < 0.7:
                s.add_dir(C + "/" + d + "/sub")
    s.add_file(C + "/d/main.ctb", ("include %s\n" % s.name) if s.kind == "include" else "# main\n")
    s.meta = dict(random=True, env=(s.env or "").replace(C, "C"), dp=bool(s.datapath), name=s.name.replace(C, "C"),
                  kind=s.kind, main=s.main.replace(C, "C"), copies=len(s.locfile))
    return s


def loc_of_dots(word, s=None):
    if s is not None and getattr(s, "bits", None) is not None:
        for loc, b in s.bits.items():
            if word == "%04x" % (0x8000 | b):
                return loc
        return "other:" + word
    for loc, d in DOT.items():
        if word == "%04x" % (0x8000 | (1 << (d - 1))):
            return loc
    return "other:" + word


def build_case(s, heavy, R):
    glist = s.getlist()
    fwd = "FWD %s 4 8 - 0 0061 - -" % glist
    ops, tags = [], []

    def round_(tag):
        for lst, base in s.requests():
            ops.append("RESOLVE %s %s" % (lst, base if base is not None else "-"))
            tags.append(("RS", tag, lst, base))
        ops.append("GET " + glist); tags.append(("G", tag))
        ops.append(fwd); tags.append(("R", tag))

    pre = ["FREE"] + s.env_ops()
    ops += pre
    tags += [("x",)] * len(pre)
    round_("first")
    # unrelated loads: another table that includes ITS OWN table of the same name, a plain one, a real one
    ops.append("GET %s/other/o.ctb" % R); tags.append(("x",))
    ops.append("FWD %s/other/o.ctb 4 8 - 0 0061 - -" % R); tags.append(("O",))
    ops.append("GET %s/other/plain.ctb,%s" % (R, MK)); tags.append(("x",))
    # a list whose NAME the list under test is a proper prefix of, with a file that overrides the rule the answer is read
    # from: loaded before, it must not answer for the shorter name (seeded change C20-F: the cache compared a prefix)
    ops.append("GET %s,%s/other/ext.ctb" % (glist, R)); tags.append(("x",))
    if heavy:
        ops.append("GET %s/tables/en-us-g2.ctb" % common.REPO); tags.append(("x",))
    round_("after-loads")
    ops.append("FREE"); tags.append(("x",))
    round_("after-free")
    ops += ["ENV LOUIS_TABLEPATH -", "DATAPATH -", "CWD " + R]
    tags += [("x",)] * 3
    c = common.Case(s.id, s.setup(), ops, s.meta)
    c.scn, c.tags = s, tags
    return c


def run(tier):
    v = common.Verdict("C20", tier)
    rng = random.Random(common.seed() * 1000003 + 20)
    common.lean_obligations(v, THEOREMS)
    try:
        exe = common.build_harness()
        v.obligation("harness builds from /repo working tree (hooks on, ASan+UBSan)", True)
    except common.BuildError as e:
        v.obligation("harness builds from /repo working tree (hooks on, ASan+UBSan)", False, str(e)[-2000:])
        return v.finish()
    tablesdir = common.REPO + "/tables"
    assert not os.path.exists(os.path.join(tablesdir, MK))
    R = tempfile.mkdtemp(prefix="c20-", dir=common.scratch_root())
    try:
        return _run(v, rng, exe, R, tablesdir, tier)
    finally:
        shutil.rmtree(R, ignore_errors=True)


def _run(v, rng, exe, R, tablesdir, tier):
    # ---- the scenario space (finite, fully enumerated in both tiers)
    scns = []
    n = 0
    for form in ("plain", "rel", "abs"):
        for kind in ("include", "list"):
            for mask in range(64):
                present = [l for i, l in enumerate(LOCS) if mask >> i & 1]
                scns.append(std_scn("c%d" % n, R, present, form, kind, "abs")); n += 1
            for mask in range(16):      # the including file / first member named relative to the cwd
                present = [l for i, l in enumerate(PROP_ORDER) if mask >> i & 1]
                scns.append(std_scn("c%d" % n, R, present, form, kind, "rel")); n += 1
    nstd = len(scns)
    scns += special_scns(R)
    nrand = 200 if tier == "quick" else 4000
    scns += [random_scn("r%d" % i, R, rng) for i in range(nrand)]
    os.makedirs(R + "/other")
    open(R + "/other/o.ctb", "w").write("include %s\n" % MK)
    open(R + "/other/" + MK, "w").write("sign a 8\n")
    os.makedirs(R + "/other/sub")
    open(R + "/other/sub/" + MK, "w").write("sign a 8\n")
    open(R + "/other/plain.ctb", "w").write("sign c 14\n")
    open(R + "/other/ext.ctb", "w").write("always a 78\n")
    heavy_ids = set(s.id for s in rng.sample(scns, 6 if tier == "quick" else 60))
    cases = [build_case(s, s.id in heavy_ids, R) for s in scns]
    order = list(cases)
    rng.shuffle(order)                       # generation order is not execution order
    common.run_cases(exe, order, batch=20, timeout=300)
    # the same scenarios again, in the reverse execution order, in other processes (directories exist already)
    cases2 = []
    for c in reversed(order):
        c2 = common.Case(c.id, [], c.ops, c.meta)
        c2.scn, c2.tags = c.scn, c.tags
        cases2.append(c2)
    common.run_cases(exe, cases2, batch=23, timeout=300)
    second = {c.id: c for c in cases2}

    # ---- model
    mlines, mref = [], []
    for c in cases:
        for lst, base in c.scn.requests():
            mlines.append(c.scn.mresolve(lst, base, tablesdir))
            mref.append((c, lst, base))
    # search path string
    tp_cases = []
    C = R + "/tp"
    for env in (None, "", "/a", "/a,/b", ",", "/a,,/b,"):
        for dp in (None, "/dp", "/x,/y"):
            tp_cases.append((env, dp))
    tpc = common.Case("tp", [], [], {})
    for env, dp in tp_cases:
        tpc.ops += [("ENV LOUIS_TABLEPATH -" if env is None else "ENVSET LOUIS_TABLEPATH " + hx(env)),
                    "DATAPATH " + (dp or "-"), "TABLEPATH"]
        mlines.append("MTABLEPATH %s %s %s" % ("null" if env is None else hx(env), hx(dp) if dp else "null", hx(tablesdir)))
    tpc.ops += ["ENV LOUIS_TABLEPATH -", "DATAPATH -"]
    common.run_cases(exe, [tpc], batch=1)
    mout = common.run_model(mlines)
    model = {}
    for (c, lst, base), line in zip(mref, mout):
        model[(c.id, lst, base)] = line
    tp_model = mout[len(mref):]

    # ---- evaluation
    corr_bad, hist_bad = [], []
    dist = {"resolved": 0, "unresolved": 0, "by_loc": {}, "special": 0, "faults": 0}

    def replay(c):
        return {"root": R, "script": c.script(), "note": "run in any directory; all paths are absolute below root"}

    for c in cases:
        s = c.scn
        if c.fault:
            dist["faults"] += 1
            v.violation("C20:fault:%s" % c.fault["kind"], "harness died in %s: %s %s" % (c.id, c.fault["kind"], c.fault["frame"]), replay(c))
            continue
        so = getattr(c, "setup_out", [])
        if len(c.out) != len(c.ops) or len(so) != len(c.setup) or any(l != "OK" for l in so):
            corr_bad.append("%s: setup/ops incomplete: %s" % (c.id, [l for l in so if l != "OK"][:3]))
            continue
        rounds = {}
        for t, line in zip(c.tags, c.out):
            if t[0] == "RS":
                rounds.setdefault(t[1], {}).setdefault("rs", []).append((t[2], t[3], line))
                want = model.get((c.id, t[2], t[3]))
                if want != line and t[1] == "first":
                    corr_bad.append("%s: RESOLVE %s %s: impl '%s' model '%s'" % (c.id, t[2][:80], t[3], line[-200:], (want or "")[-200:]))
            elif t[0] == "G":
                rounds.setdefault(t[1], {})["g"] = line
            elif t[0] == "R":
                rounds.setdefault(t[1], {})["r"] = line
            elif t[0] == "O":
                Ro = common.parse_R(line)
                if not Ro or not Ro["ret"] or "%04x" % Ro["out"][0] != dotword("O"):
                    v.violation("C20:history:unrelated-table", "%s: the unrelated table that includes its own %s "
                                "beside it got another file: %s" % (c.id, MK, line[:200]), replay(c))
        first = rounds["first"]

        def summary(rd):
            # what the user observes: answer of the resolver (without message counts), success of compilation, output
            Rr = common.parse_R(rd["r"])
            return ([l.split(" e=")[0] for _, _, l in rd["rs"]], rd["g"].split(" ")[1] != "0",
                    ("%04x" % Rr["out"][0]) if Rr and Rr["ret"] and Rr["out"] else None)
        s0 = summary(first)
        # (a) history independence inside the process and across processes / orders
        for tag in ("after-loads", "after-free"):
            if summary(rounds[tag]) != s0:
                hist_bad.append((c, tag, s0, summary(rounds[tag])))
        c2 = second.get(c.id)
        if c2 is None or c2.fault or len(c2.out) != len(c.ops):
            corr_bad.append("%s: second run incomplete" % c.id)
        else:
            r2 = {}
            for t, line in zip(c2.tags, c2.out):
                if t[0] == "RS" and t[1] == "first":
                    r2.setdefault("rs", []).append((t[2], t[3], line))
                elif t[0] in ("G", "R") and t[1] == "first":
                    r2[t[0].lower()] = line
            if summary(r2) != s0:
                hist_bad.append((c, "other process, reverse order", s0, summary(r2)))
        # (b) the property text on the implementation's answers
        rs_last = first["rs"][-1][2]
        paths = rs_last.split(" e=")[0].split(" ")[1:]
        e_rs = int(rs_last.split(" e=")[1].split(" ")[0])
        compiled, outw = s0[1], s0[2]
        g_e = int(first["g"].split(" e=")[1].split(" ")[0])
        v.cov["evaluations"] += 1
        if s.meta.get("special"):
            dist["special"] += 1
        resolved = paths != ["null"]
        if resolved:
            dist["resolved"] += 1
        else:
            dist["unresolved"] += 1
        chosen_rs = loc_of_path(s, paths[-1]) if resolved else None
        chosen_e2e = loc_of_dots(outw, s) if outw else None
        key = (s.meta.get("present"), s.meta.get("form"), s.meta.get("kind"), s.meta.get("main"), s.meta.get("special"),
               (s.meta.get("env"), s.meta.get("name"), s.meta.get("dp"), str(chosen_rs)) if s.meta.get("random") else None)
        v._distinct.add(key)
        dist["by_loc"][str(chosen_rs)] = dist["by_loc"].get(str(chosen_rs), 0) + 1
        if len(v.cov["samples"]) < 6 and resolved and len(s.present) >= 3:
            v.sample({"case": c.id, "meta": s.meta, "resolve": first["rs"][-1][2][-160:], "fwd_out": outw})
        if s.meta.get("random"):
            dist["random"] = dist.get("random", 0) + 1
            if not resolved:
                if compiled or g_e < 1 or e_rs < 1:
                    v.violation("C20:not-found-no-error", "%s: name not resolved (%s) but GET gave %s" % (c.id, rs_last, first["g"]), replay(c))
            elif not compiled or chosen_rs != chosen_e2e or str(chosen_rs).startswith("other"):
                v.violation("C20:e2e-mismatch:random", "%s: resolver names %s (copy %s), GET %s, the table compiled carries the rule of copy %s" % (
                    c.id, paths[-1], chosen_rs, first["g"], chosen_e2e), replay(c))
            continue
        if s.meta.get("must_fail_compile"):
            if compiled or g_e < 1:
                v.violation("C20:include-list-compiles", "%s: include of a list compiled: %s" % (c.id, first["g"]), replay(c))
            continue
        if s.meta.get("fits") is False:
            # outside the property's quantifier; the model (searchLoop) predicts the abort, see overflow_hides_later_candidate
            v.notes.append("overflow case: resolver answered '%s' although %s exists (hypothesis Fits)" % (rs_last[:40], "p2/<name>"))
            continue
        if not resolved:
            # "A name found nowhere makes compilation fail with an error"
            if compiled or g_e < 1 or e_rs < 1:
                v.violation("C20:not-found-no-error", "%s: name not resolved (%s) but GET gave %s" % (c.id, rs_last, first["g"]), replay(c))
            valid = [l for l in s.present if l in MODEL_ORDER] if not s.meta.get("special") else ([] if s.expect_loc is None else [s.expect_loc])
            if valid:
                v.violation("C20:present-but-unresolved:%s" % s.meta.get("kind"), "%s: marker present at %s but the resolver failed: %s" % (c.id, valid, rs_last), replay(c))
            continue
        # resolved: compilation must succeed and the file compiled must be the file named
        if not compiled or outw is None:
            v.violation("C20:resolved-but-not-compiled", "%s: resolver gave %s but GET/FWD gave %s / %s" % (c.id, paths, first["g"], first["r"][:80]), replay(c))
            continue
        if s.resolve_ops is None or s.expect_loc not in ("?", None):
            if chosen_rs != chosen_e2e:
                v.violation("C20:e2e-mismatch:%s" % s.meta.get("kind"), "%s: resolver names %s (%s) but the table compiled carries the rule of %s" % (
                    c.id, paths[-1], chosen_rs, chosen_e2e), replay(c))
        if not s.meta.get("special"):
            if chosen_rs not in s.present:
                v.violation("C20:chosen-not-present", "%s: %s chosen, present %s" % (c.id, chosen_rs, s.present), replay(c))
            if chosen_rs == "P2L":
                v.violation("C20:last-entry-variant", "%s: liblouis/tables below the last entry was searched" % c.id, replay(c))
            # pairwise precedence exactly as worded: base dir > as given > p1 > p2
            for i, x in enumerate(PROP_ORDER):
                for y in PROP_ORDER[i + 1:]:
                    if x in s.present and y in s.present and chosen_rs == y:
                        v.violation("C20:precedence:%s-over-%s:%s:%s" % (y, x, s.meta["kind"], s.meta["form"]),
                                    "%s: %s chosen although %s is present (present: %s) -> %s" % (c.id, y, x, s.present, paths[-1]), replay(c))
            if chosen_rs != s.expect_loc:
                v.violation("C20:order:%s" % s.meta["kind"], "%s: chosen %s, first in candidate order %s" % (c.id, chosen_rs, s.expect_loc), replay(c))
        elif s.expect_loc not in ("?", None):
            got = chosen_e2e if s.resolve_ops is not None and s.get is None and len(s.requests()) > 1 else chosen_rs
            if got != s.expect_loc or chosen_e2e != s.expect_loc:
                v.violation("C20:special:%s" % s.meta["special"], "%s: chosen %s / compiled %s, expected %s (%s)" % (
                    c.id, chosen_rs, chosen_e2e, s.expect_loc, paths[-1]), replay(c))
        elif s.expect_loc is None:
            v.violation("C20:special-should-fail:%s" % s.meta["special"], "%s: resolved to %s, expected failure" % (c.id, paths), replay(c))
    for c, tag, a, b in hist_bad[:20]:
        v.violation("C20:history:%s" % tag.split(",")[0], "%s: answer changed %s: %s -> %s" % (c.id, tag, a, b), replay(c))
    # search path string differential
    tp_impl = [l for o, l in zip(tpc.ops, tpc.out) if o == "TABLEPATH"]
    tp_bad = ["env=%r dp=%r: impl '%s' model '%s'" % (e, d, a, b) for (e, d), a, b in zip(tp_cases, tp_impl, tp_model) if a != b]
    if len(tp_impl) != len(tp_cases):
        tp_bad.append("TABLEPATH run incomplete: %s" % (tpc.fault,))
    for (e, d), a in zip(tp_cases, tp_impl):
        # searchpath_order on the implementation: env entries first, TABLESDIR only when unset/empty
        got = a[3:].split(",")
        want = (e.split(",") if e else []) + ((d + "/liblouis/tables").split(",") if d else []) + ([] if e else [tablesdir])
        v.cov["evaluations"] += 1
        if got != want:
            v.violation("C20:searchpath", "LOUIS_TABLEPATH=%r dataPath=%r: search path %s, expected %s" % (e, d, got, want),
                        {"script": tpc.ops})
    v.obligation("correspondence: _lou_resolveTable == Lean defaultTableResolver on every scenario (%d RESOLVE calls)" % len(mref),
                 not corr_bad, "; ".join(corr_bad[:4]))
    v.obligation("correspondence: _lou_getTablePath == Lean getTablePath (%d environments)" % len(tp_cases), not tp_bad, "; ".join(tp_bad[:4]))
    # ---- probe, recorded only: LOUIS_TABLEPATH longer than the 2048-byte stack buffer of _lou_getTablePath
    # (outside the model: tablePathFits; a memory-safety matter, not one of C20's clauses)
    pr = common.run_harness(exe, ["ENV LOUIS_TABLEPATH " + hx("/" + "x" * 2100), "TABLEPATH"], R)
    if pr.fault:
        v.notes.append("probe (not part of the oracle): LOUIS_TABLEPATH of 2101 bytes -> %s in %s" % (pr.fault["kind"], pr.fault["frame"]))
    v.cov["exhaustive"] = True
    v.cov["distribution"] = dist
    v.cov["scenarios"] = {"exhaustive_family": nstd, "special": len(scns) - nstd - nrand, "random": nrand, "resolve_calls_vs_model": len(mref),
                          "executions_per_scenario": "3 rounds in one process + 1 in another process in reverse order"}
    v.cov["rule"] = ("all 2^6 presence patterns of the marker over {base dir, as given, p1, p1/liblouis/tables, p2, p2/liblouis/tables} "
                     "x {plain, relative, absolute name} x {include, list member} with the including file named absolutely, plus all 2^4 "
                     "patterns over the property's four locations with it named relative to the cwd; distinct by (pattern, form, kind, main form); "
                     "random = random LOUIS_TABLEPATH spellings (empty entries, '.', '..', trailing '/'), data path, name forms and marker placement; "
                     "special = search-path spellings, TABLESDIR, data path, list-base rule, backslash, nested include, malformed lists, overflow")
    v.assumptions += ["default resolver (no lou_registerTableResolver)", "no symbolic links in the scratch tree",
                      "candidate names below 4096 bytes (Fits) for the precedence clauses; LOUIS_TABLEPATH below 2046 bytes"]
    # ---- a name found nowhere makes compilation fail with an error THROUGH EVERY ENTRY POINT (table lists, display-only
    #      lists of the conversions, a separate display list of a translation), and does not depend on / change what was
    #      or is loaded: the same good call gives the same result before and after
    good = "ep-good.ctb"
    ep_setup = ["TBL %s %s" % (good, hx("space \\s 0\nsign a 1\nsign b 12\n"))]
    w61 = common.wide([0x61, 0x62])
    miss = ["ep-missing.dis", "nodir/ep-missing.ctb", "/nonexistent/ep-missing.utb", good + ",ep-missing.cti"]
    ep_ops = ["FWD %s 0 8 - 12 %s - -" % (good, w61)]
    for mname in miss:
        ep_ops += ["GET " + mname, "CHK " + mname, "C2D %s 0 %s" % (mname, w61), "D2C %s 0 %s" % (mname, common.wide([0x8001])),
                   "FWD %s 0 8 - 268 %s - - %s" % (good, w61, mname), "BWD %s 0 8 - 268 %s - - %s" % (good, w61, mname),
                   "FWD %s 0 8 - 12 %s - -" % (mname, w61),
                   "FWD %s 0 8 - 12 %s - -" % (good, w61)]
    cep = common.Case("c20-entrypoints", ep_setup, ep_ops, {})
    common.run_cases(exe, [cep], batch=1, timeout=120)
    if cep.fault or len(cep.out) != len(ep_ops):
        v.violation("C20:entry-points:fault", "fault while resolving names that exist nowhere: %s" % (cep.fault or {}).get("kind"), {"script": ep_setup + ep_ops})
    else:
        ref = cep.out[0].split(" | ")[0]
        for op, o in zip(ep_ops[1:], cep.out[1:]):
            v.cov["evaluations"] += 1
            t0 = op.split(" ")
            o0 = o.split(" | ")[0]
            em = re.search(r" e=(\d+)", o)
            nerr = int(em.group(1)) if em else 0
            if t0[1] == good and len(t0) < 10:
                if o0 != ref:
                    v.violation("C20:entry-points:state", "after a call with a name found nowhere the same good call answers differently: %s / %s" % (ref[:80], o0[:80]),
                                {"script": ep_setup + ep_ops[: ep_ops.index(op) + 1], "results": [ref, o0]})
                continue
            okfail = (o0.startswith("G 0") or o0.startswith("C 0") or o0.startswith("V 0") or o0.startswith("R 0"))
            if not okfail or nerr < 1:
                v.violation("C20:not-found-no-error:%s" % t0[0], "%s with a name found nowhere (%s) gave '%s' (errors logged: %d): it must fail with an error" % (
                    t0[0], t0[-1] if len(t0) >= 10 else t0[1], o0[:60], nerr), {"script": ep_setup + [op], "result": o[:300]})
    return v.finish()
