"""C06 — passes run in the documented order and compose (driver part: all tables)."""
import random, re
from .. import common, corpus, trace, suite_translate as st

THEOREMS = [
    "Lou.C06.fwdPassList_eq_doc", "Lou.C06.backPassList_eq_rev", "Lou.C06.fwd_stage_order",
    "Lou.C06.fwd_stage_order_doc", "Lou.C06.fwd_stage_chain", "Lou.C06.back_stage_order", "Lou.C06.fwd_map_compose",
    "Lou.C06Pass.fwdTest_bounds", "Lou.C06Pass.select_first", "Lou.C06Pass.select_best", "Lou.C06Pass.fwdAction_ok",
    "Lou.C06Pass.fwdAction_replaces_brackets", "Lou.C06Pass.fwdStage_contract", "Lou.C06Pass.fwdStage_total",
            "Lou.C06Pass.backTest_bounds", "Lou.C06Pass.backStage_contract", "Lou.C06Pass.backStage_total", "Lou.C06Pass.backAction_replaces_brackets",
            "Lou.ModelEngine.callFwd_eq", "Lou.ModelEngine.callBack_eq",
            "Lou.ModelEngine.engineFor_ok", "Lou.FwdCOK.translateC_contract", "Lou.FwdCOK.actionC_ok",
            "Lou.ModelEngine.engineForBack_ok", "Lou.BackCOK.translateC_contract", "Lou.BackCOK.actionC_ok",
            "Lou.C05Ctx.walkChainC_first", "Lou.C05CtxB.walkChainC_first",
]

CLAIM = dict(
    text=("Kernel-checked for every engine and table: _lou_translate executes exactly correct (if present), main, "
          "pass2..numPasses in this order (fwd_stage_order), each stage reading the previous stage's output and the "
          "first the caller's input cut at the first NUL (fwd_stage_chain); _lou_backTranslate executes the same stages "
          "in exactly the reverse order (back_stage_order, backPassList_eq_rev by computation on the 8 table shapes); "
          "the final position map is the left fold of the per-stage maps under the code's composition "
          "(fwd_map_compose). Tie: hook H4 exports every executed pass of every real call; the oracle checks order, "
          "count, chaining and recomputes the composition independently in Python; the compiled Lean driver must "
          "reproduce the API result from the recorded stages."),
    note=("Layer B (LouModel/Pass.lean, LouProofs/C06Pass.lean): the stage scanners, rule selection along the pass chain and "
          "the test/action interpreters are modelled for LITERAL rules (first, last, look-back, string/dots literals, replace "
          "brackets; actions literal, omit, copy) in both directions and compared with every recorded correct/pass2-4 stage "
          "of real calls on generated tables (cells, position map, consumed length). Proved for the forward direction, for "
          "every table and input: a successful test has ordered boundaries inside the input (fwdTest_bounds: an applied rule "
          "never moves the position backwards); the applied rule is the first of the chain whose test matches (select_first) "
          "and, in a chain ordered by decreasing key length then definition - which passTableOK checks on the DUMP of every "
          "compiled table, together with the key passFindCharacters must have filed the rule under - a longest-key matching "
          "rule, the earliest defined among those (select_best); an action of literals appends the matched characters before "
          "the bracket verbatim, then the rule's literals, and continues at endReplace (fwdAction_replaces_brackets); the "
          "stage result satisfies the engine contract E1-E4 and the 2n+2 iteration bound is never reached "
          "(fwdStage_contract, fwdStage_total); the backward interpreter and scanner have the corresponding theorems "
          "(backTest_bounds, backAction_replaces_brackets, backStage_contract, backStage_total; select_first/select_best are "
          "stated for both directions). The model covers literals, first/last/look-back, negation, attribute operands with "
          "counts, pass variables, replace brackets, literal/omit/copy actions and forward swap (the DUMP replaces the arena "
          "offsets embedded in the byte-code by rule indices); grouping, the look-ahead search and backward swap make a stage "
          "UNSUPPORTED (skipped). Stages of shipped and wide generated tables are compared too."),
    technique="Lean 4 proof (driver model; stage scanner and literal pass interpreter model) + H4 trace validation per call and per stage + independent recomposition oracle",
    design="DESIGN.md §7 C06")


def compose_fwd(passes):
    pm = None
    for p in passes:
        cur = p["map"] + [p["realInlen"]]
        if pm is None:
            pm = cur
        else:
            pm = [pm[0] if x < 0 else (pm[x] if x < len(pm) else None) for x in cur]
    return pm


def oracle(k):
    R = k.R
    bad = []
    if R is None or "ti" not in R or not R["passes"]:
        return bad
    back = k.op.startswith("BWD")
    corr, npass = R["ti"]
    doc = ([0] if corr else []) + list(range(1, npass + 1))
    if back:
        doc = doc[::-1]
    got = [p["pass"] for p in R["passes"]]
    if R["ret"] and got != doc:
        bad.append(("order:%s" % ("back" if back else "fwd"), "stages executed %s, documented order %s" % (got, doc)))
    elif not R["ret"] and got != doc[: len(got)]:
        bad.append(("order:%s" % ("back" if back else "fwd"), "stages executed %s are not a prefix of %s" % (got, doc)))
    for a, b in zip(R["passes"], R["passes"][1:]):
        if b["in"] != a["out"]:
            bad.append(("chain:%s" % ("back" if back else "fwd"), "stage %d does not read the output of stage %d" % (b["pass"], a["pass"])))
            break
    t = k.op.split(" ")
    inp = common.unwide(t[6])
    cut = inp[: inp.index(0)] if 0 in inp else inp
    if not back and R["passes"][0]["in"] != cut:
        bad.append(("chain:first", "first stage does not read the caller's input up to the first NUL"))
    if not back and R["ret"] and R["final"]:
        pm = compose_fwd(R["passes"])
        if None not in pm and pm != R["final"]["map"][: len(pm)]:
            bad.append(("compose:fwd", "final map %s is not the composition %s of the stage maps" % (R["final"]["map"], pm)))
    return bad


def layer_b(v, exe, rng, tier, dist):
    from .. import gen_table as G
    ntab = 150 if tier == "quick" else 5000
    cases = []
    for i in range(ntab):
        t = G.gen_table(rng, "multipass" if i % 3 else "composite", per_stage=(0, 3), literal_only=True, biased=(i % 2 == 0))
        txt = t.text()
        tn = "lb%d.ctb" % i
        ops = ["DUMP %s" % tn]
        # literals of the rules' tests, as characters and as cells (the main pass is one-to-one)
        inv = {cell: ch for ch, cell in t.charcell.items()}
        lit_c, lit_d = [], []
        for r in t.rules:
            if r.test is None:
                continue
            for mm in re.finditer(r'"([^"]*)"|@([0-9a-f-]+)', r.test + " " + r.action):
                if mm.group(1) is not None:
                    cs = [ord(x) for x in mm.group(1)]
                    if all(x in t.charcell for x in cs):
                        lit_c.append(cs); lit_d.append([t.charcell[x] for x in cs])
                else:
                    ds = [sum(1 << "123456789abcdef".index(d) for d in cell if d != "0") for cell in mm.group(2).split("-")]
                    if all(d in inv for d in ds):
                        lit_d.append(ds); lit_c.append([inv[d] for d in ds])

        def mix(lits, rnd):
            u = []
            while len(u) < 10 and rng.random() < 0.85:
                u += list(rng.choice(lits)) if (lits and rng.random() < 0.7) else rnd()
            return u[:12]
        for _ in range(6 if tier == "quick" else 10):
            u = mix(lit_c, lambda: (G.rand_text_rules(rng, t, 4) if rng.random() < 0.4 else G.rand_text(rng, t, 2, undefined=0.03)))
            cap = rng.choice([len(u), len(u) + 1, 2 * len(u) + 2, 40, 3, 1])
            # position arrays and a cursor on most calls: the whole-call comparison (MCALL) covers them
            am = rng.choice([0, 12, 28, 28, 20, 24])
            cur = lambda n: str(rng.randint(0, n - 1)) if (am & 16 and n > 0) else "-"
            amf = lambda n: 128 | (am if n > 0 else am & ~16)        # (a cursor needs an element to stand on)
            ops.append("FWD %s 4 %d %s %d %s - -" % (tn, cap, cur(len(u)), amf(len(u)), common.wide(u)))
            c = [0x8000 | d for d in mix(lit_d, lambda: [x & 0x7fff for x in G.rand_cells(rng, t, 2, undefined=0.03)])]
            ops.append("BWD %s 4 %d %s %d %s - -" % (tn, cap, cur(len(c)), amf(len(c)), common.wide(c)))
        cases.append(common.Case("c06-lb%d" % i, ["HOOK trace 1", "HOOK budget 200000", "TBL %s %s" % (tn, common.hexbytes(txt))], ops,
                                 {"tn": tn, "text": txt}))
    # fixed shapes (witnesses of seeded changes; compared with the stage model like the generated ones): an insertion that
    # does not move (empty brackets at the head of the test) followed, at later positions, by rules that must still be
    # applied (C06-H: the guard against applying a rule twice at one position was left on for the rest of the call)
    base_ = "space \\s 0\n" + "".join("lowercase %s %s\n" % (ch, d) for ch, d in zip("abcdex", "1 12 14 145 15 1346".split()))
    FIXED = [(base_ + "noback correct []\"b\" \"x\"\nnoback correct \"c\" \"d\"\nnoback pass2 @145 @15\n", ["abcabc", "bcbc", "cbcb", "abc abc"]),
             (base_ + "noback pass2 []@12 @1346\nnoback pass2 @14 @145\nnoback pass3 @145 @15\n", ["abcabc", "cbc", "bbcc"]),
             (base_ + "noback correct []\"b\" \"x\"\nnoback correct []\"c\" \"x\"\nnoback correct \"a\" \"e\"\n", ["abcabc", "cab"])]
    for fi, (txt, words) in enumerate(FIXED):
        tn = "lbfix%d.ctb" % fi
        ops = ["DUMP %s" % tn]
        for wd in words:
            for cap in (40, len(wd) + 1, len(wd) + 3):
                ops.append("FWD %s 4 %d 0 %d %s - -" % (tn, cap, 128 | 28, common.wide(wd)))
        cases.append(common.Case("c06-lbfix%d" % fi, ["HOOK trace 1", "HOOK budget 200000", "TBL %s %s" % (tn, common.hexbytes(txt))], ops,
                                 {"tn": tn, "text": txt}))
    from .. import gen_features as GF
    extra = []
    # shipped and wide tables: key/chain check of every pass rule, and every recorded stage the model covers (stages whose
    # chains use swap, grouping or the look-ahead search are answered UNSUPPORTED and skipped)
    shipped = (corpus.quick_tables()[:20]) if tier == "quick" else corpus.all_tables()
    vocab = corpus.table_vocab(exe, shipped)
    for i, tname in enumerate(shipped):
        vv = vocab.get(tname)
        ops = ["DUMP %s" % corpus.tpath(tname)]
        for _ in range(4 if tier == "quick" else 12):
            u = vv.text(rng, 14) if (vv and vv.by_op and rng.random() < 0.7) else corpus.rand_input(rng, 14)
            cap = rng.choice([len(u), 2 * len(u) + 2, 8 * len(u) + 40, 8 * len(u) + 40])
            ops.append("FWD %s %d %d - 128 %s - -" % (corpus.tpath(tname), rng.choice([4, 4, 0, 4 | 1]), cap, common.wide(u)))
            c = vv.braille(rng, 14) if (vv and vv.by_op and rng.random() < 0.7) else corpus.rand_braille(rng, 14, dots_io=True)
            ops.append("BWD %s 4 %d - 128 %s - -" % (corpus.tpath(tname), cap, common.wide(c)))
        extra.append(common.Case("c06-sk%d" % i, ["HOOK trace 1", "HOOK budget 3000000"], ops, {"tn": "s-" + tname, "text": tname}))
    for i in range(60 if tier == "quick" else 2000):
        w = GF.gen(rng, want=None)
        tn = "wk%d.ctb" % i
        ops = ["DUMP %s" % tn]
        for _ in range(4):
            u = GF.text_for(rng, w, 12)
            cap = rng.choice([len(u), 2 * len(u) + 2, 8 * len(u) + 40])
            ops.append("FWD %s 4 %d - 128 %s - -" % (tn, cap, common.wide(u)))
            ops.append("BWD %s 4 %d - 128 %s - -" % (tn, cap, common.wide(GF.cells_for(rng, w, 12))))
        extra.append(common.Case("c06-wk%d" % i, ["HOOK trace 1", "HOOK budget 3000000", "TBL %s %s" % (tn, common.hexbytes(w.text))], ops,
                                 {"tn": tn, "text": w.text}))
    common.run_cases(exe, cases + extra, batch=10, timeout=120)
    cases = cases + extra
    lines, tags = [], []
    for c in cases:
        if c.fault or not c.out or c.out[0].startswith("T null"):
            continue
        lines.append("LOADTABLE %s %s" % (c.meta["tn"], c.out[0].rsplit(" e=", 1)[0])); tags.append(None)
        lines.append("MPASSCHK %s" % c.meta["tn"]); tags.append(("chk", c))
        for op, o in zip(c.ops[1:], c.out[1:]):
            R = common.parse_R(o)
            if R is None:
                continue
            if c.id.startswith("c06-lb") and "ti" in R:
                t_ = op.split(" ")
                lines.append(" ".join(["MCALL", "B" if t_[0] == "BWD" else "F", c.meta["tn"], t_[2], t_[3], t_[4], str(int(t_[5]) & 31),
                                       t_[6], "-", R.get("disp", ".")]))
                tags.append(("call", c, op, R))
            for pr in R["passes"]:
                if pr["pass"] == 1:
                    # the main pass as a stage: F0 + context rules (LouModel/ForwardCtx.lean), forward direction
                    if c.id.startswith("c06-lb"):
                        lines.append("%s %s %s %d - %s" % ("MBWD" if pr["dir"] else "MFWD", c.meta["tn"], op.split(" ")[2], pr["max"], common.wide(pr["in"])))
                        tags.append(("main", c, op, pr))
                    continue
                lines.append("MPASS %s %s %d %d %s" % (c.meta["tn"], "b" if pr["dir"] else "f", pr["pass"], pr["max"], common.wide(pr["in"])))
                tags.append((c, op, pr))
    out = common.run_model(lines, timeout=900) if lines else []
    bad = []
    n = {"stages_compared": 0, "unsupported": 0, "rule_applied": 0, "truncated": 0}
    for tg, m in zip(tags, out):
        if tg is None:
            continue
        if tg[0] == "chk":
            n["tables_key_checked"] = n.get("tables_key_checked", 0) + 1
            if m != "PK ok":
                for what in m.split(" ")[1:]:
                    w2 = what.split(":")
                    v.violation("C06:passkey:%s" % (w2[0] + ("" if w2[1].isdigit() else ":" + w2[1])),
                                "pass rules of a compiled table are not filed as documented (%s): a rule's key is not the literal "
                                "its test starts with at the position it is tried, a rule sits in the chain of another stage, or a "
                                "chain is not ordered by decreasing key length then definition" % what,
                                {"script": tg[1].setup + [tg[1].ops[0]], "table_text": tg[1].meta.get("text", "")[:2000], "finding": m[:400]})
            continue
        if tg[0] == "main":
            _, c, op, pr = tg
            if m.startswith("UNSUPPORTED") or m in ("BADOP", "FUEL", "FAILED"):
                n["main_unsupported"] = n.get("main_unsupported", 0) + 1
                continue
            n["main_stages_compared" + ("_back" if pr["dir"] else "")] = n.get("main_stages_compared" + ("_back" if pr["dir"] else ""), 0) + 1
            v.cov["evaluations"] += 1
            exp = "P %s %s %d" % (common.wide(pr["out"]), ",".join(str(x) for x in pr["map"]) or ".", pr["realInlen"])
            got = " ".join(m.split(" ")[:4])
            if pr["dir"]:
                # backward: positions the pass never wrote are unspecified (the model prints '?')
                g = got.split(" "); e = exp.split(" ")
                gm = [] if g[2] == "." else g[2].split(",")
                em = [] if e[2] == "." else e[2].split(",")
                gm = gm[: len(em)]
                em = [x if y != "?" else "?" for x, y in zip(em, gm)]
                exp = " ".join([e[0], e[1], ",".join(em) or ".", e[3]])
                got = " ".join([g[0], g[1], ",".join(gm) or ".", g[3]])
            if exp != got:
                bad.append("main pass with context rules, %s (capacity %d, input %s)\n impl  %s\n model %s\n%s" % (
                    op[:80], pr["max"], common.wide(pr["in"]), exp[:300], m[:300], c.meta["text"][:600]))
            continue
        if tg[0] == "call":
            # the whole call from the model alone (driver model + main-pass model + stage models; nothing from the trace)
            _, c, op, R = tg
            if m.startswith("UNSUPPORTED") or m == "BADOP":
                n["calls_unsupported"] = n.get("calls_unsupported", 0) + 1
                continue
            n["calls_compared"] = n.get("calls_compared", 0) + 1
            v.cov["evaluations"] += 1
            ok, detail, _e, _n, _f = trace.compare(op, R, m)
            if len(R["passes"]) > 1:
                n["calls_multistage"] = n.get("calls_multistage", 0) + 1
                v._distinct.add(("call", c.id, op))
            if ok is False:
                bad.append("whole call %s\n%s\n%s" % (op[:160], detail[:1500], c.meta["text"][:600]))
            continue
        c, op, pr = tg
        if m.startswith("UNSUPPORTED"):
            n["unsupported"] += 1
            continue
        n["stages_compared"] += 1
        v.cov["evaluations"] += 1
        if pr["dir"]:
            mp = ",".join(str(x) for x in pr["map"]) or "."
        else:
            mp = ",".join(str(x) for x in pr["map"]) or "."
        exp = "P %s %s %d" % (common.wide(pr["out"]), mp, pr["realInlen"])
        got = m.rsplit(" rules=", 1)[0]
        if m.rsplit(" rules=", 1)[-1] not in ("", "."):
            n["rule_applied"] += 1
            v._distinct.add(("lb", c.id, pr["dir"], pr["pass"], tuple(pr["in"]), pr["max"]))
        if pr["realInlen"] < len(pr["in"]):
            n["truncated"] += 1
        if pr["dir"]:
            # backward: H4 records the map for the consumed positions only; positions the stage never wrote are
            # unspecified (the model prints '?')
            g = got.split(" "); e = exp.split(" ")
            gm = [] if g[2] == "." else g[2].split(",")
            em = [] if e[2] == "." else e[2].split(",")
            gm = gm[: len(em)]
            em = [x if y != "?" else "?" for x, y in zip(em, gm)]
            exp = " ".join([e[0], e[1], ",".join(em) or ".", e[3]])
            got = " ".join([g[0], g[1], ",".join(gm) or ".", g[3]])
        if exp != got:
            bad.append("%s stage %d of %s (capacity %d, input %s)\n impl  %s\n model %s\n%s" % (
                "backward" if pr["dir"] else "forward", pr["pass"], op[:80], pr["max"], common.wide(pr["in"]), exp[:300], m[:300], c.meta["text"][:500]))
    dist["layerB"] = n
    return bad


def run(tier):
    v = common.Verdict("C06", tier)
    rng = random.Random(common.seed() * 1000003 + 6)
    common.lean_obligations(v, THEOREMS)
    try:
        exe = common.build_harness()
        v.obligation("harness builds from /repo working tree (hooks on, ASan+UBSan)", True)
    except common.BuildError as e:
        v.obligation("harness builds from /repo working tree (hooks on, ASan+UBSan)", False, str(e)[-2000:])
        return v.finish()
    tables = corpus.quick_tables() if tier == "quick" else corpus.all_tables()
    cases = st.std_cases(rng, tables, 16 if tier == "quick" else 50, tag="c06-")
    calls = st.run_and_trace(exe, cases)
    dist = {"fwd": 0, "back": 0, "shapes": {}, "contract_fail": 0}
    trace_bad = []
    for k in calls:
        if k.R is None:
            continue
        v.cov["evaluations"] += 1
        t = k.op.split(" ")
        dist["back" if t[0] == "BWD" else "fwd"] += 1
        if "ti" in k.R:
            sh = "%s:corr%d:n%d" % (t[0], k.R["ti"][0], k.R["ti"][1])
            dist["shapes"][sh] = dist["shapes"].get(sh, 0) + 1
        if len(k.R["passes"]) > 1:
            v._distinct.add((t[0], k.case.meta.get("table"), t[2], t[3], t[6][:80]))
        if k.eok is False:
            dist["contract_fail"] += 1
        if k.trace_ok is False:
            trace_bad.append(k)
        for sig, what in oracle(k):
            v.violation("C06:%s" % sig, what + " | table=%s" % k.case.meta.get("table"),
                        {"script": k.case.setup + [k.op], "result": k.line[:3000]})
        if len(v.cov["samples"]) < 5 and len(k.R["passes"]) > 2:
            v.sample({"op": k.op[:200], "stages": [p["pass"] for p in k.R["passes"]], "ti": k.R.get("ti")})
    # ---- Layer B: the stage scanners and the literal test/action interpreters (LouModel/Pass.lean) against every
    #      recorded stage of real calls on generated tables (0-3 literal rules per stage and direction, brackets,
    #      look-back, empty replacement, copy, rules that do not consume, shared prefixes) on a one-to-one main pass
    lb = layer_b(v, exe, rng, tier, dist)
    v.obligation("correspondence: the Lean stage model (rule selection along the pass chain, literal test and action "
                 "interpreters, both directions) reproduces every recorded correct/pass2-4 stage on the dumped tables",
                 not lb, "\n".join(lb[:3]))
    v.obligation("correspondence: Lean driver reproduces every recorded call (trace validation)", not trace_bad,
                 "; ".join("%s :: %s" % (k.op[:200], k.trace_detail[:600]) for k in trace_bad[:3]))
    v.cov["traces_validated_against_impl"] = sum(1 for k in calls if k.trace_ok is not None)
    v.cov["distribution"] = dist
    v.cov["rule"] = ("FWD/BWD calls with H4 traces over %d shipped tables; non-trivial = a call that executed more than one "
                     "stage; distinct by (direction, table, mode, capacity, input)" % len(tables))
    return v.finish()
