"""C06 — passes run in the documented order and compose (driver part: all tables)."""
import random
from .. import common, corpus, suite_translate as st

THEOREMS = [
    "Lou.C06.fwdPassList_eq_doc", "Lou.C06.backPassList_eq_rev", "Lou.C06.fwd_stage_order",
    "Lou.C06.fwd_stage_order_doc", "Lou.C06.fwd_stage_chain", "Lou.C06.back_stage_order", "Lou.C06.fwd_map_compose",
]

CLAIM = dict(
    text=("Kernel-checked for every engine and table: _lou_translate executes exactly correct (if present), main, "
          "pass2..numPasses in this order (fwd_stage_order), each stage reading the previous stage's output and the "
          "first the caller's input cut at the first NUL (fwd_stage_chain); _lou_backTranslate executes the same stages "
          "in exactly the reverse order (back_stage_order, backPassList_eq_rev by computation on the 8 table shapes); "
          "the final position map is the left fold of the per-stage maps under the code's composition "
          "(fwd_map_compose). Tie: hook H4 exports every executed pass of every real call; the oracle checks order, "
          "count, chaining and recomputes the composition independently in Python; the compiled Lean driver must "
          "reproduce the API result from the recorded stages."),
    note=("Per-stage semantics of literal multipass rules (first matching rule in chain order, brackets) are decided against "
          "the reference model of the pass interpreter only where Layer B covers them; see evidence 'layerB'."),
    technique="Lean 4 proof over the driver model + H4 trace validation + independent recomposition oracle",
    design="DESIGN.md §7 C06")


def compose_fwd(passes):
    pm = None
    for p in passes:
        cur = p["map"] + [p["realInlen"]]
        if pm is None:
            pm = cur
        else:
            pm = [pm[0] if x < 0 else (pm[x] if x < len(pm) else None) for x in cur]
    return pm


def oracle(k):
    R = k.R
    bad = []
    if R is None or "ti" not in R or not R["passes"]:
        return bad
    back = k.op.startswith("BWD")
    corr, npass = R["ti"]
    doc = ([0] if corr else []) + list(range(1, npass + 1))
    if back:
        doc = doc[::-1]
    got = [p["pass"] for p in R["passes"]]
    if R["ret"] and got != doc:
        bad.append(("order:%s" % ("back" if back else "fwd"), "stages executed %s, documented order %s" % (got, doc)))
    elif not R["ret"] and got != doc[: len(got)]:
        bad.append(("order:%s" % ("back" if back else "fwd"), "stages executed %s are not a prefix of %s" % (got, doc)))
    for a, b in zip(R["passes"], R["passes"][1:]):
        if b["in"] != a["out"]:
            bad.append(("chain:%s" % ("back" if back else "fwd"), "stage %d does not read the output of stage %d" % (b["pass"], a["pass"])))
            break
    t = k.op.split(" ")
    inp = common.unwide(t[6])
    cut = inp[: inp.index(0)] if 0 in inp else inp
    if not back and R["passes"][0]["in"] != cut:
        bad.append(("chain:first", "first stage does not read the caller's input up to the first NUL"))
    if not back and R["ret"] and R["final"]:
        pm = compose_fwd(R["passes"])
        if None not in pm and pm != R["final"]["map"][: len(pm)]:
            bad.append(("compose:fwd", "final map %s is not the composition %s of the stage maps" % (R["final"]["map"], pm)))
    return bad


def run(tier):
    v = common.Verdict("C06", tier)
    rng = random.Random(common.seed() * 1000003 + 6)
    common.lean_obligations(v, THEOREMS)
    try:
        exe = common.build_harness()
        v.obligation("harness builds from /repo working tree (hooks on, ASan+UBSan)", True)
    except common.BuildError as e:
        v.obligation("harness builds from /repo working tree (hooks on, ASan+UBSan)", False, str(e)[-2000:])
        return v.finish()
    tables = corpus.quick_tables() if tier == "quick" else corpus.all_tables()
    cases = st.std_cases(rng, tables, 16 if tier == "quick" else 50, tag="c06-")
    calls = st.run_and_trace(exe, cases)
    dist = {"fwd": 0, "back": 0, "shapes": {}, "contract_fail": 0}
    trace_bad = []
    for k in calls:
        if k.R is None:
            continue
        v.cov["evaluations"] += 1
        t = k.op.split(" ")
        dist["back" if t[0] == "BWD" else "fwd"] += 1
        if "ti" in k.R:
            sh = "%s:corr%d:n%d" % (t[0], k.R["ti"][0], k.R["ti"][1])
            dist["shapes"][sh] = dist["shapes"].get(sh, 0) + 1
        if len(k.R["passes"]) > 1:
            v._distinct.add((t[0], k.case.meta.get("table"), t[2], t[3], t[6][:80]))
        if k.eok is False:
            dist["contract_fail"] += 1
        if k.trace_ok is False:
            trace_bad.append(k)
        for sig, what in oracle(k):
            v.violation("C06:%s" % sig, what + " | table=%s" % k.case.meta.get("table"),
                        {"script": k.case.setup + [k.op], "result": k.line[:3000]})
        if len(v.cov["samples"]) < 5 and len(k.R["passes"]) > 2:
            v.sample({"op": k.op[:200], "stages": [p["pass"] for p in k.R["passes"]], "ti": k.R.get("ti")})
    v.obligation("correspondence: Lean driver reproduces every recorded call (trace validation)", not trace_bad,
                 "; ".join("%s :: %s" % (k.op[:200], k.trace_detail[:600]) for k in trace_bad[:3]))
    v.cov["traces_validated_against_impl"] = sum(1 for k in calls if k.trace_ok is not None)
    v.cov["distribution"] = dist
    v.cov["rule"] = ("FWD/BWD calls with H4 traces over %d shipped tables; non-trivial = a call that executed more than one "
                     "stage; distinct by (direction, table, mode, capacity, input)" % len(tables))
    return v.finish()
