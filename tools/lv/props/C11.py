"""C11 — one-to-one tables round-trip exactly."""
import random, re
from .. import common, corpus, gen_table as G

THEOREMS = ["Lou.C11.select_onetoone", "Lou.C11.step_onetoone", "Lou.C11.fwd_onetoone", "Lou.C11.back_select_onetoone",
            "Lou.C11.back_step_onetoone", "Lou.C11.back_onetoone", "Lou.C11.roundtrip_fwd_back", "Lou.C11.roundtrip_back_fwd",
            "Lou.C11.onetoone_hyps", "Lou.C11.onetoone_roundtrip", "Lou.C11.onetoone_identity_maps"]

CLAIM = dict(
    text=("Kernel-checked, for EVERY logical table that passes the executable structural bijectivity test isOneToOne (every "
          "character has exactly one rule, a single-cell definition; every cell exactly one rule, the definition of one "
          "character; both directions agree; no multi-character rules, indicators or multipass rules) and every string over the "
          "table's characters with sufficient capacity: the forward main-pass model emits the definitions' cells one by one, "
          "consumes everything and yields the identity position map (fwd_onetoone), the backward main-pass model inverts it "
          "(back_onetoone), hence back(fwd(s)) = s and fwd(back(d)) = d (onetoone_roundtrip, roundtrip_back_fwd) — induction "
          "over the main loops of the engine transcriptions Lou.Fwd.translate / Lou.Back.translate with explicit loop "
          "invariants. Ties on every run: the structural test is evaluated by the Lean driver on the DUMP of every real "
          "compile; both engine models must reproduce the real passes (H4) on the dumped tables. Oracle on the "
          "implementation: the round trip itself for generated one-to-one tables (2-300 characters incl. hash-colliding "
          "ones, 6/8/15-dot cells, definitions added late with lou_compileString) and for shipped tables that pass the "
          "test; lou_dotsToChar(lou_charToDots(c)) = c exhaustively over all 65536 characters (and symmetrically over all "
          "flagged cells) for every display table mapping, restricted to injectively mapped values."),
    note=("The round-trip theorems are about the engine models (tied by differential), with capacity >= length and no cursor; "
          "the display-table clause is checked exhaustively on the implementation (finite domain), not proved."),
    technique="Lean 4 proof (loop invariants over the forward/backward engine models) + structural test on real DUMPs + exhaustive display round trip",
    design="DESIGN.md §7 C11")

HASHNUM = 1123


def gen_o2o(rng, n=None):
    """one-to-one table: n characters, pairwise distinct cells"""
    n = n or rng.choice([2, 3, 5, 12, 40, 120, 300])
    chars = set()
    while len(chars) < n:
        r = rng.random()
        if r < 0.4:
            c = rng.randint(0x21, 0x7e)
        elif r < 0.7 and chars:
            c = rng.choice(sorted(chars)) + HASHNUM * rng.randint(1, 3)      # colliding bucket
        else:
            c = rng.randint(0xa0, 0xfffe)
        if c in (0x20, 0x5c, 0x23) or c > 0xfffe:
            continue
        chars.add(c)
    maxcell = 63 if n <= 40 and rng.random() < 0.5 else (255 if n <= 200 else 0x7ffe)
    cells = set()
    while len(cells) < n:
        cells.add(rng.randint(1, maxcell))
    chars, cells = sorted(chars), sorted(cells)
    rng.shuffle(cells)
    t = G.Tbl()
    t.rules.append(G.Rule("space", [0x20], [0]))
    t.charcell[0x20] = 0
    t.attrs[0x20] = "space"
    for c, cell in zip(chars, cells):
        op = rng.choice(["letter", "lowercase", "sign", "punctuation", "math", "digit", "uppercase"])
        t.rules.append(G.Rule(op, [c], [cell]))
        t.charcell[c] = cell
        t.attrs[c] = op
    rng.shuffle(t.rules)
    return t


def run(tier):
    v = common.Verdict("C11", tier)
    rng = random.Random(common.seed() * 1000003 + 11)
    common.lean_obligations(v, THEOREMS)
    try:
        exe = common.build_harness()
        v.obligation("harness builds from /repo working tree (hooks on, ASan+UBSan)", True)
    except common.BuildError as e:
        v.obligation("harness builds from /repo working tree (hooks on, ASan+UBSan)", False, str(e)[-2000:])
        return v.finish()
    ntab = 40 if tier == "quick" else 600
    cases = []
    for i in range(ntab):
        t = gen_o2o(rng)
        late = []
        rules = list(t.rules)
        if rng.random() < 0.4 and len(rules) > 3:
            k = rng.randint(1, min(5, len(rules) - 2))
            late, rules = rules[-k:], rules[:-k]
        txt = "\n".join(r.text() for r in rules) + "\n"
        tn = "o%d.ctb" % i
        setup = ["HOOK trace 1", "TBL %s %s" % (tn, common.hexbytes(txt))]
        ops = ["ADD %s %s" % (tn, common.hexbytes(r.text())) for r in late]
        ops.append("DUMP %s" % tn)
        cs = [c for c in t.chars()]
        for _ in range(8):
            s = [rng.choice(cs) for _ in range(rng.choice([0, 1, 2, 7, 30]))]
            ops.append("FWD %s 4 %d - 140 %s - -" % (tn, len(s) + rng.choice([0, 0, 5]), common.wide(s)))
            ops.append("BWD %s 4 %d - 140 %s - -" % (tn, len(s) + rng.choice([0, 0, 5]), common.wide([0x8000 | t.charcell[c] for c in s])))
        cases.append(common.Case("c11-%d" % i, setup, ops, {"tbl": t, "tn": tn, "nlate": len(late), "text": txt}))
    # shipped tables: dump, structural test, then round trip where it passes
    shipped = corpus.quick_tables() if tier == "quick" else corpus.all_tables()
    for si, st_name in enumerate(shipped):
        cases.append(common.Case("c11-s%d" % si, [], ["DUMP %s" % corpus.tpath(st_name)], {"shipped": st_name}))
    common.run_cases(exe, cases, batch=8, timeout=300)
    lines, tags = [], []
    for c in cases:
        if c.fault or not c.out:
            continue
        di = next((i for i, op in enumerate(c.ops) if op.startswith("DUMP")), None)
        if di is None or di >= len(c.out) or c.out[di].startswith("T null"):
            continue
        name = c.meta.get("tn") or ("s-" + c.meta["shipped"])
        lines.append("LOADTABLE %s %s" % (name, c.out[di].rsplit(" e=", 1)[0])); tags.append(("load", c, None))
        lines.append("MONETOONE %s" % name); tags.append(("o2o", c, None))
        for op, o in zip(c.ops[di + 1:], c.out[di + 1:]):
            t = op.split(" ")
            lines.append("%s %s %s %s %s %s" % ("MFWD" if t[0] == "FWD" else "MBWD", name, t[2], t[3], t[4], t[6]))
            tags.append(("eng", c, (op, o)))
    out = common.run_model(lines, timeout=900) if lines else []
    dist = {"generated_tables": ntab, "with_late_definitions": 0, "structural_test_true_generated": 0,
            "shipped_tables": len(shipped), "shipped_passing_structural_test": [], "engine_compared": 0, "roundtrips": 0,
            "display_tables": 0, "display_values_checked": 0, "max_alphabet": 0}
    eng_bad, o2o_bad = [], []
    shipped_o2o = []
    for (kind, c, extra), m in zip(tags, out):
        if kind == "o2o":
            if "tbl" in c.meta:
                if m == "O2O 1":
                    dist["structural_test_true_generated"] += 1
                else:
                    o2o_bad.append("generated one-to-one table fails the structural test on the real image: %s" % c.meta["text"][:300])
            elif m == "O2O 1":
                shipped_o2o.append(c.meta["shipped"])
        elif kind == "eng":
            op, o = extra
            R = common.parse_R(o)
            if R is None or not R["passes"] or m.startswith("UNSUPPORTED"):
                continue
            p = [x for x in R["passes"] if x["pass"] == 1][0]
            rules = re.sub(r"117:(?:[0-9a-f]{4}:-|-:[0-9a-f]{4})", "117:*:-", R.get("rules", "."))
            exp = "P %s %s %d %d %d rules=%s" % (common.wide(p["out"]), ",".join(map(str, p["map"])) or ".", p["realInlen"], p["cpos"], p["cstat"], rules)
            dist["engine_compared"] += 1
            if exp != m:
                eng_bad.append("%s\n impl  %s\n model %s" % (op[:160], exp[:300], m[:300]))
    dist["shipped_passing_structural_test"] = shipped_o2o
    v.obligation("correspondence: generated one-to-one tables pass the structural test on the DUMP of the real compile", not o2o_bad, "\n".join(o2o_bad[:3]))
    v.obligation("correspondence: Lean forward/backward main-pass models reproduce the real passes on the dumped tables", not eng_bad, "\n".join(eng_bad[:3]))
    # oracle: round trips on the implementation
    for c in cases:
        if "tbl" not in c.meta or c.fault:
            if c.fault:
                v.notes.append("fault during C11 run (decided by C01/C02): %s %s" % (c.fault["kind"], c.fault["frame"]))
            continue
        t = c.meta["tbl"]
        dist["max_alphabet"] = max(dist["max_alphabet"], len(t.charcell))
        if c.meta["nlate"]:
            dist["with_late_definitions"] += 1
        for op, o in zip(c.ops, c.out):
            if op.startswith("ADD") and not o.startswith("D 1"):
                v.violation("C11:add:rejected", "late definition rejected by lou_compileString: %s" % op[:120], {"script": c.setup + c.ops[:3], "result": o})
            if not op.startswith(("FWD", "BWD")):
                continue
            R = common.parse_R(o)
            if R is None:
                continue
            tk = op.split(" ")
            inp = common.unwide(tk[6])
            v.cov["evaluations"] += 1
            dist["roundtrips"] += 1
            if tk[0] == "FWD":
                want = [0x8000 | t.charcell[ch] for ch in inp]
            else:
                inv = {0x8000 | cell: ch for ch, cell in t.charcell.items()}
                want = [inv[x] for x in inp]
            if inp:
                v._distinct.add((c.id, tk[0], tk[6][:60]))
            ident = list(range(len(inp)))
            ok = R["ret"] == 1 and R["out"] == want and R["inlen"] == len(inp)
            if ok and inp:
                ok = common.ints(R["ip"]) == ident and common.ints(R["op"]) == ident
            if not ok:
                v.violation("C11:roundtrip:%s" % tk[0], "one-to-one table: %s of %s gave %s (lengths %d/%d, maps %s / %s), expected %s with identity maps" % (
                    tk[0], common.wide(inp)[:80], common.wide(R["out"])[:80], R["inlen"], R["outlen"], R.get("ip"), R.get("op"), common.wide(want)[:80]),
                    {"script": c.setup + [x for x in c.ops if x.startswith("ADD")] + [op], "result": o[:800]})
        if len(v.cov["samples"]) < 3:
            v.sample({"table": c.meta["text"][:200], "chars": len(t.charcell)})
    # shipped tables passing the test: forward then backward on strings over their characters
    rt_cases = []
    for name in shipped_o2o:
        c0 = next(c for c in cases if c.meta.get("shipped") == name)
        chars = [int(m, 16) for m in re.findall(r" \| C ([0-9a-f]{4}) ", c0.out[0])]
        chars = [ch for ch in chars if ch not in (0xffff, 0)]
        ops = []
        for _ in range(10):
            s = [rng.choice(chars) for _ in range(rng.choice([1, 5, 20]))]
            ops.append("FWD %s 4 %d - 12 %s - -" % (corpus.tpath(name), len(s) + 3, common.wide(s)))
        rt_cases.append(common.Case("c11-rt-" + name, [], ops, {"shipped": name}))
    common.run_cases(exe, rt_cases, batch=4)
    back_cases = []
    for c in rt_cases:
        ops = []
        for op, o in zip(c.ops, c.out):
            R = common.parse_R(o)
            if R and R["ret"]:
                ops.append("BWD %s 4 %d - 12 %s - -" % (op.split(" ")[1], len(R["out"]) + 3, common.wide(R["out"])))
        back_cases.append(common.Case(c.id + "-b", [], ops, dict(c.meta, fwd=c)))
    common.run_cases(exe, back_cases, batch=4)
    for c in back_cases:
        f = c.meta["fwd"]
        for fop, bop, bo in zip(f.ops, c.ops, c.out):
            Rb = common.parse_R(bo)
            if Rb is None:
                continue
            v.cov["evaluations"] += 1
            dist["roundtrips"] += 1
            s = common.unwide(fop.split(" ")[6])
            if Rb["out"] != s:
                v.violation("C11:roundtrip:shipped:%s" % c.meta["shipped"], "shipped one-to-one table %s: back(fwd(%s)) = %s" % (c.meta["shipped"], common.wide(s)[:60], common.wide(Rb["out"])[:60]),
                            {"script": [fop, bop], "result": bo[:500]})
            else:
                v._distinct.add((c.id, fop.split(" ")[6][:40]))
    # display tables: exhaustive lou_dotsToChar ∘ lou_charToDots over all 65536 values
    dts = (corpus.display_tables()[:4] + ["en-us-g2.ctb", "unicode-braille.utb"]) if tier == "quick" else (corpus.display_tables() + corpus.quick_tables())
    allc = common.wide(list(range(1, 0x10000)))
    dcases = [common.Case("c11-d%d" % i, [], ["DISPDUMP %s" % corpus.tpath(d), "C2D %s 0 %s" % (corpus.tpath(d), allc)], {"disp": d}) for i, d in enumerate(dts)]
    common.run_cases(exe, dcases, batch=1, timeout=300)
    d2 = []
    for c in dcases:
        if len(c.out) < 2 or not c.out[1].startswith("V 1 "):
            continue
        d2.append(common.Case(c.id + "x", [], ["D2C %s 0 %s" % (corpus.tpath(c.meta["disp"]), c.out[1].split(" ")[2])], dict(c.meta, first=c)))
    common.run_cases(exe, d2, batch=1, timeout=300)
    for c in d2:
        f = c.meta["first"]
        m = re.match(r"DD c2d=(\S+) d2c=(\S+)", f.out[0])
        if not m or not c.out or not c.out[0].startswith("V 1 "):
            continue
        c2d = dict((int(a, 16), int(b, 16)) for a, b in (p.split(":") for p in m.group(1).split(",") if ":" in p))
        d2c = dict((int(a, 16), int(b, 16)) for a, b in (p.split(":") for p in m.group(2).split(",") if ":" in p))
        back = common.unwide(c.out[0].split(" ")[2])
        dist["display_tables"] += 1
        for ch in range(1, 0x10000):
            d = c2d.get(ch)
            if d is not None and d2c.get(d) == ch:        # injectively mapped character
                dist["display_values_checked"] += 1
                if back[ch - 1] != ch:
                    v.violation("C11:display:%s" % c.meta["disp"], "lou_dotsToChar(lou_charToDots(%04x)) = %04x in %s" % (ch, back[ch - 1], c.meta["disp"]),
                                {"script": f.ops[:1] + ["C2D … all characters", "D2C …"], "char": ch})
                    break
        v.cov["evaluations"] += 1
    v.cov["exhaustive"] = False
    v.cov["distribution"] = dist
    v.cov["traces_validated_against_impl"] = dist["engine_compared"]
    v.cov["rule"] = ("%d generated one-to-one tables (2-300 characters, colliding hash buckets, 6/8/15-dot cells, shuffled order, late "
                     "definitions via lou_compileString) x strings over their characters in both directions with tight and generous "
                     "capacity; %d shipped tables dumped and put through the structural test, round trip on those that pass; display "
                     "round trip exhaustively over 65535 characters for %d tables; distinct by (table, direction, input)" % (ntab, len(shipped), len(dts)))
    return v.finish()
