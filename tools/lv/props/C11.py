"""C11 — one-to-one tables round-trip exactly."""
import random, re
from .. import common, corpus, gen_table as G

THEOREMS = ["Lou.C11.select_onetoone", "Lou.C11.step_onetoone", "Lou.C11.fwd_onetoone", "Lou.C11.back_select_onetoone",
            "Lou.C11.back_step_onetoone", "Lou.C11.back_onetoone", "Lou.C11.roundtrip_fwd_back", "Lou.C11.roundtrip_back_fwd",
            "Lou.C11.onetoone_hyps", "Lou.C11.onetoone_roundtrip", "Lou.C11.onetoone_identity_maps",
            "Lou.FwdCRefine.translateC_eq_translate", "Lou.BackCRefine.translateC_eq_translate"]

CLAIM = dict(
    text=("Kernel-checked, for EVERY logical table that passes the executable structural bijectivity test isOneToOne (every "
          "character has exactly one rule, a single-cell definition; every cell exactly one rule, the definition of one "
          "character; both directions agree; no multi-character rules, indicators or multipass rules) and every string over the "
          "table's characters with sufficient capacity: the forward main-pass model emits the definitions' cells one by one, "
          "consumes everything and yields the identity position map (fwd_onetoone), the backward main-pass model inverts it "
          "(back_onetoone), hence back(fwd(s)) = s and fwd(back(d)) = d (onetoone_roundtrip, roundtrip_back_fwd) — induction "
          "over the main loops of the engine transcriptions Lou.Fwd.translate / Lou.Back.translate with explicit loop "
          "invariants. Ties on every run: the structural test is evaluated by the Lean driver on the DUMP of every real "
          "compile; both engine models must reproduce the real passes (H4) on the dumped tables. Oracle on the "
          "implementation: the round trip itself for generated one-to-one tables (2-300 characters incl. hash-colliding "
          "ones, 6/8/15-dot cells, definitions added late with lou_compileString) and for shipped tables that pass the "
          "test; lou_dotsToChar(lou_charToDots(c)) = c exhaustively over all 65536 characters (and symmetrically over all "
          "flagged cells) for every display table mapping, restricted to injectively mapped values."),
    note=("The round-trip theorems are about the engine models (tied by differential), with capacity >= length and no cursor; "
          "the display-table clause is checked exhaustively on the implementation (finite domain), not proved."),
    technique="Lean 4 proof (loop invariants over the forward/backward engine models) + structural test on real DUMPs + exhaustive display round trip",
    design="DESIGN.md §7 C11")

HASHNUM = 1123


def gen_o2o(rng, n=None):
    """one-to-one table: n characters, pairwise distinct cells"""
    n = n or rng.choice([2, 3, 5, 12, 40, 120, 300])
    chars = set()
    while len(chars) < n:
        r = rng.random()
        if r < 0.4:
            c = rng.randint(0x21, 0x7e)
        elif r < 0.7 and chars:
            c = rng.choice(sorted(chars)) + HASHNUM * rng.randint(1, 3)      # colliding bucket
        elif r < 0.78:
            c = rng.randint(0x2801, 0x28ff)     # a character of the Unicode braille block as TEXT (its cell is another pattern)
        else:
            c = rng.randint(0xa0, 0xfffe)
        if c in (0x20, 0x5c, 0x23) or c > 0xfffe:
            continue
        chars.add(c)
    maxcell = 63 if n <= 40 and rng.random() < 0.5 else (255 if n <= 200 else 0x7ffe)
    cells = set()
    if maxcell == 255 and rng.random() < 0.6:
        cells.add(255)              # dots 12345678 = U+28FF, the last cell of the Unicode braille block
    while len(cells) < n:
        cells.add(rng.randint(1, maxcell))
    chars, cells = sorted(chars), sorted(cells)
    rng.shuffle(cells)
    t = G.Tbl()
    t.rules.append(G.Rule("space", [0x20], [0]))
    t.charcell[0x20] = 0
    t.attrs[0x20] = "space"
    for c, cell in zip(chars, cells):
        op = rng.choice(["letter", "lowercase", "sign", "punctuation", "math", "digit", "uppercase"])
        t.rules.append(G.Rule(op, [c], [cell]))
        t.charcell[c] = cell
        t.attrs[c] = op
    rng.shuffle(t.rules)
    return t


def twin(rng, t0):
    """the same characters, opcodes and cells in the same order, the cells dealt out differently: compiles to an image of
    exactly the same size, so that after lou_free() it is allocated where its twin was"""
    t = G.Tbl()
    rs = [r for r in t0.rules if r.chars != [0x20]]
    cells = [r.cells[0] for r in rs]
    perm = cells[1:] + cells[:1] if len(cells) > 1 else cells
    k = 0
    for r in t0.rules:
        if r.chars == [0x20]:
            t.rules.append(G.Rule("space", [0x20], [0]))
            t.charcell[0x20] = 0
            t.attrs[0x20] = "space"
        else:
            t.rules.append(G.Rule(r.opcode, list(r.chars), [perm[k]]))
            t.charcell[r.chars[0]] = perm[k]
            t.attrs[r.chars[0]] = r.opcode
            k += 1
    return t


def run(tier):
    v = common.Verdict("C11", tier)
    rng = random.Random(common.seed() * 1000003 + 11)
    common.lean_obligations(v, THEOREMS)
    try:
        exe = common.build_harness()
        v.obligation("harness builds from /repo working tree (hooks on, ASan+UBSan)", True)
    except common.BuildError as e:
        v.obligation("harness builds from /repo working tree (hooks on, ASan+UBSan)", False, str(e)[-2000:])
        return v.finish()
    ntab = 40 if tier == "quick" else 600
    cases = []
    prev_last = None
    prev_t = None
    for i in range(ntab):
        is_twin = prev_t is not None and i % 8 and rng.random() < 0.5
        if is_twin:
            t = twin(rng, prev_t)          # same process (batches of 8 consecutive cases), same image size
        else:
            t = gen_o2o(rng)
        prev_t = t
        late = []
        rules = list(t.rules)
        if is_twin:
            k = prev_k                     # and the same split into file and run-time definitions
        else:
            k = rng.randint(1, min(5, len(rules) - 2)) if (rng.random() < 0.4 and len(rules) > 3) else 0
        prev_k = k
        if k:
            late, rules = rules[-k:], rules[:-k]
        txt = "\n".join(r.text() for r in rules) + "\n"
        tn = "o%d" % i          # (no extension: o1 is a prefix of o10..o19, which a sloppy cache lookup confuses)
        setup = ["HOOK trace 1", "TBL %s %s" % (tn, common.hexbytes(txt))]
        ops = ["ADD %s %s" % (tn, common.hexbytes(r.text())) for r in late]
        ops.append("DUMP %s" % tn)
        cs = [c for c in t.chars()]
        for _ in range(8):
            s = [rng.choice(cs) for _ in range(rng.choice([0, 1, 2, 7, 30]))]
            ops.append("FWD %s 4 %d - 140 %s - -" % (tn, len(s) + rng.choice([0, 0, 5]), common.wide(s)))
            ops.append("BWD %s 4 %d - 140 %s - -" % (tn, len(s) + rng.choice([0, 0, 5]), common.wide([0x8000 | t.charcell[c] for c in s])))
        # the display side of the same table: character <-> cell conversions in both representations of a cell
        # (0x8000|dots and Unicode braille), text-mode round trips, and lou_free() before the next table is loaded
        conv = []
        if max(t.charcell.values()) <= 255:
            # first display lookup of this table = the cell looked up last in the previous table of the same process
            # (if this table defines it), last lookup = a random cell: a lookup cache that survives lou_free() answers
            # with the previous table's character
            own = sorted(set(t.charcell.values()) - {0})
            first = prev_last if prev_last in own else rng.choice(own)
            conv.append("D2C %s 0 %s" % (tn, common.wide([0x8000 | first])))
            allch = [c for c in cs if c != 0x20]
            rng.shuffle(allch)
            allch = allch[:64]
            for m in (0, 64):
                conv.append("C2D %s %d %s" % (tn, m, common.wide(allch)))
                conv.append("D2C %s %d %s" % (tn, m, common.wide([(0x2800 if (m or rng.random() < 0.3) else 0x8000) | t.charcell[c] for c in allch])))
            for _ in range(3):
                s = [rng.choice(cs) for _ in range(rng.choice([1, 2, 7, 30]))]
                conv.append("FWD %s 0 %d - 12 %s - -" % (tn, len(s) + 2, common.wide(s)))
                conv.append("BWD %s 0 %d - 12 %s - -" % (tn, len(s) + 2, common.wide(s)))
                conv.append("FWD %s 68 %d - 12 %s - -" % (tn, len(s) + 2, common.wide(s)))
                conv.append("BWD %s 4 %d - 12 %s - -" % (tn, len(s) + 2, common.wide([0x2800 | t.charcell[c] for c in s])))
            prev_last = rng.choice(own)
            conv.append("D2C %s 0 %s" % (tn, common.wide([0x8000 | prev_last])))
        cases.append(common.Case("c11-%d" % i, setup, ops + conv + ["FREE"], {"tbl": t, "tn": tn, "nlate": len(late), "text": txt,
                                                                             "nmain": len(ops), "conv": conv, "allch": allch if conv else []}))
    # shipped tables: dump, structural test, then round trip where it passes
    shipped = corpus.quick_tables() if tier == "quick" else corpus.all_tables()
    for si, st_name in enumerate(shipped):
        cases.append(common.Case("c11-s%d" % si, [], ["DUMP %s" % corpus.tpath(st_name)], {"shipped": st_name}))
    common.run_cases(exe, cases, batch=8, timeout=300, env=common.ASAN_REUSE)
    lines, tags = [], []
    for c in cases:
        if c.fault or not c.out:
            continue
        di = next((i for i, op in enumerate(c.ops) if op.startswith("DUMP")), None)
        if di is None or di >= len(c.out) or c.out[di].startswith("T null"):
            continue
        name = c.meta.get("tn") or ("s-" + c.meta["shipped"])
        lines.append("LOADTABLE %s %s" % (name, c.out[di].rsplit(" e=", 1)[0])); tags.append(("load", c, None))
        lines.append("MONETOONE %s" % name); tags.append(("o2o", c, None))
        nm = c.meta.get("nmain", len(c.ops))
        for op, o in zip(c.ops[di + 1:nm], c.out[di + 1:nm]):
            t = op.split(" ")
            lines.append("%s %s %s %s %s %s" % ("MFWD" if t[0] == "FWD" else "MBWD", name, t[2], t[3], t[4], t[6]))
            tags.append(("eng", c, (op, o)))
    out = common.run_model(lines, timeout=900) if lines else []
    dist = {"generated_tables": ntab, "with_late_definitions": 0, "structural_test_true_generated": 0,
            "shipped_tables": len(shipped), "shipped_passing_structural_test": [], "engine_compared": 0, "roundtrips": 0,
            "display_tables": 0, "display_values_checked": 0, "max_alphabet": 0}
    eng_bad, o2o_bad = [], []
    shipped_o2o = []
    for (kind, c, extra), m in zip(tags, out):
        if kind == "o2o":
            if "tbl" in c.meta:
                if m == "O2O 1":
                    dist["structural_test_true_generated"] += 1
                else:
                    o2o_bad.append("generated one-to-one table fails the structural test on the real image: %s" % c.meta["text"][:300])
            elif m == "O2O 1":
                shipped_o2o.append(c.meta["shipped"])
        elif kind == "eng":
            op, o = extra
            R = common.parse_R(o)
            if R is None or not R["passes"] or m.startswith("UNSUPPORTED"):
                continue
            p = [x for x in R["passes"] if x["pass"] == 1][0]
            rules = re.sub(r"117:(?:[0-9a-f]{4}:-|-:[0-9a-f]{4})", "117:*:-", R.get("rules", "."))
            exp = "P %s %s %d %d %d rules=%s" % (common.wide(p["out"]), ",".join(map(str, p["map"])) or ".", p["realInlen"], p["cpos"], p["cstat"], rules)
            dist["engine_compared"] += 1
            if exp != m:
                eng_bad.append("%s\n impl  %s\n model %s" % (op[:160], exp[:300], m[:300]))
    dist["shipped_passing_structural_test"] = shipped_o2o
    v.obligation("correspondence: generated one-to-one tables pass the structural test on the DUMP of the real compile", not o2o_bad, "\n".join(o2o_bad[:3]))
    v.obligation("correspondence: Lean forward/backward main-pass models reproduce the real passes on the dumped tables", not eng_bad, "\n".join(eng_bad[:3]))
    # oracle: round trips on the implementation
    for c in cases:
        if "tbl" not in c.meta or c.fault:
            if c.fault:
                v.notes.append("fault during C11 run (decided by C01/C02): %s %s" % (c.fault["kind"], c.fault["frame"]))
            continue
        t = c.meta["tbl"]
        dist["max_alphabet"] = max(dist["max_alphabet"], len(t.charcell))
        if c.meta["nlate"]:
            dist["with_late_definitions"] += 1
        nm = c.meta["nmain"]
        for op, o in zip(c.ops[nm:], c.out[nm:]):
            tk = op.split(" ")
            if tk[0] in ("C2D", "D2C"):
                v.cov["evaluations"] += 1
                dist["conversions"] = dist.get("conversions", 0) + 1
                inp = common.unwide(tk[3])
                got = common.unwide(o.split(" ")[2]) if o.startswith("V 1 ") else None
                if tk[0] == "C2D":
                    want = [(0x2800 if tk[2] == "64" else 0x8000) | t.charcell[ch] for ch in inp]
                else:
                    inv = {cell: ch for ch, cell in t.charcell.items()}
                    want = [inv[x & 0xff] for x in inp]
                if got != want:
                    bad = next((i for i in range(len(want)) if got is None or i >= len(got) or got[i] != want[i]), 0)
                    v.violation("C11:conv:%s:%s" % (tk[0], "ucbrl" if tk[2] == "64" else "dots"),
                                "one-to-one table: %s (mode %s) of %04x gave %s, the table says %04x" % (
                                    "lou_charToDots" if tk[0] == "C2D" else "lou_dotsToChar", tk[2], inp[bad] if inp else 0,
                                    ("%04x" % got[bad]) if got and bad < len(got) else o[:40], want[bad] if want else 0),
                                {"script": c.setup + [x for x in c.ops if x.startswith("ADD")] + [op], "result": o[:400]})
            elif tk[0] in ("FWD", "BWD"):
                R = common.parse_R(o)
                if R is None:
                    continue
                v.cov["evaluations"] += 1
                dist["roundtrips"] += 1
                inp = common.unwide(tk[6])
                if tk[0] == "FWD":
                    want = inp if tk[2] == "0" else [0x2800 | t.charcell[ch] for ch in inp]
                elif tk[2] == "0":
                    want = inp
                else:
                    inv = {cell: ch for ch, cell in t.charcell.items()}
                    want = [inv[x & 0xff] for x in inp]
                if not (R["ret"] == 1 and R["out"] == want and R["inlen"] == len(inp)):
                    v.violation("C11:roundtrip:%s:mode%s" % (tk[0], tk[2]), "one-to-one table: %s mode %s of %s gave %s (ret %d, lengths %d/%d), expected %s" % (
                        tk[0], tk[2], common.wide(inp)[:80], common.wide(R["out"])[:80], R["ret"], R["inlen"], R["outlen"], common.wide(want)[:80]),
                        {"script": c.setup + [x for x in c.ops if x.startswith("ADD")] + [op], "result": o[:800]})
        for op, o in zip(c.ops[:nm], c.out[:nm]):
            if op.startswith("ADD") and not o.startswith("D 1"):
                v.violation("C11:add:rejected", "late definition rejected by lou_compileString: %s" % op[:120], {"script": c.setup + c.ops[:3], "result": o})
            if not op.startswith(("FWD", "BWD")):
                continue
            R = common.parse_R(o)
            if R is None:
                continue
            tk = op.split(" ")
            inp = common.unwide(tk[6])
            v.cov["evaluations"] += 1
            dist["roundtrips"] += 1
            if tk[0] == "FWD":
                want = [0x8000 | t.charcell[ch] for ch in inp]
            else:
                inv = {0x8000 | cell: ch for ch, cell in t.charcell.items()}
                want = [inv[x] for x in inp]
            if inp:
                v._distinct.add((c.id, tk[0], tk[6][:60]))
            ident = list(range(len(inp)))
            ok = R["ret"] == 1 and R["out"] == want and R["inlen"] == len(inp)
            if ok and inp:
                ok = common.ints(R["ip"]) == ident and common.ints(R["op"]) == ident
            if not ok:
                v.violation("C11:roundtrip:%s" % tk[0], "one-to-one table: %s of %s gave %s (lengths %d/%d, maps %s / %s), expected %s with identity maps" % (
                    tk[0], common.wide(inp)[:80], common.wide(R["out"])[:80], R["inlen"], R["outlen"], R.get("ip"), R.get("op"), common.wide(want)[:80]),
                    {"script": c.setup + [x for x in c.ops if x.startswith("ADD")] + [op], "result": o[:800]})
        if len(v.cov["samples"]) < 3:
            v.sample({"table": c.meta["text"][:200], "chars": len(t.charcell)})
    # twin pairs across lou_free(): table a, lookups, lou_free(), table b = a with the cells dealt out differently (same
    # image size, so it is allocated where a was when freed blocks are reused at once); every lookup must answer from b
    pair_cases = []
    for i in range(12 if tier == "quick" else 300):
        ta = gen_o2o(rng, rng.choice([2, 3, 5, 12, 40]))
        if max(ta.charcell.values()) > 255:
            continue
        tb = twin(rng, ta)
        an, bn = "pa%d.ctb" % i, "pb%d.ctb" % i
        coexist = (i % 3 == 2)
        if coexist:
            # both tables stay loaded, and the name of the second is a proper prefix of the first one's: each must answer
            # from its own table (a cache lookup comparing only a prefix of the name hands out the other one)
            an, bn = "pq%dx" % i, "pq%d" % i
        cells = sorted(set(ta.charcell.values()) - {0})
        rng.shuffle(cells)
        chars = [c for c in ta.chars() if c != 0x20]
        rng.shuffle(chars)
        ops = ["C2D %s 0 %s" % (an, common.wide(chars)), "D2C %s 0 %s" % (an, common.wide([0x8000 | x for x in cells])), "FREE",
               "D2C %s 0 %s" % (bn, common.wide([0x8000 | cells[-1]])), "C2D %s 0 %s" % (bn, common.wide([chars[-1]])),
               "FWD %s 0 %d - 12 %s - -" % (bn, len(chars), common.wide(chars[-1:] + chars[:-1])),
               "BWD %s 0 %d - 12 %s - -" % (bn, len(chars), common.wide(chars[-1:] + chars[:-1])), "FREE"]
        samepath = (i % 3 == 1)
        if samepath:
            # the second table is written over the first one's file after lou_free(): same list name, new contents
            # (what a program does that regenerates a table at a fixed path); nothing of the first may answer
            ops = [o.replace(" " + bn + " ", " " + an + " ") for o in ops]
            k = ops.index("FREE")
            ops = ops[:k + 1] + ["TBL %s %s" % (an, common.hexbytes(tb.text()))] + ops[k + 1:]
        if coexist:
            ops = [o for o in ops[:-1] if o != "FREE"] + ["C2D %s 0 %s" % (an, common.wide(chars[:3])), "FREE"]
        pair_cases.append(common.Case("c11-p%d" % i, ["TBL %s %s" % (an, common.hexbytes(ta.text())), "TBL %s %s" % (bn, common.hexbytes(tb.text()))],
                                      ops, {"a": ta, "b": tb, "an": an}))
    common.run_cases(exe, pair_cases, batch=1, timeout=120, env=common.ASAN_REUSE)
    dist["twin_pairs"] = len(pair_cases)
    for c in pair_cases:
        if c.fault:
            continue
        second = False
        for op, o in zip(c.ops, c.out):
            tk = op.split(" ")
            if tk[0] == "FREE":
                continue
            if tk[0] == "TBL":
                second = True
                continue
            t = c.meta["a"] if (tk[1] == c.meta["an"] and not second) else c.meta["b"]
            v.cov["evaluations"] += 1
            if tk[0] in ("C2D", "D2C"):
                inp = common.unwide(tk[3])
                got = common.unwide(o.split(" ")[2]) if o.startswith("V 1 ") else None
                inv = {cell: ch for ch, cell in t.charcell.items()}
                want = [0x8000 | t.charcell[ch] for ch in inp] if tk[0] == "C2D" else [inv[x & 0xff] for x in inp]
            else:
                R = common.parse_R(o)
                inp = common.unwide(tk[6])
                got = R["out"] if (R and R["ret"]) else None
                want = inp
            if got != want:
                v.violation("C11:twin:%s" % tk[0], "after lou_free() and loading a table with the same characters and differently assigned cells, "
                            "%s of %s gave %s, the table now in use says %s" % (tk[0], common.wide(inp)[:60], common.wide(got)[:60] if got is not None else o[:40],
                                                                               common.wide(want)[:60]),
                            {"script": c.setup + c.ops[: c.ops.index(op) + 1], "result": o[:400], "env": common.ASAN_REUSE})
    # shipped tables passing the test: forward then backward on strings over their characters
    rt_cases = []
    for name in shipped_o2o:
        c0 = next(c for c in cases if c.meta.get("shipped") == name)
        chars = [int(m, 16) for m in re.findall(r" \| C ([0-9a-f]{4}) ", c0.out[0])]
        chars = [ch for ch in chars if ch not in (0xffff, 0)]
        ops = []
        for _ in range(10):
            s = [rng.choice(chars) for _ in range(rng.choice([1, 5, 20]))]
            ops.append("FWD %s 4 %d - 12 %s - -" % (corpus.tpath(name), len(s) + 3, common.wide(s)))
        rt_cases.append(common.Case("c11-rt-" + name, [], ops, {"shipped": name}))
    common.run_cases(exe, rt_cases, batch=4)
    back_cases = []
    for c in rt_cases:
        ops = []
        for op, o in zip(c.ops, c.out):
            R = common.parse_R(o)
            if R and R["ret"]:
                ops.append("BWD %s 4 %d - 12 %s - -" % (op.split(" ")[1], len(R["out"]) + 3, common.wide(R["out"])))
        back_cases.append(common.Case(c.id + "-b", [], ops, dict(c.meta, fwd=c)))
    common.run_cases(exe, back_cases, batch=4)
    for c in back_cases:
        f = c.meta["fwd"]
        for fop, bop, bo in zip(f.ops, c.ops, c.out):
            Rb = common.parse_R(bo)
            if Rb is None:
                continue
            v.cov["evaluations"] += 1
            dist["roundtrips"] += 1
            s = common.unwide(fop.split(" ")[6])
            if Rb["out"] != s:
                v.violation("C11:roundtrip:shipped:%s" % c.meta["shipped"], "shipped one-to-one table %s: back(fwd(%s)) = %s" % (c.meta["shipped"], common.wide(s)[:60], common.wide(Rb["out"])[:60]),
                            {"script": [fop, bop], "result": bo[:500]})
            else:
                v._distinct.add((c.id, fop.split(" ")[6][:40]))
    # display tables: exhaustive lou_dotsToChar ∘ lou_charToDots over all 65536 values
    dts = (corpus.display_tables()[:4] + ["en-us-g2.ctb", "unicode-braille.utb"]) if tier == "quick" else (corpus.display_tables() + corpus.quick_tables())
    allc = common.wide(list(range(1, 0x10000)))
    dcases = [common.Case("c11-d%d" % i, [], ["DISPDUMP %s" % corpus.tpath(d), "C2D %s 0 %s" % (corpus.tpath(d), allc)], {"disp": d}) for i, d in enumerate(dts)]
    common.run_cases(exe, dcases, batch=1, timeout=300)
    d2 = []
    for c in dcases:
        if len(c.out) < 2 or not c.out[1].startswith("V 1 "):
            continue
        d2.append(common.Case(c.id + "x", [], ["D2C %s 0 %s" % (corpus.tpath(c.meta["disp"]), c.out[1].split(" ")[2])], dict(c.meta, first=c)))
    common.run_cases(exe, d2, batch=1, timeout=300)
    for c in d2:
        f = c.meta["first"]
        m = re.match(r"DD c2d=(\S+) d2c=(\S+)", f.out[0])
        if not m or not c.out or not c.out[0].startswith("V 1 "):
            continue
        c2d = dict((int(a, 16), int(b, 16)) for a, b in (p.split(":") for p in m.group(1).split(",") if ":" in p))
        d2c = dict((int(a, 16), int(b, 16)) for a, b in (p.split(":") for p in m.group(2).split(",") if ":" in p))
        back = common.unwide(c.out[0].split(" ")[2])
        dist["display_tables"] += 1
        for ch in range(1, 0x10000):
            d = c2d.get(ch)
            if d is not None and d2c.get(d) == ch:        # injectively mapped character
                dist["display_values_checked"] += 1
                if back[ch - 1] != ch:
                    v.violation("C11:display:%s" % c.meta["disp"], "lou_dotsToChar(lou_charToDots(%04x)) = %04x in %s" % (ch, back[ch - 1], c.meta["disp"]),
                                {"script": f.ops[:1] + ["C2D … all characters", "D2C …"], "char": ch})
                    break
        v.cov["evaluations"] += 1
    v.cov["exhaustive"] = False
    v.cov["distribution"] = dist
    v.cov["traces_validated_against_impl"] = dist["engine_compared"]
    v.cov["rule"] = ("%d generated one-to-one tables (2-300 characters, colliding hash buckets, 6/8/15-dot cells, shuffled order, late "
                     "definitions via lou_compileString) x strings over their characters in both directions with tight and generous "
                     "capacity; %d shipped tables dumped and put through the structural test, round trip on those that pass; display "
                     "round trip exhaustively over 65535 characters for %d tables; distinct by (table, direction, input)" % (ntab, len(shipped), len(dts)))
    return v.finish()
