"""C02 — back-translation and conversions never access memory outside their buffers."""
import random
from .. import common, corpus, suite_translate as st
from .C01 import alloc_ops_from, rand_mode

THEOREMS = [
    "Lou.Alloc.alloc_capacity", "Lou.C02.composeBackLoop_inlen", "Lou.C02.backRun_inv",
    "Lou.C02.driver_back_safe", "Lou.C02.backPassAccesses_ok",
            "Lou.BackOK.translate_contract", "Lou.ModelEngine.modelEngineBack_ok", "Lou.ModelEngine.model_driver_back_safe", "Lou.ModelEngine.whole_call_back_safe",
            "Lou.ModelEngine.engineForBack_ok", "Lou.BackCOK.translateC_contract",
]

CLAIM = dict(
    text=("Kernel-checked: backRun_inv (after any number of passes of any engine satisfying the backward contract, *inlen "
          "stays in [0, length up to the first NUL] and the output fits the capacity), driver_back_safe (every access "
          "_lou_backTranslate performs itself — input copy incl. the sentinel cell, outputPos pre-fill, typeform/"
          "spacing memset, final copy, inputPos scan, outputPos clamp loop, cursor read — is inside its buffer at the "
          "documented caller sizes and the allocator's guaranteed scratch sizes), backPassAccesses_ok (the guarded "
          "composition indices), on top of alloc_capacity. The proof attempt exposed F12 (embedded NUL), confirmed "
          "under ASan and repaired. Ties: H5 scratch log vs allocator model on call histories, H4 trace validation, "
          "and the search: ASan+UBSan with exact-size caller arrays and exact scratch (H1) over shipped tables x cell "
          "strings (defined and arbitrary 16-bit values, real forward output) x dotsIO/partialTrans/noUndefined x "
          "capacities x histories; lou_charToDots/lou_dotsToChar and lou_hyphenate (text and braille mode) with "
          "exact-size arrays."),
    note=("Layer B: the backward main-pass models (B0: BackOK.translate_contract; with context rules: BackCOK.translateC_contract) and the backward "
          "stage model satisfy the clauses the driver theorem needs for every table (engineForBack_ok), and the whole backward call computed by the "
          "model alone (MCALL) is compared with the implementation on composite generated tables under exact-size buffers. Outside the models the "
          "engines (back_selectRule, putchars, undefinedDots, multind, swap, pass interpreters) and hyphenateWord are "
          "sanitizer-observed here; hyphenateWord's bounds are proved in C17. Index expressions of LouModel/Access.lean "
          "are transcribed by hand."),
    technique="Lean 4 proof (allocator + backward driver access obligations) + H5/H4 correspondence + sanitizer search",
    design="DESIGN.md §7 C02")

HYPH_LISTS = ["en-us-g1.ctb,hyph_en_US.dic", "da-dk-g26.ctb", "de-g2.ctb", "de-g1.ctb", "hu-hu-g1.ctb,hyph_hu_HU.dic",
              "fr-bfu-comp6.utb,hyph_fr_FR.dic", "es-g1.ctb,hyph_es_ES.dic", "nl-NL-g0.utb,hyph_nl_NL.dic",
              "ru-litbrl.ctb,hyph_ru.dic", "pl-pl-comp8.ctb,hyph_pl_PL.dic", "cs-g1.ctb,hyph_cs_CZ.dic"]


def fault_sig(f, op=""):
    if f["kind"] == "ubsan" and f["frame"].endswith(":addRule") and "out of bounds" in f.get("detail", ""):
        # the declared bound of TranslationTableRule.charsdots (finding F18): identified by the table being compiled
        import os
        tbl = os.path.basename(op.split(" ")[1].split(",")[0]) if len(op.split(" ")) > 1 else "?"
        return "C02:ubsan:addRule:charsdots-bound:%s" % tbl
    return "C02:%s:%s:%s" % (f["kind"], f["frame"], f.get("detail", "")[:40])


def run(tier):
    v = common.Verdict("C02", tier)
    rng = random.Random(common.seed() * 1000003 + 2)
    common.lean_obligations(v, THEOREMS)
    try:
        exe = common.build_harness()
        v.obligation("harness builds from /repo working tree (hooks on, ASan+UBSan)", True)
    except common.BuildError as e:
        v.obligation("harness builds from /repo working tree (hooks on, ASan+UBSan)", False, str(e)[-2000:])
        return v.finish()
    tables = corpus.quick_tables() if tier == "quick" else corpus.all_tables()
    n = 24 if tier == "quick" else 100
    # phase 1: realistic braille = forward output of real words (dotsIO), per table
    fcases = []
    for ti, t in enumerate(tables):
        ops = [st.gen_fwd_op(rng, t, inp=corpus.rand_input(rng, 16), mode=4, cap=400, argmask=0) for _ in range(8)]
        fcases.append(common.Case("c02-f%d" % ti, [], ops, {"table": t}))
    common.run_cases(exe, fcases, batch=8)
    real = {}
    for c in fcases:
        outs = []
        for o in c.out:
            R = common.parse_R(o)
            if R and R["ret"] and R["out"]:
                outs.append(R["out"])
        real[c.meta["table"]] = outs
    cases = []
    for ti, t in enumerate(tables):
        ops = []
        for _ in range(n):
            r = rng.random()
            if r < 0.4 and real.get(t):
                inp = list(rng.choice(real[t]))
                if rng.random() < 0.3 and inp:
                    inp = inp[: rng.randint(1, len(inp))]      # truncated indicator sequences
                if rng.random() < 0.2:
                    inp.append(rng.choice([0x80ff, 0xffff, 0x8000 | rng.randint(64, 255), rng.randint(1, 0xffff)]))
                mode = rng.choice([4, 4 | 256, 4 | 128, 4 | 1])
            elif r < 0.7:
                inp = corpus.rand_braille(rng, dots_io=True)
                mode = rng.choice([4, 4 | 256, 4 | 128, 4 | 256 | 128])
            elif r < 0.85:
                inp = [rng.randint(0, 0xffff) for _ in range(rng.randint(0, 20))]
                mode = rand_mode(rng)
            else:
                inp = [rng.choice(b" abcdefghijklmnopqrstuvwxyz,;:.!?'-0123456789#^_\"") for _ in range(rng.randint(1, 24))]
                mode = rng.choice([0, 256, 128, 1])
            ops.append(st.gen_bwd_op(rng, t, inp, mode=mode))
        cases.append(common.Case("c02-x%d" % ti, ["HOOK trace 1", "HOOK exact 1"], ops, {"table": t, "kind": "exact"}))
    # long inputs, inlen > outlen, embedded NUL
    for ti, t in enumerate(tables[: (12 if tier == "quick" else 80)]):
        ops = []
        for L in ([1030, 3000] if tier == "quick" else [1023, 1025, 1029, 2100, 3000, 5000]):
            base = corpus.rand_braille(rng, 24, dots_io=True) or [0x8001]
            u = (base * (L // len(base) + 1))[:L]
            if rng.random() < 0.5:
                u[rng.randint(0, 40)] = 0
            for cap in (10, L // 2, L + 5):
                ops.append(st.gen_bwd_op(rng, t, u, mode=rng.choice([4, 4 | 256]), cap=cap, argmask=rng.choice([28, 31, 0, 12])))
        cases.append(common.Case("c02-l%d" % ti, ["HOOK trace 1"], ops, {"table": t, "kind": "long"}))
    # conversions with exact-size arrays
    conv_cases = []
    for ti, t in enumerate(tables[: (16 if tier == "quick" else len(tables))] + corpus.display_tables()[: (6 if tier == "quick" else 40)]):
        ops = ["CHK %s" % corpus.tpath(t)]       # a table that does not compile (e.g. needs UCS-4) is not a valid table
        for _ in range(8):
            L = rng.choice([0, 1, 2, 7, 40])
            ops.append("C2D %s %d %s" % (corpus.tpath(t), rng.choice([0, 64]), common.wide([rng.randint(0, 0xffff) for _ in range(L)])))
            ops.append("D2C %s %d %s" % (corpus.tpath(t), rng.choice([0, 64]), common.wide(
                [rng.choice([0x8000 | rng.randint(0, 0x7fff), 0x2800 | rng.randint(0, 255), rng.randint(0, 0xffff)]) for _ in range(L)])))
        conv_cases.append(common.Case("c02-c%d" % ti, [], ops, {"table": t, "kind": "conv"}))
    # hyphenation wrapper, both modes
    hyp_cases = []
    tw, bw = corpus.words()
    for hi, hl in enumerate(HYPH_LISTS[: (6 if tier == "quick" else len(HYPH_LISTS))]):
        ops = []
        for _ in range(30 if tier == "quick" else 200):
            if rng.random() < 0.6:
                w = [ord(c) for c in rng.choice(tw)][: rng.choice([5, 20, 99, 120])]
            else:
                w = [rng.choice(b"abcdefghijklmnopqrstuvwxyzABC -'.") for _ in range(rng.choice([0, 1, 2, 8, 30, 98, 99, 100, 101, 150]))]
            if rng.random() < 0.15 and w:
                # hyphens and apostrophes at the very start / end and doubled: the compound-word scan looks around them
                pre = rng.choice(["-", "--", "'", "-'", ""])
                w = ([ord(x) for x in pre] + w + [ord(x) for x in rng.choice(["", "-", "-a", "--"])])[:100]
            ops.append("HYP %s 0 %s" % (corpus.tpath(hl), common.wide(w)))
            cells = corpus.rand_braille(rng, rng.choice([1, 8, 30, 99, 100]), dots_io=False)
            ops.append("HYP %s 1 %s" % (corpus.tpath(hl), common.wide(cells)))
        hyp_cases.append(common.Case("c02-h%d" % hi, ["HOOK exact 1", "HOOK budget 3000000"], ops, {"table": hl, "kind": "hyph"}))
    # generated dictionaries, among them patterns with a digit in front of the leading '.' (a contribution at offset -1:
    # the merge loop must not go below the first element of `hyphens` - F5, repaired; seeded change C02-H dropped the bound),
    # words at the very start of the caller's array
    from . import C17 as _C17
    from .. import hyphlib as _H
    for gi in range(6 if tier == "quick" else 120):
        g = _C17.gen_dict(rng, ["leaddigit", "normal", "leaddigit"][gi % 3])
        pats = _H.parse_dict(g["bytes"]) or []
        tbl = _H.letter_table(g["lowers"], g["upper_of"], [45], [46, 39], "c02g%d.dic" % gi)
        ops = []
        for _ in range(12 if tier == "quick" else 30):
            w = _C17.gen_word(rng, g, pats)[:rng.choice([3, 8, 30, 99])]
            ops.append("HYP c02g%d.utb 0 %s" % (gi, common.wide(w)))
        for l, _d in pats[:8]:
            core = [c for c in l if c != _H.DOT]
            if core:
                ops.append("HYP c02g%d.utb 0 %s" % (gi, common.wide(core)))
                ops.append("HYP c02g%d.utb 0 %s" % (gi, common.wide(core + [rng.choice(g["lowers"])])))
        hyp_cases.append(common.Case("c02-hg%d" % gi, ["HOOK exact 1", "HOOK budget 3000000", "TBL c02g%d.dic %s" % (gi, common.hexbytes(g["bytes"])),
                                                        "TBL c02g%d.utb %s" % (gi, common.hexbytes(tbl))], ops, {"table": "generated dictionary", "kind": "hyph"}))
    # histories with the scratch log
    hist_cases = []
    for hi in range(10 if tier == "quick" else 150):
        ops = []
        for _ in range(rng.randint(4, 12)):
            r = rng.random()
            if r < 0.15:
                ops.append("FREE")
            elif r < 0.25:
                ops.append("HOOK exact %d" % rng.randint(0, 1))
            else:
                t = rng.choice(tables[:10])
                L = rng.choice([0, 1, 5, 30, 200, 1100, 2500])
                base = corpus.rand_braille(rng, 24, dots_io=True) or [0x8001]
                u = (base * (L // len(base) + 1))[:L]
                cap = rng.choice([0, 1, L, 2 * L + 3, 1500, 40])
                if rng.random() < 0.5:
                    ops.append(st.gen_bwd_op(rng, t, u, mode=rng.choice([4, 4 | 256]), cap=cap, argmask=rng.choice([28, 31, 0])))
                else:
                    ops.append(st.gen_fwd_op(rng, t, inp=[(c & 0x3f) + 0x40 for c in u], mode=0, cap=cap, argmask=rng.choice([31, 0])))
        hist_cases.append(common.Case("c02-y%d" % hi, ["HOOK trace 1", "HOOK alloc 1"], ops, {"kind": "history"}))
    # capacity sweeps with every output array present (exact sizes) on cells of the table's own rules: an indicator or a
    # blank inserted when the output is exactly full must not touch outbuf/typeform/spacing/inputPos[outlen]
    vocab = corpus.table_vocab(exe, tables)
    for ti, t in enumerate(tables):
        vv = vocab.get(t)
        if not vv or not vv.by_op:
            continue
        ops = []
        sweeps = [vv.braille(rng, 12) for _ in range(3 if tier == "quick" else 12)]
        # cells of a rule after which back-translation INSERTS a blank (joinword, joinnum), directly followed by the
        # cells of another rule: the inserted blank and its mark in the spacing array at every capacity
        joins = [d for op_ in (93, 94) for (_c, d) in vv.by_op.get(op_, [])]
        for _ in range(min(2, len(joins))):
            d1 = [x for x in rng.choice(joins) if x & 0x8000]
            _w, d2 = vv.sample_word(rng, 6)
            d2 = [x for x in d2 if x & 0x8000]
            if d1 and d2:
                sweeps.append((d1 + d2)[:12])
                sweeps.append((d1 + d2 + [0x8000] + d1 + d2)[:14])
        for u in sweeps:
            if not u:
                continue
            for cap in range(0, 2 * len(u) + 3):
                ops.append(st.gen_bwd_op(rng, t, u, mode=4, cap=cap, argmask=31))
        cases.append(common.Case("c02-s%d" % ti, ["HOOK trace 1", "HOOK exact 1"], ops, {"table": t, "kind": "sweep"}))
    # wide generated tables (all opcode families, backward rules incl. nofor multipass/match/swap), cells of the rules
    cases += st.wide_cases(rng, 200 if tier == "quick" else 3000, per_table=4, back=True, exact=True, tag="c02w", budget=3000000, groupreplace=True)
    # composite generated tables (translation rules between correct and pass2-4 stages whose rules lengthen and shorten),
    # inputs built from the rules' own literals, exact-size caller arrays, capacities around every stage's length; the
    # whole call is also computed by the model alone (MCALL)
    cases += st.composite_cases(rng, 150 if tier == "quick" else 3000, per_table=8, tag="c02wc", exact=True)
    calls = st.run_and_trace(exe, cases, timeout=300)
    calls += st.run_and_trace(exe, hist_cases, timeout=300, batch=1)
    wdist = {}
    whole_bad = st.compare_whole(calls, wdist)
    v.obligation("correspondence: the model alone (driver + main-pass + stage models) computes the whole result of every call "
                 "on composite generated tables", not whole_bad, "\n".join(whole_bad[:3]))
    common.run_cases(exe, conv_cases + hyp_cases, batch=4, timeout=300)
    allc = cases + hist_cases + conv_cases + hyp_cases
    nfault = 0
    for c in allc:
        if c.fault and c.fault["kind"] in ("tick-budget", "timeout"):
            # non-termination is decided by C03, not here
            v.notes.append("non-terminating call seen (C03 matter): %s" % (c.ops[c.fault.get("op_index", 0)][:160] if c.ops else ""))
            continue
        if c.fault:
            nfault += 1
            i = c.fault.get("op_index", 0)
            op = c.ops[i] if 0 <= i < len(c.ops) else "?"
            v.violation(fault_sig(c.fault, op), "%s in %s while executing: %s" % (c.fault["kind"], c.fault["frame"], op[:300]),
                        {"script": c.setup + c.ops[: i + 1], "fault": {k: c.fault[k] for k in c.fault if k != "stderr_tail"},
                         "stderr_tail": c.fault.get("stderr_tail", "")[-1200:]})
    # exact-length clauses of the conversions and of lou_hyphenate
    nconv = nhyp = 0
    for c in conv_cases:
        loads = bool(c.out) and c.out[0].startswith("C 1")
        for op, o in zip(c.ops[1:], c.out[1:]):
            t = op.split(" ")
            L = len(common.unwide(t[3]))
            if o.startswith("V 1 "):
                nconv += 1
                got = common.unwide(o.split(" ")[2])
                if len(got) != L or 0xeeee in got and L and False:
                    v.violation("C02:conv:length", "conversion wrote %d of %d elements: %s" % (len(got), L, op[:200]), {"script": [op], "result": o})
                v._distinct.add(("conv", t[1], t[2], t[3][:40]))
            elif o.startswith("V 0") and L > 0 and loads:
                v.violation("C02:conv:ret0", "conversion returned 0 on a valid table and positive length: %s" % op[:200], {"script": [op], "result": o})
            v.cov["evaluations"] += 1
    for c in hyp_cases:
        for op, o in zip(c.ops, c.out):
            t = op.split(" ")
            L = len(common.unwide(t[3]))
            v.cov["evaluations"] += 1
            if o.startswith("H 1 "):
                nhyp += 1
                hb = common.unhexbytes(o.split(" ")[2])
                if len(hb) != L + 1 or hb[-1] != 0 or any(b not in b"012" for b in hb[:-1]):
                    v.violation("C02:hyph:format", "lou_hyphenate did not write exactly inlen characters from '0','1','2' and a NUL: %s -> %s" % (op[:160], o[:120]),
                                {"script": c.setup + [op], "result": o})
                v._distinct.add(("hyp", t[1], t[2], t[3][:40]))
            elif o.startswith("H 0") and L >= 100 and "touched" in o and "untouched" not in o:
                pass  # writes before a failure are inside the array (checked by ASan); not part of the property
    lines, exps, used = [], [], []
    for c in hist_cases:
        if c.fault or len(c.out) != len(c.ops):
            continue
        l, e = alloc_ops_from(c)
        lines.append(l); exps.append(e); used.append(c)
    alloc_bad = []
    nreq = 0
    if lines:
        outm = common.run_model(lines)
        for c, e, m in zip(used, exps, outm):
            nreq += len(e.split()) - 1
            if e != m:
                et, mt = e.split(), m.split()
                d = next((i for i, (x, y) in enumerate(zip(et, mt)) if x != y), min(len(et), len(mt)))
                alloc_bad.append("%s: first difference at request %d: impl %s / model %s" % (c.id, d, et[max(d - 2, 0):d + 3], mt[max(d - 2, 0):d + 3]))
    v.obligation("correspondence: allocator model reproduces the H5 scratch log on every call history", not alloc_bad, "; ".join(alloc_bad[:3]))
    trace_bad = [k for k in calls if k.trace_ok is False]
    v.obligation("correspondence: Lean driver reproduces every recorded call (trace validation)", not trace_bad,
                 "; ".join("%s :: %s" % (k.op[:200], k.trace_detail[:600]) for k in trace_bad[:3]))
    dist = {"bwd_calls": 0, "fwd_calls": 0, "conversions": nconv, "hyphenate_ok": nhyp, "faults": nfault,
            "alloc_requests_compared": nreq, "contract_fail": {}, "ret0": 0}
    for k in calls:
        if k.R is None:
            continue
        v.cov["evaluations"] += 1
        t = k.op.split(" ")
        dist["bwd_calls" if t[0] == "BWD" else "fwd_calls"] += 1
        if not k.R["ret"]:
            dist["ret0"] += 1
        v._distinct.add((t[0], k.case.meta.get("table"), t[2], t[3], t[4], t[5], t[6][:64], len(t[6])))
        if k.eok is False and t[0] == "BWD":
            dist["contract_fail"][k.failed] = dist["contract_fail"].get(k.failed, 0) + 1
            if "E1" in k.failed or "E3" in k.failed:
                v.violation("C02:contract:%s" % k.failed, "a recorded backward pass violates the clauses the driver theorem needs (%s) | %s" % (k.failed, k.op[:200]),
                            {"script": k.case.setup + [k.op], "result": k.line[:3000]})
        if len(v.cov["samples"]) < 5 and t[0] == "BWD":
            v.sample({"op": k.op[:240], "result": k.line.split(" | ")[0][:200]})
    v.cov["traces_validated_against_impl"] = sum(1 for k in calls if k.trace_ok is not None)
    dist.update(wdist)
    v.cov["distribution"] = dist
    v.cov["rule"] = ("backward calls under ASan+UBSan with exact-size caller arrays and exact scratch (H1) on %d tables: real "
                     "forward output (also truncated / with undefined cells appended), random cells, arbitrary 16-bit values, "
                     "ASCII braille; long inputs with embedded NUL and inlen>outlen; call histories replayed through the "
                     "allocator model; lou_charToDots/lou_dotsToChar and lou_hyphenate (both modes) with exact arrays; "
                     "distinct by (op, table, mode, capacity, cursor, argmask, input)" % len(tables))
    return v.finish()
