"""C08 — results are a pure function of table sources and arguments."""
import random, re
from .. import common, corpus, gen_table

THEOREMS = [
    "Lou.C08.statics_covered", "Lou.C08.classification_sound", "Lou.C08.opcodeNames_nodup",
    "Lou.C08.searchStart_irrelevant", "Lou.C08.getOpcode_start_irrelevant", "Lou.C08.cached_is_compiled",
    "Lou.C08.history_irrelevant", "Lou.C08.order_irrelevant", "Lou.C08.compileString_uncached_fresh",
    "Lou.C08.compileString_needs_counter_reset", "Lou.C08.compileString_refused_after_use",
]

CLAIM = dict(
    text=("Kernel-checked (LouProofs/C08.lean): (1) statics_covered / classification_sound — the inventory of EVERY object "
          "with static storage duration in liblouis/*.c, regenerated from clang's AST on every run with syntactic "
          "write/address-of/bare-argument counts and the functions that write it, is matched entry by entry (decide) by a "
          "hand-written classification: const, never written, reset before use (with the resetting function, which must be "
          "among the extracted writers), cache keyed by the full list name (C14), lazily initialised constant, logging sink, "
          "search start only, allocator size only, scratch buffer pointer, configuration setter, other API; a new, removed "
          "or differently written static breaks the proof. (2) opcodeNames_nodup + searchStart_irrelevant — the extracted "
          "opcode name table has no duplicates, hence the circular search of getOpcode/_lou_findOpcodeNumber finds the same "
          "opcode from every start. (3) history_irrelevant — in the whole-library state machine (caches with table contents, "
          "allocator, stale scratch contents, stale statics, errorCount, logger) the result of a translation, "
          "back-translation, hyphenation or character/dot conversion call after ANY history of such calls, lou_free, "
          "log-level changes and lou_compileString on OTHER lists equals its result from the initial state, for every file "
          "system, provided the engines are functions of their declared inputs (table, arguments) only; order_irrelevant "
          "follows. (4) lou_compileString: compileString_needs_counter_reset — in the machine without the errorCount reset at "
          "the entry of compileString (the code before the F7 repair) an `include` added after a call naming a bad list "
          "fails, with the reset (the code now) it does not; compileString_uncached_fresh; compileString_refused_after_use "
          "(by design). Tied to the code by "
          "running random call histories (FWD/BWD/HYP/C2D/D2C/ADD/FREE/LOGLEVEL over shipped and generated tables, inputs "
          "up to 2600 cells, capacities 1-2700) one process each and comparing every call's canonical result line with the "
          "same call made first in a fresh process; differing calls are delta-debugged to a minimal history."),
    note=("The engines (rule selection, passes, hyphenation, compilation) are parameters of the model: 'depends only on its "
          "declared inputs' is the hypothesis the search tests, not a theorem. lou_compileString on the SAME list changes "
          "later results by design (C15); such calls are compared with a fresh process that adds the same rules first."),
    technique="Lean 4 proof over a whole-library state machine + decide over a clang-generated inventory of statics + fresh-process differential with delta debugging",
    design="DESIGN.md §7 C08")

hx = common.hexbytes
ELOG = re.compile(r" e=\d+ w=\d+| \| K( \d+)+")


def canon(line):
    """a result line without the log counters (they depend on the log level and on whether the table was
    compiled during the call, neither of which is a result of the call) and without the harness's own
    loop-tick counters"""
    return ELOG.sub("", line)


class Pool:
    """tables, inputs and the distinct calls the histories draw from"""
    def __init__(self, rng, tier):
        self.files = {}
        self.lists = []          # (list string, kind)
        shipped = ["en-ueb-g2.ctb", "en-us-g2.ctb", "de-g2.ctb", "da-dk-g26.ctb", "fr-bfu-g2.ctb", "en-us-comp8.ctb"]
        if tier != "quick":
            shipped += ["es-g2.ctb", "nl-NL-g0.utb", "hu-hu-g1.ctb", "ru.ctb", "unicode-braille.utb", "en-ueb-math.ctb"]
        for t in shipped:
            self.lists.append((corpus.tpath(t), "shipped"))
        self.gen = {}
        for i, kind in enumerate(["mixed", "multipass", "f0", "mixed"] if tier == "quick" else
                                 ["mixed", "multipass", "f0", "mixed", "multipass", "mixed", "onetoone"]):
            t = gen_table.gen_table(rng, kind)
            name = "g%d.ctb" % i
            text = t.text()
            if i == 2:
                text = "include ghy.dic\n" + text
            self.files[name] = text
            self.gen[name] = t
            self.lists.append((name, "generated"))
        # wide tables (every opcode family; multipass rules that set and test pass variables in both halves of the
        # variable array; emphasis, grouping, swap ...): state left behind by one call shows in the next
        from .. import gen_features as GF
        self.wide = {}
        for i in range(3 if tier == "quick" else 10):
            w = GF.gen(rng, want={"multipass", "numsign", "caps", "uppercase", "swap", "grouping", "repeated", "emph"} if i % 2 == 0 else None)
            name = "w%d.ctb" % i
            self.files[name] = w.text
            self.wide[name] = w
            self.lists.append((name, "wide"))
        # variables: a rule that sets a variable and a rule that tests it, for a low and a high index
        self.files["var.ctb"] = ("space \\s 0\nlowercase a 1\nlowercase b 12\nlowercase c 14\nlowercase d 145\n"
                                 "noback context \"b\" @12#1=1\nnoback context #1=1\"c\" @123456\n"
                                 "noback context \"d\" @145#30=1\nnoback context #30=1\"a\" @23456\n"
                                 "noback pass2 @12 @12#49=2\nnoback pass2 #49=2@14 @1456\n")
        self.lists.append(("var.ctb", "var"))
        # a correct rule that lengthens the text: the main pass then works on positions the caller's arrays do not have
        # (F36: stale typeform data behind the caller's input decided where the first call of a process stopped)
        self.files["len.ctb"] = ("space \\s 0\nletter \\x0564 15\nletter l 123\nlowercase \\x04c5 456\nlowercase b 126\n"
                                 "lowercase \\x04c4 12456\nlowercase c 1234\nlowercase f 1245\nnoback correct \"l\" \"bfl\"\n"
                                 "always bf 123456\nnofor pass2 @456 @1245\n")
        self.lists.append(("len.ctb", "len"))
        letters = [c for c in self.gen["g2.ctb"].chars() if c > 0x20][:6] or [0x61]
        pats = []
        for _ in range(12):
            w = [rng.choice(letters) for _ in range(rng.randint(2, 4))]
            k = rng.randint(1, len(w) - 1)
            pats.append("".join(gen_table.char_str(c) for c in w[:k]) + str(rng.choice([1, 3, 2])) +
                        "".join(gen_table.char_str(c) for c in w[k:]))
        self.files["ghy.dic"] = "UTF-8\n" + "\n".join(pats) + "\n"
        self.files["inc.cti"] = "sign \\x2661 1256\n"
        # twin tables: the same characters and cells, but `z` is a space in one and a sign in the other
        self.files["tw1.ctb"] = "space \\s 0\nspace z 3\nsign a 1\nsign b 2\n"
        self.files["tw2.ctb"] = "space \\s 0\nsign z 3\nsign a 1\nsign b 2\nword ab 12-3\n"
        self.lists.append(("tw1.ctb", "twin"))
        self.lists.append(("tw2.ctb", "twin"))
        self.files["bad.ctb"] = "sign a 1\nnonsense x 1\n"
        # a list naming two files, a list that is a prefix of another name, a bad list
        self.lists.append(("g0.ctb,inc.cti", "generated"))
        self.lists.append(("bad.ctb", "bad"))
        self.lists.append(("nothere.ctb", "bad"))
        # the same text and the same cells are also given to EVERY table: a static that remembers something
        # about the last character or cell shows only when another table sees the same one
        self.shared_text = [[0x61, 0x62, 0x20, 0x41, 0x31, 0x2e, 0x61, 0x7a], corpus.rand_input(rng, 16)]
        self.shared_cells = [[0x8001, 0x8003, 0x8000, 0x8039, 0x8021, 0x8001, 0x803f, 0x8011],
                             [0x8000 | rng.randint(0, 63) for _ in range(10)]]
        self.calls = []
        self._mk_calls(rng, tier)

    def _inputs(self, rng, lst, kind):
        outs = []
        name = lst.split(",")[0]
        if kind == "twin":
            outs = [[ord(c) for c in w] for w in ("zaaz", "ab z ba", "zzzz a")]
        elif kind == "len":
            outs = [[0x20, 0x20, 0x564, 0x4c5, 0x4c4, 0x62, 0x66, 0x63, 0x63, 0x6c, 0x4c4, 0x66], [0x6c, 0x4c4], [0x4c4, 0x6c, 0x6c, 0x4c5, 0x20, 0x6c, 0x564],
                    [0x564, 0x20, 0x4c5, 0x6c, 0x4c4, 0x4c4, 0x4c4]]
        elif kind == "var":
            outs = [[ord(c) for c in w] for w in ("ab", "ac", "ad", "a", "c", "cb", "dcab", "b")]
        elif kind == "wide":
            from .. import gen_features as GF
            outs = [GF.text_for(rng, self.wide[name]) for _ in range(4)]
        elif name in self.gen:
            t = self.gen[name]
            for _ in range(3):
                outs.append(gen_table.rand_text(rng, t, 14))
        else:
            for _ in range(3):
                outs.append(corpus.rand_input(rng))
        base = outs[0] or [0x61, 0x20]
        L = rng.choice([1030, 1200, 2600])
        outs.append((base * (L // len(base) + 1))[:L])
        return outs

    def _mk_calls(self, rng, tier):
        nper = 5 if tier == "quick" else 8
        for lst, kind in self.lists:
            ins = self._inputs(rng, lst, kind)
            name = lst.split(",")[0]
            for _ in range(nper):
                u = rng.choice(ins)
                n = len(u)
                cap = rng.choice([1, 3, max(n // 2, 1), n, 2 * n + 3, 1100, 1300, 2700]) if n < 1000 else rng.choice([5, n // 2, n, n + 40])
                mode = rng.choice([0, 0, 4, 4, 1, 128, 64 | 4, 2, 4 | 128])
                am = rng.choice([31, 31, 31, 28, 29, 30, 12, 0])
                if n == 0:
                    am &= ~16            # a cursor position must lie inside the input
                cur = str(rng.randint(0, max(n - 1, 0))) if am & 16 else "-"
                tf = "-"
                if am & 1:
                    tf = common.wide([rng.choice([0, 0, 0, 1, 2, 4, 8]) for _ in range(n)])
                sp = common.hexbytes(bytes(rng.choice(b"X*012 ") for _ in range(n + 1))) if am & 2 else "-"
                self.calls.append(("FWD", lst, "FWD %s %d %d %s %d %s %s %s" % (lst, mode, cap, cur, am, common.wide(u), tf, sp)))
            for _ in range(nper - 1):
                if name in self.gen:
                    b = gen_table.rand_cells(rng, self.gen[name], 14)
                    mode = rng.choice([4, 4, 4 | 256, 4 | 128])
                else:
                    dots = rng.random() < 0.5
                    b = corpus.rand_braille(rng, 20, dots_io=dots)
                    mode = (4 if dots else 0) | rng.choice([0, 0, 256, 128])
                if rng.random() < 0.2 and b:
                    L = rng.choice([1040, 1500])
                    b = (b * (L // len(b) + 1))[:L]
                n = len(b)
                cap = rng.choice([1, 2, n, 2 * n + 3, 4 * n + 8, 1200, 2700])
                am = rng.choice([28, 28, 12, 0, 16, 31])
                if n == 0:
                    am &= ~16
                cur = str(rng.randint(0, max(n - 1, 0))) if am & 16 else "-"
                self.calls.append(("BWD", lst, "BWD %s %d %d %s %d %s - -" % (lst, mode, cap, cur, am, common.wide(b))))
            if kind == "len":
                for u in ins[:4]:
                    for cap in (len(u) + 1, len(u) + 2, 2 * len(u) + 3):
                        self.calls.append(("FWD", lst, "FWD %s %d %d - 12 %s - -" % (lst, rng.choice([0, 4]), cap, common.wide(u))))
                # calls that leave type information in the library's scratch memory (no_contract / no_translate on a long
                # text), and calls without a typeform whose corrected text is longer than the input AND than the capacity
                pol = [0x62, 0x66, 0x63, 0x6c] * 10
                for bits in (0x1000, 0x0800):
                    self.calls.append(("FWD", lst, "FWD %s 4 200 - 13 %s %s -" % (lst, common.wide(pol), common.wide([bits] * len(pol)))))
                for u in ([0x6c, 0x6c], [0x6c, 0x6c, 0x6c], [0x63, 0x6c, 0x6c]):
                    for cap in (5, 8, 4):
                        self.calls.append(("FWD", lst, "FWD %s 4 %d - 12 %s - -" % (lst, cap, common.wide(u))))
            if kind == "twin":
                for w in ("zaaz", "azza", "abzab z"):
                    for cap in (1, 2, 3, 12):
                        self.calls.append(("BWD", lst, "BWD %s 0 %d - 12 %s - -" % (lst, cap, common.wide(w))))
                        self.calls.append(("FWD", lst, "FWD %s 0 %d - 12 %s - -" % (lst, cap, common.wide(w))))
            for u in self.shared_text:
                self.calls.append(("FWD", lst, "FWD %s %d %d - 12 %s - -" % (lst, rng.choice([0, 4]), rng.choice([3, len(u), 40]), common.wide(u))))
            # a cursor BEHIND the first NUL of the caller's array, with the modes that keep the word at the cursor as
            # computer braille: the region is computed on the caller's array, the passes see the text in front of the NUL
            # (F39: its start was not clamped; the main pass hashed and compared what an earlier call had left behind the text)
            for u in ins[:2]:
                u = [c for c in u[:6] if c] or [0x61]
                arr = u[:rng.randint(1, len(u))] + [0] + [0x20] + u + [0] + [0x20, 0x2e] + u[:3]
                for mode in (2, 32, 2 | 4):
                    cur = rng.randint(arr.index(0) + 1, len(arr) - 1)
                    self.calls.append(("FWD", lst, "FWD %s %d %d %d 28 %s - -" % (lst, mode, rng.choice([7, len(arr), 2 * len(arr)]), cur, common.wide(arr))))
            for b in self.shared_cells:
                for cap in (2, 3, 30):
                    self.calls.append(("BWD", lst, "BWD %s 4 %d - 12 %s - -" % (lst, cap, common.wide(b))))
            # hyphenation, conversions
            w = [c for c in (rng.choice(ins) or [0x61])[:12] if c != 0x20][:10] or [0x61]
            self.calls.append(("HYP", lst, "HYP %s 0 %s" % (lst, common.wide(w))))
            if kind == "shipped":
                self.calls.append(("HYP", lst, "HYP %s 0 %s" % (lst, common.wide(rng.choice(["hyphenation", "undervisning", "zusammen"])))))
                self.calls.append(("HYP", lst, "HYP %s 1 %s" % (lst, common.wide(corpus.rand_braille(rng, 9)))))
            self.calls.append(("C2D", lst, "C2D %s %d %s" % (lst, rng.choice([0, 64]), common.wide((rng.choice(ins) or [0x61])[:20]))))
            self.calls.append(("D2C", lst, "D2C %s 0 %s" % (lst, common.wide([0x8000 | rng.randint(0, 255) for _ in range(8)] + [0x2801, 0x28ff]))))
        # run-time rules: valid, invalid, include
        for lst, kind in self.lists:
            name = lst.split(",")[0]
            if kind == "generated":
                cs = [c for c in self.gen[name].chars() if c > 0x20][:4] or [0x61]
                rule = "always %s %s" % ("".join(gen_table.char_str(c) for c in cs[:2] * 2), "123456-12")
                self.calls.append(("ADD", lst, "ADD %s %s" % (lst, hx(rule))))
            if kind != "bad":
                self.calls.append(("ADD", lst, "ADD %s %s" % (lst, hx("include inc.cti"))))
                self.calls.append(("ADD", lst, "ADD %s %s" % (lst, hx("nonsense q 1"))))
                self.calls.append(("ADD", lst, "ADD %s %s" % (lst, hx("sign \\x2662 12356"))))

    def setup(self):
        return ["TBL %s %s" % (n, hx(c)) for n, c in sorted(self.files.items())] + ["HOOK budget 3000000"]


FINALIZING = {"FWD", "BWD", "HYP", "GET"}


def reference_key(hist, outs, k):
    """what a fresh process has to do first so that call k must give the same result: add the rules that were
    added successfully to the same list since the last FREE (and use the list once, for an ADD after a use).
    Everything else in the history — other tables, inputs, modes, sizes, lou_free, log level — must not matter."""
    kind, lst, line = hist[k]
    j = k
    while j > 0 and hist[j - 1][0] != "FREE":
        j -= 1
    adds, used = [], False
    for i in range(j, k):
        kk, ll, l2 = hist[i]
        if ll != lst:
            continue
        if kk == "ADD" and outs[i] is not None and outs[i].startswith("D 1"):
            adds.append(l2)
        if kk in FINALIZING:
            used = True
    if kind == "ADD" and used:
        return tuple(adds) + ("GET " + lst, line)
    return tuple(adds) + (line,)


def gen_history(rng, pool, n):
    hist = []
    # a few calls repeated and interleaved
    fav = rng.sample(pool.calls, min(len(pool.calls), rng.randint(3, 10)))
    for _ in range(n):
        r = rng.random()
        if r < 0.06:
            hist.append(("FREE", None, "FREE"))
        elif r < 0.10:
            hist.append(("LOGLEVEL", None, "LOGLEVEL %d" % rng.choice([0, 10000, 20000, 30000, 40000, 50000, 60000])))
        elif r < 0.55:
            hist.append(rng.choice(fav))
        else:
            hist.append(rng.choice(pool.calls))
    return hist


def run_history(exe, pool, hist, cid="h", timeout=120):
    c = common.Case(cid, pool.setup(), [h[2] for h in hist], {"hist": hist})
    common.run_cases(exe, [c], batch=1, timeout=timeout)
    return c


def outs_of(c):
    n = len(c.ops)
    o = list(c.out) + [None] * (n - len(c.out))
    if c.fault:
        i = c.fault.get("op_index", len(c.out))
        for j in range(max(i, 0), n):
            o[j] = None
    return o


def run(tier):
    v = common.Verdict("C08", tier)
    rng = random.Random(common.seed() * 1000003 + 8)
    common.lean_obligations(v, THEOREMS)
    try:
        exe = common.build_harness()
        v.obligation("harness builds from /repo working tree (hooks on, ASan+UBSan)", True)
    except common.BuildError as e:
        v.obligation("harness builds from /repo working tree (hooks on, ASan+UBSan)", False, str(e)[-2000:])
        return v.finish()
    pool = Pool(rng, tier)
    nh = 300 if tier == "quick" else 2500
    hists = []
    for i in range(nh):
        n = rng.randint(5, 60)
        hists.append(gen_history(rng, pool, n))
    # permuted schedules of histories without run-time rules
    perms = []
    for i in range(12 if tier == "quick" else 100):
        h = [x for x in gen_history(rng, pool, rng.randint(6, 30)) if x[0] != "ADD"]
        h2 = list(h)
        rng.shuffle(h2)
        perms.append((h, h2))
    cases = [common.Case("c08-%d" % i, pool.setup(), [x[2] for x in h], {"hist": h}) for i, h in enumerate(hists)]
    pc = []
    for i, (h, h2) in enumerate(perms):
        pc.append(common.Case("c08-p%da" % i, pool.setup(), [x[2] for x in h], {"hist": h}))
        pc.append(common.Case("c08-p%db" % i, pool.setup(), [x[2] for x in h2], {"hist": h2}))
    common.run_cases(exe, cases + pc, batch=1, timeout=180)
    # ---- reference runs: every distinct call as the first call of a fresh process
    refs = {}
    need = set()
    for c in cases + pc:
        h = c.meta["hist"]
        o = outs_of(c)
        c.meta["outs"] = o
        for k, x in enumerate(h):
            if x[0] in ("FREE", "LOGLEVEL") or o[k] is None:
                continue
            need.add(reference_key(h, o, k))
        if c.fault and c.fault["kind"] != "tick-budget":
            i = c.fault.get("op_index", -1)       # the call that faulted needs its reference too
            if 0 <= i < len(h) and h[i][0] not in ("FREE", "LOGLEVEL"):
                need.add(reference_key(h, o, i))
    need = sorted(need)
    rcs = [common.Case("ref-%d" % i, pool.setup(), list(k), {}) for i, k in enumerate(need)]
    common.run_cases(exe, rcs, batch=1, timeout=180)
    skipped = 0
    for k, c in zip(need, rcs):
        if c.fault or len(c.out) != len(c.ops):
            refs[k] = None
            if c.fault and c.fault["kind"] == "tick-budget":
                skipped += 1          # non-termination is C03's matter (F2)
            else:
                v.violation("C08:fresh-call-faults:%s:%s" % ((c.fault or {}).get("kind", "short"), k[-1].split(" ")[0]),
                            "the call %s faults as the first call of a fresh process: %s" % (k[-1][:200], (c.fault or {}).get("frame")),
                            {"script": c.setup + c.ops})
        else:
            refs[k] = canon(c.out[-1])
    dist = {"histories": nh, "permuted_pairs": len(perms), "calls": 0, "compared": 0, "distinct_references": len(need),
            "kinds": {}, "tick_budget_skipped": skipped, "faults": 0, "lists": [l for l, _ in pool.lists]}
    todo_min = []
    for c in cases + pc:
        h, o = c.meta["hist"], c.meta["outs"]
        if c.fault and c.fault["kind"] != "tick-budget":
            dist["faults"] += 1
            i = c.fault.get("op_index", 0)
            opx = c.ops[i] if 0 <= i < len(c.ops) else "?"
            key = reference_key(h, o, i) if 0 <= i < len(h) and h[i][0] not in ("FREE", "LOGLEVEL") else None
            if key is None or refs.get(key) is not None:      # (a call that also faults when fresh is reported above)
                # the same call does not fault in a fresh process: the history made it fault
                v.violation("C08:fault-after-history:%s:%s:%s" % (c.fault["kind"], c.fault["frame"], opx.split(" ")[0]),
                            "%s in %s while executing %s after %d earlier calls; the same call alone in a fresh process "
                            "returns normally" % (c.fault["kind"], c.fault["frame"], opx[:160], i),
                            {"script": c.setup + c.ops[: i + 1], "stderr_tail": c.fault.get("stderr_tail", "")[-800:]})
        for k, x in enumerate(h):
            if x[0] in ("FREE", "LOGLEVEL") or o[k] is None:
                continue
            dist["calls"] += 1
            dist["kinds"][x[0]] = dist["kinds"].get(x[0], 0) + 1
            v.cov["evaluations"] += 1
            key = reference_key(h, o, k)
            ref = refs.get(key)
            if ref is None:
                continue
            dist["compared"] += 1
            v._distinct.add(key)
            got = canon(o[k])
            if got != ref:
                todo_min.append((c, k, key, got, ref))
    # ---- permuted schedules: the same calls in another order give the same per-call results
    for i in range(0, len(pc), 2):
        a, b = pc[i], pc[i + 1]
        ra = sorted((x[2], canon(o)) for x, o in zip(a.meta["hist"], a.meta["outs"]) if o is not None and x[0] not in ("FREE", "LOGLEVEL"))
        rb = sorted((x[2], canon(o)) for x, o in zip(b.meta["hist"], b.meta["outs"]) if o is not None and x[0] not in ("FREE", "LOGLEVEL"))
        if not a.fault and not b.fault and ra != rb:
            d = [p for p in ra if p not in rb][:1]
            v.violation("C08:order:%s" % (d[0][0].split(" ")[0] if d else "?"),
                        "the same calls in two different orders give different results, e.g. %s" % (d[0][0][:160] if d else "?"),
                        {"script_a": a.setup + a.ops, "script_b": b.setup + b.ops})
    # ---- report differences, delta-debugged
    seen_sig = {}
    for c, k, key, got, ref in todo_min:
        h = c.meta["hist"]
        kind = h[k][0]
        lst = h[k][1]
        tname = lst.split("/")[-1]
        fields = diff_fields(got, ref)
        sig = "C08:%s:%s:%s" % (kind, tname, ",".join(fields))
        if sig in seen_sig:
            continue
        minimal = None
        if len(seen_sig) < (3 if tier == "quick" else 10):
            minimal = ddmin(exe, pool, h[:k], h[k], key, ref)
        seen_sig[sig] = True
        mh = [x[2] for x in (minimal if minimal is not None else h[:k])]
        v.violation(sig, "%s gives [%s] after %s but [%s] as the first call of a fresh process%s (fields that differ: %s)" % (
            h[k][2][:140], got[:200], ("the minimal history %s" % [m[:110] for m in mh]) if minimal is not None else
            ("%d earlier calls" % k), ref[:200], "" if len(key) == 1 else " that first runs %s" % [x[:60] for x in key[:-1]],
            ",".join(fields)),
            {"script": pool.setup() + mh + [h[k][2]], "fresh": pool.setup() + list(key), "got": got, "fresh_result": ref})
    v.cov["distribution"] = dist
    v.cov["rule"] = ("random call histories of length 5-60 (one process each) over %d table lists (shipped + generated with "
                     "multipass/backward rules, hyphenation, a two-file list, a bad and a missing list), %d distinct calls "
                     "(inputs 0-2600, capacities 1-2700, all modes, optional arguments), FREE/LOGLEVEL/ADD interleaved; every "
                     "call compared with itself as first call of a fresh process; distinct by reference key" % (
                         len(pool.lists), len(pool.calls)))
    if cases:
        v.sample({"history": cases[0].ops[:6], "out": [canon(x)[:100] for x in cases[0].out[:6]]})
    v.notes.append("found by this search on the tree as received and repaired since: F7 (errorCount not reset by compileString: "
                   "`lou_compileString(list, \"include x\")` failed after any earlier failed compilation or refused rule; /repo "
                   "e4431d5a) — see theorem compileString_needs_counter_reset; F3 and F11 (design phase) are fixed as well: the "
                   "twin tables tw1/tw2 and the shared cell strings re-find F3 when its static cache is put back")
    v.assumptions += ["log counters (e=, w=) are not results; non-terminating calls (tick budget) are left to C03",
                      "lou_compileString on the same list is part of the reference (C15 decides what it should do)"]
    return v.finish()


def diff_fields(a, b):
    """names of the parts of two result lines that differ"""
    ta, tb = a.split(" "), b.split(" ")
    if ta[0] != tb[0] or len(ta) != len(tb):
        return ["shape"]
    names = {"R": ["tag", "ret", "inlen", "outlen", "out"], "H": ["tag", "ret", "hyphens"], "V": ["tag", "ret", "out"],
             "D": ["tag", "ret"], "G": ["tag", "ptr"]}.get(ta[0], [])
    out = []
    for i, (x, y) in enumerate(zip(ta, tb)):
        if x != y:
            if i < len(names):
                out.append(names[i])
            else:
                out.append(x.split("=")[0])
    return out or ["?"]


def ddmin(exe, pool, prefix, call, key, ref, budget=60):
    """simple delta debugging over the history prefix: a subsequence after which `call` still differs from
    its fresh result"""
    runs = [0]

    def fails(sub):
        if runs[0] >= budget:
            return False
        runs[0] += 1
        c = run_history(exe, pool, list(sub) + [call], timeout=60)
        o = outs_of(c)
        if o[-1] is None:
            return False
        k2 = reference_key(list(sub) + [call], o, len(sub))
        if k2 != key:
            return False            # the subsequence changes what the reference is (ADDs removed): not comparable
        return canon(o[-1]) != ref
    cur = list(prefix)
    if not fails(cur):
        return None
    n = 2
    while len(cur) >= 2 and runs[0] < budget:
        size = max(len(cur) // n, 1)
        chunks = [cur[i:i + size] for i in range(0, len(cur), size)]
        reduced = False
        for i in range(len(chunks)):
            comp = [x for j, ch in enumerate(chunks) if j != i for x in ch]
            if fails(comp):
                cur = comp
                n = max(n - 1, 2)
                reduced = True
                break
        if not reduced:
            if n >= len(cur):
                break
            n = min(len(cur), n * 2)
    return cur
