"""C17 — hyphenation equals the pattern-matching semantics of its dictionary."""
import os, random, re, time
from concurrent.futures import ThreadPoolExecutor
from .. import common, corpus, hyphlib as H

THEOREMS = [
    "Lou.C17.hyphenate_text_spec", "Lou.C17.hyph_refines_spec", "Lou.C17.hyph_refines_spec'", "Lou.C17.hyph_state_invariant",
    "Lou.C17.hyph_states_are_prefixes", "Lou.C17.hyph_fallback_correct", "Lou.C17.hyph_walk_bound",
    "Lou.C17.hyphenate_format", "Lou.C17.hyphenate_writes", "Lou.C17.hyphenate_writes_braille",
    "Lou.C17.hyphenate_braille_format_partial",
    "Lou.C17.leading_digit_dot_in_range", "Lou.C17.hyphenateWord_no_negative_index",
    "Lou.C17.digit_only_line_ignored", "Lou.C17.braille_nul_overwritten",
    "Lou.Hyph.compileDict_ok", "Lou.Hyph.walk_refines", "Lou.Hyph.seek_spec", "Lou.Hyph.lssD_concat",
]

CLAIM = dict(
    text=("Kernel-checked theorems (LouProofs/C17.lean) for ALL pattern lists and ALL words: the automaton "
          "compileHyphenation builds (states = pattern prefixes, fallback = longest proper suffix that is a state) "
          "walked by hyphenateWord (fallback loop, limit clamp) computes exactly the property's longest-suffix matching "
          "rule (hyph_refines_spec), and lou_hyphenate in text mode leaves exactly the property's string for every text shorter than 100 (hyphenate_text_spec), under the hypotheses the proof forces — no digit-only line (shown necessary: witness "
          "in the model, reproduced on the implementation by this check) and state numbers that fit their 32-bit fields; a "
          "digit before a leading '.' is covered (it has no position in the word: skipped by the code since liblouis "
          "0c404269, absent from the spec); no negative index for any pattern string; format and write-range theorems for the lou_hyphenate wrapper. Tied to the "
          "code by differential testing: canonical automaton dumps (HYPDUMP) and per-word results with loop tick counts "
          "compared between the ASan/UBSan build and the compiled Lean model on generated dictionaries and the shipped "
          "ones; the property text, transcribed independently in Python and executed from the Lean spec, is the oracle "
          "on every implementation result for all 19 shipped dictionaries."),
    note=("A letter string given on several lines keeps the digits of its last line (modelling decision, follows the code). "
          "Braille mode: the back-translation is a parameter (its inputPos < inlen is C07's theorem)."),
    technique="Lean 4 proof (Aho-Corasick invariant by induction on the text; construction invariant by induction on the "
              "dictionary) + model/implementation differential + independent oracle search",
    design="DESIGN.md §7 C17")

SIG_F5 = "C17:hyphens-negative-offset"
SIG_DIGIT = "C17:digit-only-line-ignored"
SIG_STATES = "C17:state-number-overflow"
TICK = "HOOK budget 200000"      # hyph_walk_bound: at most 2*(n+2) <= 202 iterations per run of letters


# ---------------------------------------------------------------- generators

ALPHA = [97, 98, 99, 100, 101, 0xe9, 0x436]     # a b c d e é ж


def gen_dict(rng, kind):
    """returns dict(bytes, lowers, upper_of, kind).  kind: the stream the dictionary belongs to."""
    nl = rng.randint(2, 5)
    lowers = rng.sample(ALPHA[:5], min(nl, 5))
    utf8 = rng.random() < 0.6
    if utf8 and rng.random() < 0.4:
        lowers[-1] = rng.choice(ALPHA[5:])
    elif not utf8 and rng.random() < 0.3:
        lowers[-1] = 0xe9
    upper_of = {}
    for c in lowers:
        u = ord(chr(c).upper())
        if u != c and rng.random() < 0.85:
            upper_of[u] = c
    npat = rng.randint(1, 40)
    strings = []
    for _ in range(npat):
        k = rng.random()
        if strings and k < 0.25:
            s = list(rng.choice(strings))
            s = s[:rng.randint(1, len(s))]                       # a prefix
        elif strings and k < 0.5:
            s = list(rng.choice(strings))
            s = s[rng.randrange(len(s)):]                        # a suffix
        elif strings and k < 0.6:
            s = list(rng.choice(strings)) + [rng.choice(lowers)]  # an extension
        elif strings and k < 0.68:
            s = list(rng.choice(strings))                        # a duplicate letter string
        else:
            s = [rng.choice(lowers) for _ in range(rng.randint(1, 5))]
        s = [c for c in s if c != H.DOT]
        if not s:
            s = [rng.choice(lowers)]
        if rng.random() < 0.18:
            s = [H.DOT] + s
        if rng.random() < 0.18:
            s = s + [H.DOT]
        strings.append(tuple(s))
    lines = []
    for s in strings:
        digits = [rng.choice([0, 0, 0, 1, 2, 3, 4, 5, 6, 7, 8, 9]) if rng.random() < 0.55 else 0 for _ in range(len(s) + 1)]
        if s[0] == H.DOT:
            digits[0] = 0
        if kind == "leaddigit" and s[0] == H.DOT and rng.random() < 0.7:
            digits[0] = rng.randint(1, 9)
        line = H.pattern_text(s, digits, utf8)
        if rng.random() < 0.06:                                   # two digits in a row: the last one counts
            p = rng.randrange(len(line) + 1)
            line = line[:p] + bytes([48 + rng.randint(0, 9)]) + line[p:]
            if s[0] == H.DOT and p == 0 and kind != "leaddigit":
                line = line[1:]
        lines.append(line)
    if kind == "leaddigit" and not any(re.match(rb"^[0-9]*[1-9][0-9]*\.", l) for l in lines):
        lines.append(b"%d." % rng.randint(1, 9) + chr(rng.choice(lowers)).encode("utf-8" if utf8 else "latin-1"))
    if kind == "digitonly":
        for _ in range(rng.randint(1, 2)):
            lines.insert(rng.randrange(len(lines) + 1), b"%d" % rng.choice([1, 3, 5, 7, 9, 2]))
    if kind == "badutf8" and utf8:
        for _ in range(rng.randint(1, 3)):
            bad = rng.choice([b"\xc3", b"\xe9", b"\xe2\x82", b"\xf0\x90\x80", b"\xc3a", b"\x80", b"\xfe\x80"])
            base = lines[rng.randrange(len(lines))]
            p = rng.randrange(len(base) + 1)
            lines.insert(rng.randrange(len(lines) + 1), base[:p] + bad + base[p:])
    if kind == "escape" and utf8:
        for _ in range(rng.randint(1, 3)):
            c = rng.choice(lowers)
            e = rng.choice([b"\\x%04x" % c, b"\\x%04X" % c, b"\\\\", b"\\x12", b"\\q", b"\\x00zz", b"\\e", b"\\s"])
            base = lines[rng.randrange(len(lines))]
            p = rng.randrange(len(base) + 1)
            lines.insert(rng.randrange(len(lines) + 1), base[:p] + e + base[p:])
    # file dressing
    out = []
    for l in lines:
        if rng.random() < 0.08:
            out.append(rng.choice([b"# comment 1a2", b"% tex comment", b"<x>", b"", b"   "]))
        if rng.random() < 0.1:
            l = l + b" trailing1 tokens"
        if rng.random() < 0.05:
            l = b"  \t" + l
        out.append(l)
    head = b"UTF-8" if utf8 else rng.choice([b"ISO8859-1", b"ISO8859-15"])
    if kind == "notdict":
        head = rng.choice([b"charset ISO8859-1", b"utf-8", b"", b"# UTF-8"])
    if rng.random() < 0.1 and out:
        head = head + b" " + out.pop(0)
    eol = b"\r\n" if rng.random() < 0.2 else b"\n"
    data = eol.join([head] + out)
    if rng.random() < 0.8:
        data += eol
    return dict(bytes=data, lowers=lowers, upper_of=upper_of, kind=kind, utf8=utf8)


def gen_word(rng, g, pats, maxlen=99):
    lowers, upper_of = g["lowers"], g["upper_of"]
    uppers = list(upper_of)
    k = rng.random()
    if k < 0.35 and pats:
        w = []
        for _ in range(rng.randint(1, 4)):
            l, _d = rng.choice(pats)
            w += [c for c in l if c != H.DOT]
    elif k < 0.9:
        w = [rng.choice(lowers) for _ in range(rng.randint(1, 12))]
    else:
        w = [rng.choice(lowers) for _ in range(rng.randint(13, maxlen))]
    if not w:
        w = [rng.choice(lowers)]
    if uppers and rng.random() < 0.35:
        inv = {v: u for u, v in upper_of.items()}
        w = [inv.get(c, c) if rng.random() < 0.5 else c for c in w]
    if rng.random() < 0.4:
        for _ in range(rng.randint(1, 3)):
            w.insert(rng.randrange(len(w) + 1), rng.choice([45, 45, 32, 46, 39, 49, 0x2d, 0x7a]))
    return w[:maxlen]


def classes_of(g):
    lowers, upper_of = set(g["lowers"]), g["upper_of"]
    return (lambda c: c in lowers or c in upper_of), (lambda c: upper_of.get(c, c)), (lambda c: c == 45)


def L_token(pairs):
    return ",".join("%04x:%04x" % (c, l) for c, l in pairs) or "."


def g_tokens(g):
    pairs = [(c, c) for c in g["lowers"]] + sorted(g["upper_of"].items())
    return L_token(pairs), "002d"


def parse_H(line):
    """'H ret hex|untouched|touched e= w= [| K ...]' -> (ret, bytes or None, ticks or None)"""
    if not line or not line.startswith("H "):
        return None
    main, *ex = line.split(" | ")
    t = main.split(" ")
    if t[1] == "FAULT":
        return ("FAULT", t[2], None)
    ret = int(t[1])
    data = None if t[2] in ("untouched", "touched") else list(bytes.fromhex(t[2])) if t[2] != "-" else []
    ticks = None
    for e in ex:
        p = e.split(" ")
        if p[0] == "K":
            ticks = int(p[7])
    return (ret, data, ticks)


def format_ok(ret, data, inlen, have_dict):
    """the format clause of the property on one implementation result; returns a reason or None"""
    if ret not in (0, 1):
        return "return value %r" % ret
    if ret == 0:
        return None
    if data is None or len(data) != inlen + 1:
        return "result does not have inlen+1 bytes"
    if any(c not in (48, 49, 50) for c in data[:inlen]):
        return "character outside '0','1','2' among the first inlen: %s" % bytes(data).hex()
    if data[inlen] != 0:
        return "no NUL after inlen characters: %s" % bytes(data).hex()
    return None


# ---------------------------------------------------------------- the check

def run(tier):
    v = common.Verdict("C17", tier)
    rng = random.Random(common.seed() * 1000003 + 17)
    quick = tier == "quick"
    common.lean_obligations(v, THEOREMS)
    try:
        exe = common.build_harness()
        v.obligation("harness builds from /repo working tree (hooks on, ASan+UBSan)", True)
    except common.BuildError as e:
        v.obligation("harness builds from /repo working tree (hooks on, ASan+UBSan)", False, str(e)[-2000:])
        return v.finish()
    dist = {"gdict": 0, "gdict_kinds": {}, "gwords": 0, "gwords_len_ge_100": 0, "gwords_nonzero": 0,
            "shipped_dicts": 0, "shipped_words": 0, "shipped_words_nonzero": 0, "braille_calls": 0,
            "dumps_vs_model": 0, "dumps_vs_textbook": 0, "states_compared": 0, "ticks_compared": 0,
            "lean_spec_words": 0}
    corr_bad = []      # model vs implementation
    oracle_agree_bad = []

    # ------------------------------------------------------------ (i) generated dictionaries
    nd = 48 if quick else 1200
    nw = 24 if quick else 40
    kinds = (["normal"] * 5 + ["leaddigit", "digitonly", "badutf8", "escape", "notdict", "leaddigit", "normal", "nodict"])
    gens = []
    for i in range(nd):
        kind = kinds[i % len(kinds)]
        g = gen_dict(rng, "normal" if kind == "nodict" else kind)
        if kind == "nodict":
            # the included file is empty: the table compiles and has no hyphenation automaton
            g["bytes"] = b""
            g["kind"] = kind
        g["id"] = "g%d" % i
        g["pats"] = H.parse_dict(g["bytes"])
        pats = g["pats"] or []
        words = [gen_word(rng, g, pats) for _ in range(nw)]
        # words on which a '.'-anchored pattern matches as a whole (exercises the alignment at both ends)
        anchored = [l for l, _d in pats if l and (l[0] == H.DOT or l[-1] == H.DOT)]
        for l in (rng.sample(anchored, min(6, len(anchored))) if anchored else []):
            core = [c for c in l if c != H.DOT]
            if not core:
                continue
            pre = [] if l[0] == H.DOT else [rng.choice(g["lowers"]) for _ in range(rng.randint(0, 2))]
            post = [] if l[-1] == H.DOT else [rng.choice(g["lowers"]) for _ in range(rng.randint(0, 2))]
            lead = rng.choice([[], [], [45], [rng.choice(g["lowers"]), 45], [32]])
            words.append(lead + pre + core + post)
        words.append([rng.choice(g["lowers"]) for _ in range(rng.choice([99, 100, 101, 150]))])
        words.append([])
        # texts without any letter: the automaton is never entered, and the answer still has to be 0 without a dictionary
        words += [[49, 50, 51, 52], [32, 32, 32], [49, 50, 32, 45, 32, 51, 52, 32, 46, 46, 46], [46]]
        g["words"] = words
        g["tbl"] = H.letter_table(g["lowers"], g["upper_of"], [45], [46, 39], g["id"] + ".dic")
        gens.append(g)
        dist["gdict"] += 1
        dist["gdict_kinds"][kind] = dist["gdict_kinds"].get(kind, 0) + 1
    cases = []
    for g in gens:
        setup = ["TBL %s.dic %s" % (g["id"], common.hexbytes(g["bytes"])),
                 "TBL %s.utb %s" % (g["id"], common.hexbytes(g["tbl"])), "GET %s.utb" % g["id"], TICK]
        allc = sorted(set(g["lowers"]) | set(g["upper_of"]) | {45, 46, 39, 32, 49, 0x7a})
        sp = H.Spec(g["pats"] or [])
        risky = any(d[0] and l[:1] == (H.DOT,) for l, d in (g["pats"] or []))
        g["risky"] = risky
        head = ["HYPDUMP %s.utb" % g["id"], "HYPCLS %s.utb %s" % (g["id"], common.wide(allc))]
        g["allc"] = allc
        if not risky:
            ops = head + ["HYP %s.utb 0 %s" % (g["id"], common.wide(w)) for w in g["words"]]
            c = common.Case(g["id"], setup, ops, {"g": g})
            cases.append(c)
            g["cases"] = [c]
        else:
            # a word may crash the process: one case per word
            g["cases"] = [common.Case(g["id"], setup, head, {"g": g})]
            for j, w in enumerate(g["words"]):
                g["cases"].append(common.Case("%s-w%d" % (g["id"], j), setup,
                                              ["HYP %s.utb 0 %s" % (g["id"], common.wide(w))], {"g": g}))
            cases += g["cases"]
    common.run_cases(exe, cases, batch=12, timeout=120)
    # the model on the same inputs (one line per dictionary: compiled once)
    mlines = []
    for g in gens:
        Lt, Yt = g_tokens(g)
        dh = common.hexbytes(g["bytes"])
        mlines.append("MHYPDUMP " + dh)
        mlines.append("MHYP %s %s %s 1 %s" % (dh, Lt, Yt, " ".join(common.wide(w) for w in g["words"])))
        short = [w for w in g["words"] if len(w) <= 36]
        g["short"] = short
        mlines.append("MSPEC %s %s %s %s" % (dh, Lt, Yt, " ".join(common.wide(w) for w in short)))
    mout = run_model_parallel(mlines, 3)
    for gi, g in enumerate(gens):
        mdump, mhyp, mspec = mout[3 * gi], mout[3 * gi + 1], mout[3 * gi + 2]
        isl, low, ish = classes_of(g)
        pats = g["pats"]
        sp = H.Spec(pats or [])
        replay_base = {"dictionary_hex": common.hexbytes(g["bytes"]), "table": g["tbl"], "kind": g["kind"]}
        c0 = g["cases"][0]
        if len(c0.out) < 2:
            v.violation("C17:fault-compiling-generated-dictionary:%s" % (c0.fault or {}).get("kind"),
                        "harness died while compiling/dumping a generated dictionary: %s" % c0.fault, replay_base)
            continue
        idump, icls = c0.out[0], c0.out[1]
        # classes as constructed?
        if pats is not None or idump != "HD none":
            exp = "HC " + " ".join("%04x:%s:%s:%04x" % (c, "L" if isl(c) else "-", "H" if ish(c) else "-", low(c))
                                   for c in g["allc"])
            if icls != exp and icls != "HC none":
                v.obligation("generator: character classes of a generated table are as constructed", False,
                             "%s vs %s" % (icls, exp))
        # automaton: implementation vs Lean model vs textbook construction
        dist["dumps_vs_model"] += 1
        if idump != mdump:
            corr_bad.append(("automaton dump", g["id"], idump[:300], mdump[:300], replay_base))
        if pats is not None and idump != "HD none":
            dist["dumps_vs_textbook"] += 1
            dist["states_compared"] += int(idump.split(" ")[1][2:])
            tb = H.canonical_automaton(pats)
            if idump != tb:
                v.violation("C17:automaton-differs-from-prefix-trie",
                            "compiled automaton differs from trie+longest-proper-suffix of the dictionary: %s vs %s"
                            % (first_diff(idump, tb)), dict(replay_base, op="HYPDUMP"))
        # words
        mres = mhyp.split(" ; ")
        sres = dict(zip([tuple(w) for w in g["short"]], mspec.split(" ; "))) if mspec not in ("BADOP", "UNSUPPORTED") else {}
        have_dict = pats is not None and idump != "HD none"
        for j, w in enumerate(g["words"]):
            if g["risky"]:
                cj = g["cases"][j + 1]
                line = cj.out[0] if cj.out else None
                fault = cj.fault
            else:
                line = c0.out[2 + j] if len(c0.out) > 2 + j else None
                fault = c0.fault if line is None else None
                if line is None and (fault is None or 2 + j != len(c0.out)):
                    continue          # not reached: an earlier word of this case killed the process
            dist["gwords"] += 1
            if len(w) >= 100:
                dist["gwords_len_ge_100"] += 1
            rep = dict(replay_base, script=g["cases"][0].setup + ["HYP %s.utb 0 %s" % (g["id"], common.wide(w))],
                       word=w, result=line, fault=fault)
            mline = mres[j] if j < len(mres) else "?"
            # -- implementation fault
            if line is None:
                fr = (fault or {})
                neg_w = pats is not None and len(w) < 100 and any(
                    sp.run_digits([low(c) for c in run])[1] for run in runs_of(w, isl))
                if neg_w and "hyphenateWord" in fr.get("frame", "") and str(fr.get("kind", "")).startswith("asan"):
                    v.violation(SIG_F5, "pattern with a digit before a leading '.': hyphenateWord accesses hyphens[-1] "
                                        "(%s, %s) — fixed in liblouis 0c404269, back again" % (fr.get("kind"), fr.get("detail")), rep)
                elif fr.get("kind") in ("tick-budget", "timeout"):
                    v.violation("C17:fallback-loop-does-not-terminate",
                                "hyphenateWord exceeded %s (hyph_walk_bound: at most 2(n+2) iterations)" % fr.get("kind"), rep)
                else:
                    v.violation("C17:fault:%s:%s" % (fr.get("kind"), fr.get("frame")),
                                "lou_hyphenate died: %s (model: %s)" % (fr, mline[:80]), rep)
                continue
            R = parse_H(line)
            M = parse_H(mline)
            if R is None:
                v.violation("C17:no-result", "no result line for a word: %r" % line[:200], rep)
                continue
            v.cov["evaluations"] += 1
            # -- correspondence (result and tick count)
            if R != M:
                corr_bad.append(("HYP", g["id"], line[:200], mline[:200], rep))
            elif R and R[2] is not None:
                dist["ticks_compared"] += 1
            # -- format clause
            negs = have_dict and len(w) < 100 and any(sp.run_digits([low(c) for c in run])[1] for run in runs_of(w, isl))
            fr_ = format_ok(R[0], R[1], len(w), have_dict)
            if fr_ and negs:
                v.violation(SIG_F5, "pattern with a digit before a leading '.': hyphenateWord writes hyphens[-1], which for a "
                                    "run inside the text is the cell of the preceding character: " + fr_, rep)
            elif fr_:
                v.violation("C17:format:" + fr_.split(":")[0], fr_, rep)
            if (R[0] == 0) != (not have_dict or len(w) >= 100):
                v.violation("C17:return-value", "returned %d with dictionary=%s and inlen=%d" % (R[0], have_dict, len(w)), rep)
            # -- oracle: the property, literally
            if have_dict:
                ret, exp = sp.hyphenate(w, isl, low, ish)
                if tuple(w) in sres:
                    dist["lean_spec_words"] += 1
                    ls = sres[tuple(w)].split(" ")
                    lexp = (int(ls[1]), list(bytes.fromhex(ls[2])) if len(ls) > 2 else None)
                    if lexp != (ret, exp):
                        oracle_agree_bad.append((g["id"], w, lexp, (ret, exp)))
                if exp and any(x != 48 for x in exp[:-1]):
                    dist["gwords_nonzero"] += 1
                    v._distinct.add((g["id"], tuple(w)))
                if (R[0], R[1]) != (ret, exp):
                    if any(not l for l, _ in pats):
                        v.violation(SIG_DIGIT, "a digit-only dictionary line is a pattern with the empty letter string; "
                                    "by the property it contributes at every point, the implementation ignores it: "
                                    "expected %s got %s" % (bytes(exp or []).hex(), bytes(R[1] or []).hex()), rep)
                    elif negs:
                        v.violation(SIG_F5, "pattern with a digit before a leading '.' matching at the start of a run: result "
                                    "differs from the property (that digit has no position; the others must land where they are aligned)", rep)
                    else:
                        v.violation("C17:spec-mismatch", "lou_hyphenate differs from the pattern-matching semantics: "
                                    "expected %s got %s" % (bytes(exp or []).hex(), bytes(R[1] or []).hex()), rep)
                if len(v.cov["samples"]) < 4 and exp and 49 in exp:
                    v.sample({"dictionary": g["bytes"].decode("latin-1")[:120], "word": "".join(chr(c) for c in w),
                              "result": line.split(" |")[0]})

    # ------------------------------------------------------------ (ii) shipped dictionaries
    tw, bw = corpus.words()
    nsw = 60 if quick else 1200
    ship = []
    for dic in corpus.dictionaries():
        data = open(os.path.join(corpus.TABLES, dic), "rb").read()
        pats = H.parse_dict(data)
        sp = H.Spec(pats or [])
        alpha = sorted({c for l, _ in (pats or []) for c in l if c != H.DOT and c > 32})
        if not alpha:
            alpha = list(range(97, 123))
        upper_of = {}
        for c in alpha:
            u = chr(c).upper()
            if len(u) == 1 and ord(u) != c and ord(u) not in alpha and ord(u) < 0x10000:
                upper_of[ord(u)] = c
        others = [c for c in (46, 39, 47) if c not in alpha]
        tbl = H.letter_table(alpha, upper_of, [45] if 45 not in alpha else [], others, os.path.join(corpus.TABLES, dic))
        aset = set(alpha)
        isl = (lambda aset, upper_of: lambda c: c in aset or c in upper_of)(aset, upper_of)
        low = (lambda upper_of: lambda c: upper_of.get(c, c))(upper_of)
        ish = (lambda aset: lambda c: c == 45 and 45 not in aset)(aset)
        real = [w for w in tw if sum(1 for ch in w if ord(ch) in aset or ord(ch) in upper_of) >= max(2, len(w) // 2)]
        words = []
        for _ in range(nsw):
            k = rng.random()
            if k < 0.4 and real:
                w = [ord(ch) for ch in rng.choice(real)]
            elif k < 0.8 and pats:
                w = []
                for _ in range(rng.randint(1, 3)):
                    l, _d = rng.choice(pats)
                    w += [c for c in l if c != H.DOT]
            else:
                w = [rng.choice(alpha) for _ in range(rng.randint(1, 30))]
            if rng.random() < 0.3:
                inv = {v_: u for u, v_ in upper_of.items()}
                w = [inv.get(c, c) if rng.random() < 0.5 else c for c in w]
            if rng.random() < 0.25 and len(w) > 2:
                w.insert(rng.randrange(1, len(w)), rng.choice([45, 32, 46, 39]))
            w = [c for c in w if 0 < c < 0x10000][:99]
            if w:
                words.append(w)
        words.append([alpha[0]] * 100)
        ship.append(dict(dic=dic, data=data, pats=pats, sp=sp, tbl=tbl, isl=isl, low=low, ish=ish, words=words,
                         alpha=alpha, upper_of=upper_of))
    scases = []
    for s in ship:
        name = "s_" + re.sub(r"\W", "_", s["dic"])
        s["name"] = name
        setup = ["TBL %s.utb %s" % (name, common.hexbytes(s["tbl"])), "GET %s.utb" % name, TICK]
        s["case0"] = common.Case(name, setup, ["HYPDUMP %s.utb" % name], {"s": s})
        scases.append(s["case0"])
        s["wcases"] = []
        for b in range(0, len(s["words"]), 50):
            c = common.Case("%s-b%d" % (name, b), setup,
                            ["HYP %s.utb 0 %s" % (name, common.wide(w)) for w in s["words"][b:b + 50]], {"s": s, "b": b})
            s["wcases"].append(c)
            scases.append(c)
    common.run_cases(exe, scases, batch=1, timeout=300)
    # Lean model dumps for the shipped dictionaries it can compile in the time of the tier
    lim = 12000 if quick else 70000
    mjobs = [s for s in ship if s["pats"] is not None and len(H.Spec(s["pats"]).prefixes) <= lim]
    mdumps = run_model_parallel(["MHYPDUMP " + common.hexbytes(s["data"]) for s in mjobs], 1, timeout=7200)
    mdump_of = {s["dic"]: d for s, d in zip(mjobs, mdumps)}
    for s in ship:
        dist["shipped_dicts"] += 1
        c0 = s["case0"]
        rb = {"dictionary": s["dic"], "table": s["tbl"][:2000]}
        if c0.fault or not c0.out:
            v.violation("C17:fault-compiling-shipped-dictionary:%s" % s["dic"], "harness died: %s" % c0.fault, rb)
            continue
        idump = c0.out[0]
        have_dict = idump != "HD none"
        if s["pats"] is None:
            v.notes.append("%s is not recognised as a hyphenation dictionary by compileRule (first token %r): the table "
                           "does not compile, lou_hyphenate returns 0 for every word" %
                           (s["dic"], s["data"].split(b"\n")[0][:30].decode("latin-1")))
            if have_dict:
                v.obligation("lexer model: %s rejected by the model but compiled by the implementation" % s["dic"], False, idump[:200])
        else:
            tb = H.canonical_automaton(s["pats"])
            dist["dumps_vs_textbook"] += 1
            nstates = len(s["sp"].prefixes)
            dist["states_compared"] += nstates
            if idump != tb:
                sig = SIG_STATES if nstates > 65535 else "C17:automaton-differs-from-prefix-trie:%s" % s["dic"]
                v.violation(sig, "%s: compiled automaton (%s) differs from trie+longest-proper-suffix of the dictionary (%d states)%s: %s vs %s"
                            % ((s["dic"], idump.split(" | ")[0], nstates,
                                " — state numbers are stored in 16-bit fields" if nstates > 65535 else "") + first_diff(idump, tb)),
                            dict(rb, op="HYPDUMP"))
            if s["dic"] in mdump_of:
                dist["dumps_vs_model"] += 1
                if idump != mdump_of[s["dic"]]:
                    corr_bad.append(("automaton dump", s["dic"]) + first_diff(idump, mdump_of[s["dic"]]) + (rb,))
        for c in s["wcases"]:
            b = c.meta["b"]
            for j, w in enumerate(s["words"][b:b + 50]):
                rep = dict(rb, script=c.setup + ["HYP %s.utb 0 %s" % (s["name"], common.wide(w))], word=w)
                if j >= len(c.out):
                    if c.fault and j == len(c.out):
                        fr = c.fault
                        big = s["pats"] is not None and len(s["sp"].prefixes) > 65535
                        v.violation(SIG_STATES if big else "C17:fault:%s:%s:%s" % (fr.get("kind"), fr.get("frame"), s["dic"]),
                                    "%s: lou_hyphenate died on a word: %s %s %s" % (s["dic"], fr.get("kind"), fr.get("frame"), fr.get("detail")),
                                    dict(rep, fault=fr))
                    continue
                R = parse_H(c.out[j])
                if R is None or R[0] == "FAULT":
                    v.violation("C17:no-result:%s" % s["dic"], "%s: no result line for a word: %r" % (s["dic"], c.out[j][:200]), rep)
                    continue
                dist["shipped_words"] += 1
                v.cov["evaluations"] += 1
                fr_ = format_ok(R[0], R[1], len(w), have_dict)
                if fr_:
                    v.violation("C17:format:" + fr_.split(":")[0], "%s: %s" % (s["dic"], fr_), rep)
                if (R[0] == 0) != (not have_dict or len(w) >= 100):
                    v.violation("C17:return-value", "%s: returned %d with dictionary=%s and inlen=%d" % (s["dic"], R[0], have_dict, len(w)), rep)
                if have_dict and s["pats"] is not None:
                    ret, exp = s["sp"].hyphenate(w, s["isl"], s["low"], s["ish"])
                    if exp and any(x != 48 for x in exp[:-1]):
                        dist["shipped_words_nonzero"] += 1
                        v._distinct.add((s["dic"], tuple(w)))
                    if (R[0], R[1]) != (ret, exp):
                        big = len(s["sp"].prefixes) > 65535
                        v.violation(SIG_STATES if big else "C17:spec-mismatch:%s" % s["dic"],
                                    "%s: lou_hyphenate differs from the pattern-matching semantics of the dictionary on %r: "
                                    "expected %s got %s" % (s["dic"], "".join(chr(x) for x in w), bytes(exp or []).hex(),
                                                            bytes(R[1] or []).hex()), dict(rep, result=c.out[j]))
                    elif len(v.cov["samples"]) < 6 and exp and 49 in exp:
                        v.sample({"dictionary": s["dic"], "word": "".join(chr(x) for x in w), "result": c.out[j].split(" e=")[0]})

    # ------------------------------------------------------------ (iii) braille mode
    braille_check(v, rng, exe, gens, dist, corr_bad, quick, tw)

    v.obligation("correspondence: Lean model reproduces the implementation (automaton dumps, per-word results, tick counts)",
                 not corr_bad, "; ".join("%s %s :: impl %s :: model %s" % (a[0], a[1], str(a[2])[:300], str(a[3])[:300]) for a in corr_bad[:3]))
    v.obligation("oracles agree: Lean specText = Python transcription of the property", not oracle_agree_bad,
                 "; ".join(str(x)[:300] for x in oracle_agree_bad[:3]))
    v.cov["distribution"] = dist
    v.cov["rule"] = ("generated dictionaries (1-40 patterns over 2-5 letters incl. non-ASCII, digits 0-9, overlapping "
                     "prefixes/suffixes/extensions, duplicates, leading/trailing '.', comments, CRLF, header variants; malformed "
                     "streams: digit before leading '.', digit-only lines, invalid UTF-8, escapes, non-dictionary headers) x words "
                     "(random, pattern-derived, mixed case, embedded non-letters and hyphens, lengths 0-99 and >= 100); all 19 "
                     "shipped dictionaries under a generated letter table x real (tests/*.yaml), pattern-derived and random words; "
                     "non-trivial = a result with at least one break point; distinct by (dictionary, word)")
    v.assumptions += [
        "WFPats (no digit-only line) and FitsStates (state numbers fit 32 bits) are hypotheses of hyph_refines_spec; the "
        "first is shown necessary in the model and reproduced on the implementation (signature %s); the former findings "
        "%s (digit before a leading '.') and %s (16-bit state numbers) are fixed in liblouis and stay in the search as "
        "ordinary violations" % (SIG_DIGIT, SIG_F5, SIG_STATES),
        "character classes (letter, lower-case, hyphen) are an oracle of the model; for generated tables they are known by "
        "construction and cross-checked with HYPCLS, for shipped tables they are read with HYPCLS",
        "braille mode: the back-translation result (text, inputPos) is taken from the implementation (BWD)"]
    return v.finish()


def runs_of(w, isl):
    out, cur = [], []
    for c in w:
        if isl(c):
            cur.append(c)
        else:
            if cur:
                out.append(cur)
            cur = []
    if cur:
        out.append(cur)
    return out


def first_diff(a, b):
    x, y = a.split(" | "), b.split(" | ")
    for p, q in zip(x, y):
        if p != q:
            return (p[:160], q[:160])
    return ("(%d states)" % len(x), "(%d states)" % len(y))


def run_model_parallel(lines, group, timeout=1800):
    """run_model over chunks of `group` consecutive lines in parallel processes"""
    chunks = [lines[i:i + group] for i in range(0, len(lines), group)]
    if not chunks:
        return []
    with ThreadPoolExecutor(common.NCPU) as ex:
        res = list(ex.map(lambda c: common.run_model(c, timeout=timeout), chunks))
    out = []
    for r in res:
        out += r
    return out


def braille_check(v, rng, exe, gens, dist, corr_bad, quick, tw):
    """mode 1: format clause on shipped tables that carry a dictionary; model correspondence through the
    implementation's own back-translation result on generated tables and a few shipped calls"""
    # (the last two carry no dictionary: every call has to return 0, also for braille without a letter in it)
    shipped = [t for t in ("da-dk-g26.ctb", "da-dk-g28.ctb", "de-g1.ctb", "de-g2.ctb", "de-g0.utb", "en-us-g1.ctb", "en-us-comp8.ctb")
               if os.path.exists(os.path.join(corpus.TABLES, t))]
    cases = []
    nb = 25 if quick else 200
    for t in shipped:
        ops = []
        for _ in range(nb):
            w = rng.choice(tw)[:40]
            ops.append(("text", w))
        for w in ("1234", "   ", "12 - 34 ...", "#", "a"):
            ops.append(("text", [ord(ch) for ch in w]))
        # forward-translate to get braille, then hyphenate the braille
        script = []
        for kind, w in ops:
            script.append("FWD %s 0 %d - 0 %s - -" % (corpus.tpath(t), 4 * len(w) + 20, common.wide(w)))
        c = common.Case("bf-" + t, ["GET " + corpus.tpath(t)], script, {"t": t, "ops": ops})
        cases.append(c)
    common.run_cases(exe, cases, batch=1, timeout=300)
    cases2 = []
    for c in cases:
        t = c.meta["t"]
        script = ["HYPDUMP " + corpus.tpath(t)]
        ins = []
        for line in c.out:
            R = common.parse_R(line)
            if not R or not R["ret"] or not R["out"]:
                continue
            brl = R["out"]
            if rng.random() < 0.1:
                brl = (brl * 10)[:rng.choice([99, 100, 120])]
            ins.append(brl)
            script.append("HYP %s 1 %s" % (corpus.tpath(t), common.wide(brl)))
            script.append("BWD %s 0 100 - 8 %s - -" % (corpus.tpath(t), common.wide(brl)))
        c2 = common.Case("bh-" + t, ["GET " + corpus.tpath(t), "HOOK budget 5000000"], script, {"t": t, "ins": ins})
        cases2.append(c2)
    # generated tables: braille = the letters themselves (display table of the same definitions)
    gl = [g for g in gens if g["pats"] and not g["risky"] and g["kind"] == "normal"][: (10 if quick else 60)]
    for g in gl:
        setup = g["cases"][0].setup
        script = []
        ins = []
        for w in g["words"][:12]:
            ins.append(w)
            script.append("HYP %s.utb 1 %s" % (g["id"], common.wide(w)))
            script.append("BWD %s.utb 0 100 - 8 %s - -" % (g["id"], common.wide(w)))
        cases2.append(common.Case("bg-" + g["id"], setup, script, {"g": g, "ins": ins}))
    common.run_cases(exe, cases2, batch=1, timeout=300)
    mlines, mexp = [], []
    budget = {}
    for c in cases2:
        off = 0 if "g" in c.meta else 1
        have_dict = True
        if off and c.out:
            have_dict = c.out[0] != "HD none"
        for j, brl in enumerate(c.meta["ins"]):
            if off + 2 * j + 1 >= len(c.out):
                if c.fault:
                    v.violation("C17:fault:braille:%s:%s" % (c.fault.get("kind"), c.fault.get("frame")),
                                "lou_hyphenate (mode 1) died: %s" % c.fault, {"script": c.setup + c.ops[: off + 2 * j + 2]})
                break
            hl, bl = c.out[off + 2 * j], c.out[off + 2 * j + 1]
            R = parse_H(hl)
            if R is None:
                v.violation("C17:no-result:braille", "no result line: %r" % hl[:200], {"script": c.setup + [c.ops[off + 2 * j]]})
                continue
            dist["braille_calls"] += 1
            v.cov["evaluations"] += 1
            rep = {"script": c.setup + [c.ops[off + 2 * j]], "result": hl}
            fr_ = format_ok(R[0], R[1], len(brl), have_dict)
            if fr_:
                v.violation("C17:format:braille:" + fr_.split(":")[0], fr_, rep)
            if R[0] == 1 and (not have_dict or len(brl) >= 100):
                v.violation("C17:return-value:braille", "returned 1 with dictionary=%s and inlen=%d" % (have_dict, len(brl)), rep)
            # model correspondence for the mapping step
            B = common.parse_R(bl)
            if "g" in c.meta:
                g = c.meta["g"]
                Lt, Yt = g_tokens(g)
                dh = common.hexbytes(g["bytes"])
            else:
                key = c.meta["t"]
                budget[key] = budget.get(key, 0) + 1
                if budget[key] > (3 if quick else 12) or not c.meta["t"].startswith("da-dk"):
                    continue
                # shipped: the dictionary file and the classes of the text characters from HYPCLS (second pass below)
                continue
            if B is None:
                continue
            if len(brl) >= 100:
                tt, ipt = "fail", "."
            elif not B["ret"]:
                tt, ipt = "fail", "."
            else:
                tt = common.wide(B["out"])
                ipt = B.get("ip", ".")
            mlines.append("MHYPB %s %s %s %d %s %s" % (dh, Lt, Yt, len(brl), tt, ipt))
            mexp.append((hl, rep))
    mout = run_model_parallel(mlines, 8)
    for (hl, rep), ml in zip(mexp, mout):
        if parse_H(hl)[:2] != (parse_H(ml) or (None, None))[:2]:
            corr_bad.append(("HYP mode 1", rep["script"][-1][:80], hl[:200], ml[:200], rep))
