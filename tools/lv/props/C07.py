"""C07 — position maps and cursor are valid, ordered and mutually consistent."""
import random
from .. import common, corpus, suite_translate as st

THEOREMS = [
    "Lou.C07.clampArr_range", "Lou.C07.scan_mono", "Lou.C07.scan_lt", "Lou.C07.scan_nonneg",
    "Lou.C07.scan_clamp_le",
    "Lou.C07.fwd_inputPos_range", "Lou.C07.fwd_outputPos_mono", "Lou.C07.fwd_outputPos_range",
    "Lou.C07.fwd_roundtrip", "Lou.C07.fwd_cursor_mapped",
    "Lou.C07.back_outputPos_range", "Lou.C07.back_inputPos_mono", "Lou.C07.back_inputPos_range",
    "Lou.C07.back_roundtrip",
            "Lou.ModelEngine.fwdRun_nonneg", "Lou.ModelEngine.model_fwd_roundtrip",
            "Lou.ModelEngine.callFwd_eq",
            "Lou.ModelEngine.engineFor_ok",
            "Lou.ModelEngine.whole_call_fwd_roundtrip",
]

CLAIM = dict(
    text=("Kernel-checked theorems (LouProofs/C07.lean) that the final position computation of both drivers yields "
          "in-range inputPos, non-decreasing scanned maps for ANY integer posMapping, and in-range outputPos / "
          "round-trip under the NonNeg hypothesis the proof forces (negation proved on concrete witnesses); tied to the "
          "code by trace validation: hook H4 exports every real pass and the composed map, the compiled Lean driver "
          "must reproduce the API result bit for bit on every call; the property text is evaluated on every "
          "implementation result as the search oracle."),
    note=("Engines are parameters (Layer A): what a pass does is recorded, not modelled; the one-to-one identity clause is proved in C11 "
          "for the F0/B0 fragment and evaluated literally (both arrays the identity, cursor unchanged at every position) on generated tables "
          "whose rules keep one cell per character, including swap classes applied to runs and `=` rules."),
    technique="Lean 4 proof over a hand-written driver model + trace-validation correspondence (H4) + oracle search",
    design="DESIGN.md §7 C07")


def oracle(k):
    """the property text evaluated on one implementation result; returns list of (sig, what)"""
    R = k.R
    bad = []
    if not R or not R["ret"]:
        return bad
    back = k.op.startswith("BWD")
    inl, outl = R["inlen"], R["outlen"]
    ip = common.ints(R["ip"]) if R.get("ip", "-") not in ("-",) else None
    op = common.ints(R["op"]) if R.get("op", "-") not in ("-",) else None
    if inl > 0 and outl > 0:
        if ip is not None:
            for x in ip[:outl]:
                if not (0 <= x < inl):
                    bad.append(("range:inputPos:%s" % ("back" if back else "fwd"), "inputPos entry %d outside [0,%d)" % (x, inl)))
                    break
        if op is not None:
            for x in op[:inl]:
                if not (0 <= x < outl):
                    bad.append(("range:outputPos:%s" % ("back" if back else "fwd"), "outputPos entry %d outside [0,%d)" % (x, outl)))
                    break
        scanned = ip if back else op
        if scanned is not None:
            lim = outl if back else inl
            s = scanned[:lim]
            if any(s[i] > s[i + 1] for i in range(len(s) - 1)):
                bad.append(("mono:%s" % ("back" if back else "fwd"), "scanned map not non-decreasing: %s" % s))
        if ip is not None and op is not None and not bad:
            if not back:
                for kk in range(min(outl, len(ip))):
                    if 0 <= ip[kk] < len(op) and op[ip[kk]] > kk:
                        bad.append(("roundtrip:fwd", "outputPos[inputPos[%d]]=%d > %d" % (kk, op[ip[kk]], kk)))
                        break
            else:
                for i in range(min(inl, len(op))):
                    if 0 <= op[i] < len(ip) and ip[op[i]] > i:
                        bad.append(("roundtrip:back", "inputPos[outputPos[%d]]=%d > %d" % (i, ip[op[i]], i)))
                        break
    # cursor
    t = k.op.split(" ")
    am = int(t[5])
    if (am & 16) and (am & 4) and t[4] != "-" and op is not None:
        c = int(t[4])
        if 0 <= c < inl and c < len(op):
            if R["cur"] != str(op[c]):
                bad.append(("cursor:%s" % ("back" if back else "fwd"), "cursor %d came back as %s, outputPos[%d]=%d" % (c, R["cur"], c, op[c])))
    return bad


def run(tier):
    v = common.Verdict("C07", tier)
    rng = random.Random(common.seed() * 1000003 + 7)
    common.lean_obligations(v, THEOREMS)
    try:
        exe = common.build_harness()
        v.obligation("harness builds from /repo working tree (hooks on, ASan+UBSan)", True)
    except common.BuildError as e:
        v.obligation("harness builds from /repo working tree (hooks on, ASan+UBSan)", False, str(e)[-2000:])
        return v.finish()
    tables = corpus.quick_tables() if tier == "quick" else corpus.all_tables()
    n = 24 if tier == "quick" else 60
    cases = st.std_cases(rng, tables, n, tag="c07-")
    # every cursor position on a few inputs
    for ti, t in enumerate(tables[: (8 if tier == "quick" else 60)]):
        u = corpus.rand_input(rng, 14)
        ops = [st.gen_fwd_op(rng, t, inp=u, mode=0, cap=32 * len(u) + 256, argmask=28, cursor=c) for c in range(len(u))]
        cases.append(common.Case("c07-cur%d" % ti, ["HOOK trace 1"], ops, {"table": t}))
    # emphasis in runs (what callers pass): closing indicators are attached to the character before them although they are
    # written after cells of the next one, so the internal map is not monotone there (seeded change C07-D)
    vocab = corpus.table_vocab(exe, tables)
    for ti, t in enumerate(tables):
        vv = vocab.get(t)
        ops = []
        for _ in range(14 if tier == "quick" else 30):
            u = vv.text(rng, 12) if (vv and vv.by_op and rng.random() < 0.6) else corpus.rand_input(rng, 12)
            u = [c for c in u if c][:rng.choice([3, 4, 6, 12])]
            if not u:
                continue
            tf = [0] * len(u)
            for _r in range(rng.randint(1, 3)):
                a = rng.randint(0, len(u) - 1)
                b = rng.randint(a + 1, min(len(u), a + rng.choice([1, 1, 2, 4])))
                cls = rng.choice([1, 2, 4, 1 | 2, 2 | 4, 0x100, 0x200])
                for i in range(a, b):
                    tf[i] |= cls
            op = st.gen_fwd_op(rng, t, inp=u, mode=rng.choice([0, 0, 4]), cap=32 * len(u) + 256, argmask=29, cursor=rng.randint(0, len(u) - 1))
            tt = op.split(" ")
            tt[7] = common.wide(tf)
            ops.append(" ".join(tt))
        cases.append(common.Case("c07-emph%d" % ti, ["HOOK trace 1"], ops, {"table": t}))
    cases += st.wide_cases(rng, 200 if tier == "quick" else 2500, per_table=6, back=True, exact=False, tag="c07w", budget=3000000)
    # whole calls on composite tables: the model alone computes both position arrays and the cursor (MCALL)
    cases += st.composite_cases(rng, 120 if tier == "quick" else 3000, per_table=8, tag="c07wc", argmasks=[12, 28, 28, 4, 8, 20, 24])
    calls = st.run_and_trace(exe, cases)
    ntrace = 0
    trace_bad = []
    nn_fail = 0
    dist = {"fwd": 0, "back": 0, "ret0": 0, "truncated": 0, "multi_pass": 0, "noR": 0}
    for k in calls:
        if k.R is None:
            dist["noR"] += 1
            continue
        key = (k.op.split(" ")[0], k.case.meta.get("table"), k.R["inlen"], k.R["outlen"], k.R.get("ip"), k.R.get("op"))
        nontrivial = bool(k.R["ret"] and k.R["outlen"] > 0 and (k.R.get("ip", "-") != "-" or k.R.get("op", "-") != "-"))
        v.cov["evaluations"] += 1
        if nontrivial:
            v._distinct.add(key)
        dist["back" if k.op.startswith("BWD") else "fwd"] += 1
        if not k.R["ret"]:
            dist["ret0"] += 1
        if len(k.R["passes"]) > 1:
            dist["multi_pass"] += 1
        if k.R["ret"] and k.R["inlen"] < len(common.unwide(k.op.split(" ")[6])):
            dist["truncated"] += 1
        if k.eok is False:
            dist["contract_fail"] = dist.get("contract_fail", 0) + 1
        if k.trace_ok is not None:
            ntrace += 1
            if not k.trace_ok:
                trace_bad.append(k)
            if k.nn is False:
                nn_fail += 1
        for sig, what in oracle(k):
            v.violation("C07:%s" % sig, what + " | table=%s" % k.case.meta.get("table"),
                        {"script": k.case.setup + [k.op], "result": k.line[:2000]})
        if nontrivial:
            v.sample({"op": k.op[:300], "result": k.line.split(" | ")[0][:300]})
    for c in cases:
        if c.fault:
            v.notes.append("fault during C07 run (reported under C01/C02): %s %s" % (c.fault["kind"], c.fault["frame"]))
    whole_bad = st.compare_whole(calls, dist)
    v.obligation("correspondence: the model alone (driver + main-pass + stage models) computes the whole result of every call "
                 "on composite generated tables: output, lengths, outputPos, inputPos, cursor", not whole_bad, "\n".join(whole_bad[:3]))
    v.obligation("correspondence: Lean driver reproduces every recorded call (trace validation)", not trace_bad,
                 "; ".join("%s :: %s" % (k.op[:200], k.trace_detail[:600]) for k in trace_bad[:3]))
    v.cov["traces_validated_against_impl"] = ntrace
    # ---- the identity clause, literally: tables in which every rule keeps one cell per character (definitions, `=` rules,
    # swap classes that map one element to one element, applied to runs in the correct / pass2 stage): both arrays are the
    # identity and a cursor comes back where it was, at every position (seeded changes C07-G, C07-H: a multi-character
    # rule or run gave all its cells the position of its first character)
    from .. import gen_table as G
    icases = []
    for i in range(12 if tier == "quick" else 300):
        letters = rng.sample("abcdefghijklmnopqrstuvwxyz", rng.randint(4, 8))
        cells = rng.sample(range(1, 64), len(letters))
        L = ["space \\s 0"] + ["lowercase %s %s" % (ch, G.dots_str(d)) for ch, d in zip(letters, cells)]
        src = letters[:3]
        kind = i % 4
        if kind == 0:
            L += ["swapcc swr %s %s" % ("".join(src), "".join(src[1:] + src[:1])), "noback correct [%%swr%s] %%swr" % rng.choice([".", "1-3", "2-5"])]
        elif kind == 1:
            cl = [G.dots_str(cells[letters.index(x)]) for x in src]
            L += ["swapdd swr %s %s" % (",".join(cl), ",".join(cl[1:] + cl[:1])), "noback pass2 [%%swr%s] %%swr" % rng.choice([".", "1-3", "2-5"])]
        elif kind == 2:
            L += ["always %s =" % "".join(rng.sample(letters, 3)), "word %s =" % "".join(rng.sample(letters, 2))]
        else:
            L += ["swapcd swr %s %s" % ("".join(src), ",".join(G.dots_str(rng.randint(1, 63)) for _ in src)), "noback context [%%swr%s] %%swr" % rng.choice([".", "1-3"])]
        tn = "c07id%d.ctb" % i
        ops = []
        for _ in range(6):
            u = [ord(rng.choice(letters[:4] + [" "])) for _ in range(rng.randint(2, 10))]
            if kind == 2:
                u = [ord(x) for x in L[-2].split(" ")[1]] + [0x20] + u
            for cur in sorted(set([0, len(u) - 1, rng.randint(0, len(u) - 1), rng.randint(0, len(u) - 1)])):
                ops.append("FWD %s %d %d %d 28 %s - -" % (tn, rng.choice([0, 4]), 2 * len(u) + 4, cur, common.wide(u)))
        icases.append(common.Case("c07-id%d" % i, ["TBL %s %s" % (tn, common.hexbytes("\n".join(L) + "\n"))], ops, {"text": "\n".join(L)}))
    common.run_cases(exe, icases, batch=4)
    nid = 0
    for c in icases:
        for op, o in zip(c.ops, c.out):
            R = common.parse_R(o)
            if R is None or not R["ret"]:
                continue
            n = len(common.unwide(op.split(" ")[6]))
            if R["inlen"] != n or R["outlen"] != n:
                continue            # (not one cell per character on this input after all)
            nid += 1
            v.cov["evaluations"] += 1
            idm = ",".join(str(k) for k in range(n))
            if R.get("ip") != idm or R.get("op") != idm or str(R.get("cur")) != op.split(" ")[4]:
                v.violation("C07:identity:one-to-one", "every rule of the table keeps one cell per character, yet the arrays are not the identity "
                            "or the cursor moved: inputPos=%s outputPos=%s cursor %s -> %s" % (R.get("ip"), R.get("op"), op.split(" ")[4], R.get("cur")),
                            {"script": c.setup + [op], "result": o[:400], "table_text": c.meta["text"]})
                break
    dist["identity_calls"] = nid
    v.cov["distribution"] = dist
    v.cov["nonneg_contract_failures_on_real_traces"] = nn_fail
    v.cov["rule"] = ("FWD/BWD calls over %d shipped tables x generated inputs x modes x capacities x cursor positions; "
                     "non-trivial = successful call with non-empty output and at least one position array; distinct by "
                     "(direction, table, lengths, both maps)" % len(tables))
    v.assumptions += ["NonNeg (no -1 before the first non-negative map entry) is a hypothesis of the range/round-trip theorems; "
                      "it is evaluated on every recorded pass and the oracle checks the conclusions directly on the implementation",
                      "the engines themselves are not modelled here (Layer A); identity maps for one-to-one tables are C11"]
    return v.finish()
