"""C15 — rules added at run time behave as if written in the table."""
import random, re, os, time
from .. import common, corpus, gen_table as G
from .C12 import run_model_parallel

THEOREMS = ["Lou.C15.add_eq_append", "Lou.C15.add_eq_append_list", "Lou.C15.addSeq_eq_file", "Lou.C15.add_monotone",
            "Lou.C15.add_monotone_seq", "Lou.C15.compileEntry_grows", "Lou.C15.add_keeps_bucket_member",
            "Lou.C15.add_finalised", "Lou.C15.add_after_compile", "Lou.C15.add_invalid_inert", "Lou.C15.add_invalid_then",
            "Lou.C15.compileEntry_none_iff", "Lou.C15.compileUnfinalised_fin", "Lou.C12.compile_consistent_unfinalised"]

CLAIM = dict(
    text=("Kernel-checked on the compile model (fragment F0': character definitions, always and the word-position opcodes, numsign, "
          "undefined, noback/nofor): add_eq_append(_list) — adding rules to a compiled, not yet finalised table is the same fold as "
          "compiling the file with the rules appended; addSeq_eq_file — calling the model of lou_compileString for each rule in turn, "
          "rejected ones skipped, ends in exactly the table of 'file + accepted rules'; add_monotone(_seq) — after any additions every "
          "rule index resolves to the same rule and every character, cell and bucket chain is a super-sequence of what it was "
          "(nothing reachable becomes unreachable; offsets are preserved by growth: C12 arena_alloc_inv); add_finalised / "
          "add_after_compile — on a finalised table the call returns 0 and the table is unchanged; add_invalid_inert / add_invalid_then "
          "/ compileEntry_none_iff — the entry shapes the model rejects (spelled out) leave the table unchanged and do not affect later "
          "additions. Checked on every run against the real library, for sequences of 0-200 generated rules (definitions, "
          "translation, multipass, display, names/references, match, indicators, a malformed stream) on empty, generated and "
          "shipped bases: process A adds the rules with lou_compileString, a fresh process B compiles base + exactly the accepted "
          "rules as a file; (i) canonical logical table and display maps of A = B after selected prefixes, (ii) translations of probe "
          "inputs in both directions A = B, (iii) probes untouched by additions over fresh characters translate as before, (iv) a "
          "second list loaded in the same process is unaffected and equals a fresh process, (v) after the first use (translate / "
          "back-translate / lou_getTable / lou_checkTable / hyphenate) an addition returns 0, logs an error and changes nothing, (vi) "
          "a rejected rule leaves table and display maps unchanged and later additions succeed; model differential: the Lean model "
          "fed the same entries returns the same accept/reject values and prints the same logical table."),
    note=("add_invalid_inert is a theorem only for the shapes the MODEL rejects. The real compiler rejects several rule shapes only "
          "after a partial effect, accepts some although an error is logged, and crashes on a rule that starts with 'UTF-8'/'ISO' "
          "(findings F19-F21, listed in known_findings.json); these shapes are tried in isolation on every run. 'Affects no other "
          "list' is checked by oracle (iv); the cache itself is C14's subject."),
    technique="Lean 4 proofs on the compile model + differential testing against lou_compileString (fresh-process file compile as reference)",
    design="DESIGN.md §7 C15")

PROBE_MODE = 4          # dotsIO: cells come out as 0x8000|dots, no display table involved


def strip(line):
    return line.rsplit(" e=", 1)[0]


def errs(line):
    m = re.search(r" e=(\d+)", line)
    return int(m.group(1)) if m else 0


def ret_of(line):
    return line.split(" ")[1] if line.startswith("D ") else None


def shape_of(rule):
    w = [x for x in rule.split(" ") if x]
    while w and w[0] in ("noback", "nofor", "nocross", "before", "after", "empmatchbefore", "empmatchafter"):
        w = w[1:] if w[0] in ("noback", "nofor", "nocross", "empmatchbefore", "empmatchafter") else w[2:]
    return re.sub(r"[^a-z0-9A-Z-]", "", w[0])[:24] if w else "empty"


def fwd(list_, u):
    return "FWD %s %d %d - 0 %s - -" % (list_, PROBE_MODE, 4 * len(u) + 12, common.wide(u))


def bwd(list_, cells):
    return "BWD %s %d %d - 0 %s - -" % (list_, PROBE_MODE, 4 * len(cells) + 12, common.wide(cells))


def res_key(line):
    """what a translation returned: everything before the log suffix"""
    return strip(line)


def f0_addition(rng, t, i):
    """a rule of the fragment F0' as a Rule object (so that the Lean model can be fed the same entry), incl. shapes the
    model rejects"""
    r = rng.random()
    if not [c for c in t.chars() if c != 0x20]:
        r = 0.0
    if r < 0.35:
        c = 0x0400 + (i % 0x300)
        op = rng.choice(["letter", "lowercase", "sign", "punctuation", "math", "digit", "litdigit", "space", "uppercase"])
        d = [rng.randint(1, 255) for _ in range(rng.randint(1, 2))]
        rule = G.Rule(op, [c], d, rng.choice(["", "", "noback", "nofor"]))
        t.charcell.setdefault(c, d[0]); t.attrs.setdefault(c, op)
        return rule
    if r < 0.8:
        tmp = G.Tbl()
        tmp.charcell, tmp.attrs = t.charcell, t.attrs
        G.gen_translation_rules(rng, tmp, n=1, allow_undefined=True, allow_equals=True)
        return tmp.rules[0]
    if r < 0.86:
        return G.Rule(None, raw=rng.choice(["numsign 3456", "undefined 3456", "numsign 56", "undefined 26"]))
    if r < 0.93:
        # rejected by compiler and model alike: two characters in a definition / '=' over an undefined character
        return rng.choice([G.Rule("letter", [0x61, 0x62], [1]), G.Rule("always", [0x0f10 + i % 16], None),
                           G.Rule("sign", [0x0f20, 0x0f21], [3])])
    cs = [c for c in t.chars() if c != 0x20] or [0x61]
    return G.Rule(rng.choice(["always", "word", "begword"]), [rng.choice(cs)], [rng.randint(1, 63)])


def fresh_addition(rng, t, i, fresh, pool):
    """a rule over characters and cells the base table does not use (U+0500.., cells from `pool`)"""
    r = rng.random()
    if r < 0.5 or len(fresh) < 2:
        c = 0x0500 + len(fresh)
        fresh.append(c)
        return "%s %s %s" % (rng.choice(["letter", "lowercase", "sign", "punctuation"]), G.char_str(c), G.dots_str(rng.choice(pool)))
    s = [rng.choice(fresh) for _ in range(rng.randint(1, 3))]
    return "%s %s %s" % (rng.choice(["always", "word", "begword", "endword"]), G.chars_str(s),
                         G.cells_str([rng.choice(pool) for _ in range(rng.randint(1, 2))]))


class Seq:
    pass


def build_sequences(rng, quick):
    seqs = []
    from .C05 import gen_f0

    def mk(kind, flavour, n, arg=None):
        s = Seq()
        s.kind, s.flavour, s.n, s.arg = kind, flavour, n, arg
        s.t = G.Tbl()
        if kind == "empty":
            s.t.rules.append(G.Rule("space", [0x20], [0])); s.t.charcell[0x20] = 0; s.t.attrs[0x20] = "space"
            s.base_text = s.t.text()
        elif kind == "gen":
            s.t = gen_f0(rng) if arg == "f0" else G.gen_table(rng, arg)
            s.base_text = s.t.text()
        else:
            s.base_text = None
            G.gen_alphabet(rng, s.t); s.t.rules = []
        s.base_rules = list(s.t.rules)
        s.adds, s.rules = [], []
        fresh = []
        used = set(s.t.cells())
        pool = [c for c in range(64, 256) if c not in used] or [255]
        for i in range(n):
            if flavour == "f0":
                r = f0_addition(rng, s.t, i)
                s.adds.append((r.text(), "f0")); s.rules.append(r)
            elif flavour == "undef":
                # rules over ONE character the table does not know and two or three cells: linking such a rule allocates
                # the character record after the rule; with some hundred of them a growth of the image falls between the
                # two allocations (seeded change C15-X kept a pointer to the rule across it)
                cl = [c for c in s.t.cells() if c] or [1, 3]
                s.adds.append(("always %s %s" % (G.char_str(0x0900 + i), G.cells_str([rng.choice(cl) for _ in range(rng.randint(2, 3))])), "undef"))
                s.rules.append(None)
            elif flavour == "fresh":
                s.adds.append((fresh_addition(rng, s.t, i, fresh, pool), "fresh")); s.rules.append(None)
            else:
                s.adds.append(G.gen_addition(rng, s.t, i, malformed=0.1, strict=True)); s.rules.append(None)
        s.fresh = fresh
        seqs.append(s)
        return s
    if quick:
        mk("empty", "general", 0); mk("empty", "general", 120); mk("empty", "f0", 150); mk("empty", "general", 200)
        for _ in range(6):
            mk("gen", "f0", rng.randint(0, 200), "f0")
        for k in ["mixed", "extras", "multipass", "onetoone", "extras", "mixed"]:
            mk("gen", "general", rng.randint(40, 200), k)
        for k in ["f0", "multipass", "mixed", "f0"]:
            mk("gen", "fresh", rng.randint(30, 100), k)
        for tn in ["en-us-g1.ctb", "es-g1.ctb", "fr-bfu-comp6.utb", "en-us-comp8.ctb", "cs-g1.ctb", "unicode-braille.utb", "nl-NL-g0.utb",
                   "en-ueb-g1.ctb", "de-g0.utb"]:
            if os.path.exists(os.path.join(corpus.TABLES, tn)):
                mk("shipped", "general", rng.randint(40, 120), tn)
        mk("shipped", "fresh", 60, "en-us-g2.ctb"); mk("shipped", "fresh", 40, "en-gb-g1.utb")
        mk("empty", "undef", 500); mk("gen", "undef", 400, "f0")
    else:
        mk("empty", "general", 0)
        for _ in range(40):
            mk("empty", rng.choice(["general", "f0"]), rng.randint(1, 200))
        for _ in range(600):
            mk("gen", "f0", rng.randint(0, 200), "f0")
        for k in ["mixed", "extras", "multipass", "f0", "onetoone"] * 120:
            mk("gen", "general", rng.randint(20, 200), k)
        for k in ["f0", "multipass", "mixed"] * 80:
            mk("gen", "fresh", rng.randint(20, 120), k)
        for tn in ["en-us-g1.ctb", "en-us-g2.ctb", "es-g1.ctb", "fr-bfu-comp6.utb", "en-gb-g1.utb", "cs-g1.ctb", "nl-NL-g0.utb",
                   "en-us-comp6.ctb", "de-g0.utb", "unicode-braille.utb", "en-ueb-g1.ctb", "it-it-comp6.utb"]:
            if os.path.exists(os.path.join(corpus.TABLES, tn)):
                mk("shipped", rng.choice(["general", "general", "fresh"]), rng.randint(40, 200), tn)
        for _ in range(10):
            mk("empty", "undef", rng.randint(300, 900)); mk("gen", "undef", rng.randint(300, 700), rng.choice(["f0", "mixed"]))
    return seqs


OTHER = "space \\s 0\nletter a 1\nletter b 12\nletter c 14\nalways ab 1256\nnoback pass2 @1256 @123\n"
USES = ["FWD", "BWD", "GET", "CHK", "HYP"]


def run(tier):
    v = common.Verdict("C15", tier)
    rng = random.Random(common.seed() * 1000003 + 15)
    common.lean_obligations(v, THEOREMS)
    try:
        exe = common.build_harness()
        v.obligation("harness builds from /repo working tree (hooks on, ASan+UBSan)", True)
    except common.BuildError as e:
        v.obligation("harness builds from /repo working tree (hooks on, ASan+UBSan)", False, str(e)[-2000:])
        return v.finish()
    quick = tier == "quick"
    seqs = build_sequences(rng, quick)
    dist = {"sequences": len(seqs), "additions": 0, "accepted": 0, "rejected": 0, "checkpoints": 0, "dump_compared": 0,
            "probes_compared": 0, "monotone_probes": 0, "other_list_probes": 0, "after_use": {}, "rejected_inert_checked": 0,
            "model_compared": 0, "dirty_shapes": {}, "kinds": {}}
    other_probes = [fwd("other.ctb", [0x61, 0x62, 0x63, 0x20, 0x61]), fwd("other.ctb", [0x62, 0x61, 0x62]),
                    bwd("other.ctb", [0x8001, 0x8033, 0x8009])]
    # ---------------- phase A: additions through lou_compileString
    casesA = []
    for si, s in enumerate(seqs):
        n = s.n
        s.cps = sorted(set([n] + ([n // 3, 2 * n // 3] if n >= 6 else [])))
        s.base = ("a%d.ctb" % si) if s.base_text is not None else corpus.tpath(s.arg)
        # probes: over the characters the table knows after all additions, and their cells
        s.fprobes, s.bprobes = [], []
        for _ in range(6):
            if s.kind == "shipped":
                u = corpus.rand_input(rng, 14)
                if rng.random() < 0.5 and s.t.chars():
                    u = G.rand_text(rng, s.t, 8) + u[:6]
            else:
                u = G.rand_text_rules(rng, s.t, 12) if rng.random() < 0.5 else G.rand_text(rng, s.t, 10)
            s.fprobes.append([c for c in u if c] or [0x61])
        for _ in range(5):
            cells = G.rand_cells(rng, s.t, 10) if s.kind != "shipped" else corpus.rand_braille(rng, 10, dots_io=True)
            s.bprobes.append([c for c in cells if c] or [0x8001])
        # base-only probes for the monotonicity oracle (only base characters / cells)
        base_t = G.Tbl()
        for r in s.base_rules:
            if r.chars and len(r.chars) == 1 and r.cells and r.opcode in G.OPNAME and r.test is None:
                base_t.charcell.setdefault(r.chars[0], r.cells[0]); base_t.attrs.setdefault(r.chars[0], r.opcode)
        base_t.rules = s.base_rules
        s.mprobes = []
        if s.flavour == "fresh":
            for _ in range(5):
                if s.kind == "shipped":
                    u = [c for c in corpus.rand_input(rng, 12) if c and not (0x0500 <= c < 0x0600)]
                else:
                    u = G.rand_text_rules(rng, base_t, 10) if rng.random() < 0.5 else G.rand_text(rng, base_t, 10, undefined=0)
                # (an empty draw falls back to a character of the BASE: the rendering of an undefined character goes
                # through fallback cells that a fresh definition may legitimately give an attribute — thorough seed 2)
                u = [c for c in u if c] or ([0x20] if s.kind == "shipped" else (base_t.chars()[:1] or [0x20]))
                s.mprobes.append(fwd(s.base, u))
            for _ in range(4 if s.kind != "shipped" else 0):     # (a shipped table's cells are not known to the generator)
                cells = G.rand_cells(rng, base_t, 8, undefined=0)
                s.mprobes.append(bwd(s.base, [c for c in cells if c != 0x8000] or [0x8001]))
        s.A = {}
        for ci, k in enumerate(s.cps):
            setup = ["TBL other.ctb " + common.hexbytes(OTHER), "TBL other2.ctb " + common.hexbytes(OTHER),
                     "TBL other3.ctb " + common.hexbytes(OTHER)]
            if s.base_text is not None:
                setup.append("TBL %s %s" % (s.base, common.hexbytes(s.base_text)))
            ops, tags = [], []

            def op(o, tag):
                ops.append(o); tags.append(tag)
            for p in other_probes:
                op(p, "other-before")
            op("DUMP other.ctb", "other-dump-before")
            op("ADD other2.ctb 23", "other2-load")          # a third list: compiled, never used, so still open for additions
            op("ADD %s %s" % (s.base, common.hexbytes("# compile, do not finalise")), "compile")
            for i in range(k):
                txt, kind = s.adds[i]
                if i == k // 3 and k >= 3:
                    # another list is entered for the first time while this one is still growing: the list under test is
                    # no longer the most recently entered one when its image moves (seeded change C15-C)
                    op("ADD other3.ctb 23", "other3-load")
                if kind == "malformed" and ci == len(s.cps) - 1:
                    op("DUMP %s nofinal" % s.base, ("pre", i)); op("DISPDUMP %s" % s.base, ("dpre", i))
                op("ADD %s %s" % (s.base, common.hexbytes(txt)), ("add", i))
                if kind == "malformed" and ci == len(s.cps) - 1:
                    op("DUMP %s nofinal" % s.base, ("post", i)); op("DISPDUMP %s" % s.base, ("dpost", i))
            op("DUMP %s nofinal" % s.base, "dump"); op("DISPDUMP %s" % s.base, "ddump")
            for p in other_probes:
                op(p, "other-after")
            op("DUMP other.ctb", "other-dump-after")
            op("DUMP other2.ctb nofinal", "other2-dump-after")
            if k >= 3:
                op("DUMP other3.ctb nofinal", "other3-dump-after")
            use = USES[(si + ci) % len(USES)]
            # the first use
            if use == "FWD":
                op(fwd(s.base, s.fprobes[0]), "use")
            elif use == "BWD":
                op(bwd(s.base, s.bprobes[0]), "use")
            elif use == "GET":
                op("GET %s" % s.base, "use")
            elif use == "CHK":
                op("CHK %s" % s.base, "use")
            else:
                op("HYP %s 0 %s" % (s.base, common.wide(s.fprobes[0][:8])), "use")
            op("DUMP %s nofinal" % s.base, "dump-used")
            op("ADD %s %s" % (s.base, common.hexbytes("sign \\x0e01 1278")), "add-after-use")
            op("DUMP %s nofinal" % s.base, "dump-used2")
            for p in s.fprobes:
                op(fwd(s.base, p), "fprobe")
            for p in s.bprobes:
                op(bwd(s.base, p), "bprobe")
            for p in s.mprobes:
                op(p, "mprobe")
            c = common.Case("A%d-%d" % (si, k), ["HOOK budget 3000000"] + setup, ops,
                            {"seq": s, "k": k, "tags": tags, "use": use})
            s.A[k] = c
            casesA.append(c)
    # fresh process with the other list alone, and with each base alone (monotonicity)
    cOther = common.Case("other", ["TBL other.ctb " + common.hexbytes(OTHER), "TBL other2.ctb " + common.hexbytes(OTHER)],
                         other_probes + ["ADD other2.ctb 23", "DUMP other2.ctb nofinal", "DUMP other.ctb"], {})
    casesA.append(cOther)
    for si, s in enumerate(seqs):
        if s.mprobes:
            setup = ["TBL %s %s" % (s.base, common.hexbytes(s.base_text))] if s.base_text is not None else []
            s.M = common.Case("M%d" % si, ["HOOK budget 3000000"] + setup, s.mprobes, {})
            casesA.append(s.M)
    # rule shapes with partial effects / accepted with error / crash: each alone on a small base
    DIRTY_BASE = "space \\s 0\nletter a 1\nletter b 2\nlowercase c 14\ndigit 1 2\nuppercase E 1346\nalways aE 15-1456\nemphclass italic\n"
    dprobes = [[0x61, 0x45, 0x61, 0x45], [0x61, 0x62, 0x20, 0x31, 0x63], [0x45, 0x45, 0x20, 0x45]]
    dirty = []
    for di, (txt, shape) in enumerate(G.MALFORMED_DIRTY + [("UTF-8", "hyphenation-header"), ("ISO-8859-1 x", "hyphenation-header")]):
        tn = "d%d.ctb" % di
        c = common.Case("D%d" % di, ["TBL %s %s" % (tn, common.hexbytes(DIRTY_BASE))],
                        ["ADD %s 23" % tn, "DUMP %s nofinal" % tn, "DISPDUMP %s" % tn, "ADD %s %s" % (tn, common.hexbytes(txt)),
                         "DUMP %s nofinal" % tn, "DISPDUMP %s" % tn, "ADD %s %s" % (tn, common.hexbytes("sign q 123")),
                         "ADD %s %s" % (tn, common.hexbytes("attribute probeattr ab")), "DUMP %s nofinal" % tn] +
                        [fwd(tn, u) for u in dprobes] + [bwd(tn, [0x8001, 0x802d, 0x8011, 0x8039])],
                        {"txt": txt, "shape": shape, "base": DIRTY_BASE})
        dirty.append(c); casesA.append(c)
    # control: the same follow-up additions without the rejected rule
    cCtl = common.Case("Dctl", ["TBL dctl.ctb %s" % common.hexbytes(DIRTY_BASE)],
                       ["ADD dctl.ctb 23", "ADD dctl.ctb %s" % common.hexbytes("sign q 123"),
                        "ADD dctl.ctb %s" % common.hexbytes("attribute probeattr ab"), "DUMP dctl.ctb nofinal"] +
                       [fwd("dctl.ctb", u) for u in dprobes] + [bwd("dctl.ctb", [0x8001, 0x802d, 0x8011, 0x8039])], {})
    casesA.append(cCtl)
    # F7 regression: a failed compile earlier in the process must not make a later `include` addition fail
    f7setup = ["TBL A.ctb " + common.hexbytes("space \\s 0\nspace z 3\nsign a 1\nsign b 2\n"),
               "TBL bad.ctb " + common.hexbytes("space \\s 0\nnosuchopcode a 1\n"), "TBL inc.ctb " + common.hexbytes("sign q 12345\n")]
    cF7 = common.Case("f7", f7setup, ["ADD A.ctb 23", "CHK bad.ctb", "ADD A.ctb " + common.hexbytes("include inc.ctb"),
                                      "DUMP A.ctb nofinal"], {})
    cF7c = common.Case("f7c", f7setup, ["ADD A.ctb 23", "ADD A.ctb " + common.hexbytes("include inc.ctb"), "DUMP A.ctb nofinal"], {})
    casesA += [cF7, cF7c]
    t0 = time.time()
    common.run_cases(exe, casesA, batch=1, timeout=600)
    v.notes.append("phase A %.1fs (%d processes)" % (time.time() - t0, len(casesA)))

    def tagged(c, tag):
        return [o for o, t in zip(c.out, c.meta["tags"]) if t == tag]

    # ---------------- evaluate A, build B
    casesB = []
    for si, s in enumerate(seqs):
        full = s.A[s.n]
        if full.fault and full.fault["kind"] == "tick-budget":
            # a probe does not terminate on this table (multipass rules that do not advance: decided by C03, finding F2);
            # the sequence is dropped
            dist["dropped_nonterminating_probe"] = dist.get("dropped_nonterminating_probe", 0) + 1
            v.notes.append("sequence %d dropped: a translation probe exceeds the tick budget (C03)" % si)
            s.flags = None
            continue
        if full.fault:
            v.violation("C15:fault:%s:%s" % (full.fault["kind"], full.fault["frame"]),
                        "fault during a sequence of run-time additions: %s %s" % (full.fault["kind"], full.fault.get("detail", "")[:200]),
                        {"script": full.setup + full.ops[:max(1, full.fault.get("op_index", 0) + 1)]})
            s.flags = None
            continue
        flags = {}
        for o, t in zip(full.out, full.meta["tags"]):
            if isinstance(t, tuple) and t[0] == "add":
                flags[t[1]] = (ret_of(o) == "1", errs(o))
        s.flags = flags
        for i, (txt, kind) in enumerate(s.adds):
            dist["additions"] += 1
            dist["kinds"][kind] = dist["kinds"].get(kind, 0) + 1
            ok, e = flags.get(i, (False, 0))
            dist["accepted" if ok else "rejected"] += 1
            if ok and e:
                v.violation("C15:accepted-with-error:" + shape_of(txt), "lou_compileString returned 1 although an error was logged: %r" % txt,
                            {"script": full.setup + full.ops[:full.ops.index("ADD %s %s" % (s.base, common.hexbytes(txt))) + 1]})
            if not ok and not e:
                v.violation("C15:rejected-silently:" + shape_of(txt), "lou_compileString returned 0 without any error-level message: %r" % txt,
                            {"script": full.setup, "rule": txt})
        # (vi) rejected rules are inert
        pre = {}
        for o, t in zip(full.out, full.meta["tags"]):
            if isinstance(t, tuple) and t[0] in ("pre", "dpre"):
                pre[(t[0], t[1])] = strip(o)
            if isinstance(t, tuple) and t[0] in ("post", "dpost"):
                i = t[1]
                if not flags[i][0]:
                    dist["rejected_inert_checked"] += 1
                    before = pre[("pre" if t[0] == "post" else "dpre", i)]
                    if strip(o) != before:
                        a, b = before.split(" | "), strip(o).split(" | ")
                        diff = [x for x in b if x not in a][:4]
                        v.violation("C15:rejected-partial:" + shape_of(s.adds[i][0]),
                                    "a rule that lou_compileString rejected changed the %s: %r leaves %s" % (
                                        "table" if t[0] == "post" else "display maps", s.adds[i][0], diff),
                                    {"script": full.setup + [x for x in full.ops if x.startswith("ADD")][:i + 2], "rule": s.adds[i][0]})
        # prefix consistency of the return values, then B cases
        for k in s.cps:
            a = s.A[k]
            if a.fault and a.fault["kind"] == "tick-budget":
                continue
            if a.fault:
                v.violation("C15:fault:%s:%s" % (a.fault["kind"], a.fault["frame"]), "fault during additions (prefix %d)" % k,
                            {"script": a.setup + a.ops[:max(1, a.fault.get("op_index", 0) + 1)]})
                continue
            fk = {t[1]: ret_of(o) == "1" for o, t in zip(a.out, a.meta["tags"]) if isinstance(t, tuple) and t[0] == "add"}
            if any(fk[i] != flags[i][0] for i in fk):
                v.violation("C15:nondeterministic-acceptance", "the same additions were accepted differently in two processes", {"script": a.setup})
            acc = [s.adds[i][0] for i in range(k) if flags[i][0]]
            bn = "b%d-%d.ctb" % (si, k)
            if s.base_text is not None:
                text = s.base_text + "\n".join(acc) + ("\n" if acc else "")
            else:
                text = "include %s\n" % s.base + "\n".join(acc) + ("\n" if acc else "")
            ops = ["ADD %s 23" % bn, "DUMP %s nofinal" % bn, "DISPDUMP %s" % bn]
            ops += [fwd(bn, p) for p in s.fprobes] + [bwd(bn, p) for p in s.bprobes]
            b = common.Case("B%d-%d" % (si, k), ["HOOK budget 3000000", "TBL %s %s" % (bn, common.hexbytes(text))], ops,
                            {"seq": s, "k": k, "text": text})
            a.meta["B"] = b
            casesB.append(b)
    t0 = time.time()
    common.run_cases(exe, casesB, batch=1, timeout=600)
    v.notes.append("phase B %.1fs (%d processes)" % (time.time() - t0, len(casesB)))
    # ---------------- oracles (i) - (v)
    model_lines, model_tags = [], []
    for si, s in enumerate(seqs):
        if s.flags is None:
            continue
        for k in s.cps:
            a = s.A[k]
            b = a.meta.get("B")
            if a.fault or b is None:
                continue
            dist["checkpoints"] += 1
            name = "%s/%s/%s" % (s.kind, s.arg or "-", s.flavour)
            accepted = [s.adds[i][0] for i in range(k) if s.flags[i][0]]
            rep = {"script_A": a.setup + a.ops, "file_B": b.meta["text"][-3000:], "accepted": accepted[-20:]}
            if b.fault and b.fault["kind"] == "tick-budget":
                continue
            if b.fault or len(b.out) < 3:
                v.violation("C15:fault-in-file-compile", "the concatenated file faults: %s" % (b.fault or {}).get("kind"), rep)
                continue
            da, dda = strip(tagged(a, "dump")[0]), strip(tagged(a, "ddump")[0])
            db, ddb = strip(b.out[1]), strip(b.out[2])
            v.cov["evaluations"] += 1
            dist["dump_compared"] += 1
            if da.startswith("T null") and db.startswith("T null"):
                dist["base_does_not_compile"] = dist.get("base_does_not_compile", 0) + 1
                continue
            if db.startswith("T null"):
                v.violation("C15:file-rejects-accepted-rules", "base + the rules lou_compileString accepted does not compile as a file (%s, %d rules)"
                            % (name, len(accepted)), rep)
                continue
            if da != db:
                x, y = da.split(" | "), db.split(" | ")
                diff = [(p, q) for p, q in zip(x, y) if p != q][:3] or (len(x), len(y))
                v.violation("C15:table-differs:" + s.flavour, "after %d additions (%d accepted) the table built at run time differs from the "
                            "compiled file (%s): first differences (run time, file) %s" % (k, len(accepted), name, diff), rep)
            elif dda != ddb:
                v.violation("C15:display-differs:" + s.flavour, "display maps differ between run-time additions and the compiled file (%s)" % name, rep)
            else:
                v._distinct.add((si, k, "dump"))
            # (ii) translations
            pa = tagged(a, "fprobe") + tagged(a, "bprobe")
            pb = b.out[3:]
            for oa, ob, opb in zip(pa, pb, b.ops[3:]):
                dist["probes_compared"] += 1
                v.cov["evaluations"] += 1
                if res_key(oa) != res_key(ob):
                    v.violation("C15:translation-differs:" + opb.split(" ")[0], "a probe translates differently after run-time additions than with the "
                                "compiled file (%s): %s | run time %s | file %s" % (name, opb[:100], res_key(oa)[:120], res_key(ob)[:120]), rep)
                else:
                    v._distinct.add((si, k, opb))
            # (iv) the other list
            for x, y, z in zip(tagged(a, "other-before"), tagged(a, "other-after"), cOther.out):
                dist["other_list_probes"] += 1
                if not (res_key(x) == res_key(y) == res_key(z)):
                    v.violation("C15:other-list-affected", "additions to one list changed the results of another list (%s)" % name, rep)
            if strip(tagged(a, "other-dump-before")[0]) != strip(tagged(a, "other-dump-after")[0]) or \
                    strip(tagged(a, "other-dump-after")[0]) != strip(cOther.out[-1]) or \
                    strip(tagged(a, "other2-dump-after")[0]) != strip(cOther.out[-2]) or \
                    any(strip(x) != strip(cOther.out[-2]) for x in tagged(a, "other3-dump-after")):
                v.violation("C15:other-list-affected:dump", "additions to one list changed the table of another list (%s)" % name, rep)
            # (v) after the first use
            use = a.meta["use"]
            r = tagged(a, "add-after-use")[0]
            d1, d2 = strip(tagged(a, "dump-used")[0]), strip(tagged(a, "dump-used2")[0])
            key = "%s:ret=%s:e=%d:%s" % (use, ret_of(r), min(errs(r), 1), "unchanged" if d1 == d2 else "changed")
            dist["after_use"][key] = dist["after_use"].get(key, 0) + 1
            used_ok = (tagged(a, "use") or [""])[0].startswith("R 1 ")
            if use in ("FWD", "BWD") and not used_ok:
                # the translation itself failed (e.g. the accepted rules make finalisation fail, exactly as the same
                # lines do in a file: `uppercase n` for a character that is the base of `N`): the table was not "used for
                # translation", the premise of this clause is not met (false alarm at thorough seed 3)
                dist["after_use"]["use-failed"] = dist["after_use"].get("use-failed", 0) + 1
            elif use in ("FWD", "BWD"):
                if ret_of(r) != "0" or d1 != d2:
                    v.violation("C15:addition-after-use:" + use, "after the table had been used for translation lou_compileString returned %s and the "
                                "table %s" % (ret_of(r), "changed" if d1 != d2 else "did not change"), rep)
                elif errs(r) == 0:
                    v.violation("C15:addition-after-use:silent", "the refused addition after use logged no error", rep)
            elif ret_of(r) == "0" and d1 != d2:
                v.violation("C15:addition-after-use:" + use, "a refused addition changed the table", rep)
            # (iii) monotonicity on probes that the additions do not touch
            if s.mprobes and k == s.n and not s.M.fault:
                for oa, om, opm in zip(tagged(a, "mprobe"), s.M.out, s.mprobes):
                    dist["monotone_probes"] += 1
                    v.cov["evaluations"] += 1
                    if res_key(oa) != res_key(om):
                        v.violation("C15:not-monotone:" + opm.split(" ")[0], "a probe over base characters translates differently after additions over "
                                    "fresh characters only (%s): %s | before %s | after %s" % (name, opm[:100], res_key(om)[:120], res_key(oa)[:120]), rep)
            # model differential (fragment F0')
            if s.flavour == "f0" and s.kind != "shipped":
                base_e = [G.entry_str(r) for r in s.base_rules]
                add_e = [G.entry_str(r) for r in s.rules[:k]]
                if all(e is not None for e in base_e + add_e):
                    model_lines.append("MADDSEQ %d %s" % (len(base_e), " ".join(base_e + add_e)))
                    model_tags.append((s, k, a, "seq"))
                    model_lines.append("LOADTABLE a %s" % da); model_tags.append((s, k, a, "load"))
                    model_lines.append("MDUMP a"); model_tags.append((s, k, a, "real"))
                    fin = [e for e, i in zip(add_e, range(k))][:3]
                    model_lines.append("MADDFINAL %d %s" % (len(base_e), " ".join(base_e + fin)))
                    model_tags.append((s, k, a, "final"))
    out = common.run_model(model_lines, timeout=900) if model_lines else []
    mbad = []
    pend = None
    for (s, k, a, what), o in zip(model_tags, out):
        if what == "seq":
            pend = o
        elif what == "real":
            dist["model_compared"] += 1
            flags_real = "".join("1" if s.flags[i][0] else "0" for i in range(k)) or "."
            if pend is None or not pend.startswith("AS ") or pend == "AS null":
                mbad.append("model cannot compile the base: %r" % (pend or "")[:80])
                continue
            mf, _, mt = pend[3:].partition(" | ")
            if mf != flags_real:
                i = next((j for j, (x, y) in enumerate(zip(mf, flags_real)) if x != y), -1)
                mbad.append("return values differ at addition %d (%r): model %s, lou_compileString %s" % (
                    i, s.adds[i][0] if i >= 0 else "?", mf[i:i + 1], flags_real[i:i + 1]))
                continue
            # setDefaults (numPasses 0 -> 1) runs at the end of compileTable; the model does it in `finalise`
            mt = re.sub(r"^T 0 ", "T 1 ", mt)
            if mt != o:
                x, y = o.split(" | "), mt.split(" | ")
                diff = [(p, q) for p, q in zip(x, y) if p != q][:3] or (len(x), len(y))
                mbad.append("logical table differs after %d additions (impl, model): %s" % (k, diff))
        elif what == "final":
            if not re.match(r"AF (0+|\.) same$", o):
                mbad.append("model accepts additions on a finalised table: %s" % o)
    v.obligation("correspondence: the Lean model of lou_compileString returns the same accept/reject values and prints the same logical "
                 "table as the real library for the same entries", not mbad, "\n".join(mbad[:4]))
    # ---------------- dirty shapes, each alone
    for c in dirty:
        txt, shape = c.meta["txt"], c.meta["shape"]
        rep = {"script": c.setup + c.ops, "base": c.meta["base"]}
        if c.fault:
            dist["dirty_shapes"][shape] = dist["dirty_shapes"].get(shape, "") + "F"
            v.violation("C15:crash:" + shape, "lou_compileString(%r) faults: %s in %s" % (txt, c.fault["kind"], c.fault["frame"]), rep)
            continue
        ret, e = ret_of(c.out[3]), errs(c.out[3])
        changed = strip(c.out[1]) != strip(c.out[4]) or strip(c.out[2]) != strip(c.out[5])
        hidden = (not changed) and ret == "0" and not cCtl.fault and (
            strip(c.out[8]) != strip(cCtl.out[3]) or [res_key(x) for x in c.out[9:]] != [res_key(x) for x in cCtl.out[4:]])
        if hidden:
            a, b = strip(cCtl.out[3]).split(" | "), strip(c.out[8]).split(" | ")
            if a == b:
                a, b = [res_key(x) for x in cCtl.out[4:]], [res_key(x) for x in c.out[9:]]
            dist["dirty_shapes"][shape] = dist["dirty_shapes"].get(shape, "") + "H"
            v.violation("C15:rejected-partial:" + shape, "lou_compileString(%r) returns 0 and the dump is unchanged, but later additions come out "
                        "differently than without it: %s" % (txt, [x for x in b if x not in a][:3]), rep)
        dist["dirty_shapes"][shape] = dist["dirty_shapes"].get(shape, "") + ("P" if (ret == "0" and changed) else "E" if (ret == "1" and e) else "-")
        if ret == "0" and changed:
            a, b = strip(c.out[1]).split(" | "), strip(c.out[4]).split(" | ")
            v.violation("C15:rejected-partial:" + shape, "lou_compileString(%r) returns 0 but changes the table: %s" % (
                txt, [x for x in b if x not in a][:4]), rep)
        if ret == "0" and e == 0:
            v.violation("C15:rejected-silently:" + shape, "lou_compileString(%r) returns 0 without an error-level message" % txt, rep)
        if ret == "1" and e:
            v.violation("C15:accepted-with-error:" + shape, "lou_compileString(%r) returns 1 although an error was logged (as a line of a file "
                        "the same rule makes the table fail)" % txt, rep)
        if ret_of(c.out[6]) != "1":
            v.violation("C15:later-addition-refused:" + shape, "after the rejected rule %r a valid addition is refused" % txt, rep)
    # ---------------- F7 regression
    if not cF7.fault and not cF7c.fault and len(cF7.out) == 4:
        if ret_of(cF7.out[2]) != ret_of(cF7c.out[1]) or strip(cF7.out[3]) != strip(cF7c.out[2]):
            v.violation("C15:history:errorCount-stale", "after a failed compile of another list, lou_compileString(A, 'include inc.ctb') returns %s "
                        "(%s without that history)" % (ret_of(cF7.out[2]), ret_of(cF7c.out[1])), {"script": cF7.setup + cF7.ops})
    # ---------------- lists whose names are prefixes of each other are different lists: a rule added to one does not
    # show in the other, and 'already used for translation' is per list
    w = lambda t: common.wide([ord(x) for x in t])
    iso_setup = ["TBL p.ctb %s" % common.hexbytes("space \\s 0\nsign a 1\n"), "TBL q.ctb %s" % common.hexbytes("sign b 12\n")]
    for order in ("long-first", "short-first"):
        L, S = "p.ctb,q.ctb", "p.ctb"
        first, second = (L, S) if order == "long-first" else (S, L)
        ops = ["FWD %s 4 8 - 12 %s - -" % (first, w("aa")),                       # `first` is used: finalised
               "ADD %s %s" % (second, common.hexbytes("always aa 123456")),       # `second` never used: accepted
               "FWD %s 4 8 - 12 %s - -" % (second, w("aa")),
               "FWD %s 4 8 - 12 %s - -" % (first, w("aa")),
               "ADD %s %s" % (first, common.hexbytes("always aa 3456"))]          # refused: already used
        ciso = common.Case("c15-iso-" + order, iso_setup, ops, {})
        common.run_cases(exe, [ciso], batch=1, timeout=60)
        if ciso.fault or len(ciso.out) != len(ops):
            v.violation("C15:fault:prefix-lists", "fault in the prefix-list scenario (%s)" % order, {"script": iso_setup + ops})
            continue
        v.cov["evaluations"] += len(ops)
        r1, r3, r4 = (common.parse_R(ciso.out[i]) for i in (0, 2, 3))
        ok = (r1 and r3 and r4 and r1["out"] == [0x8001, 0x8001] and ret_of(ciso.out[1]) == "1" and r3["out"] == [0x803f]
              and r4["out"] == [0x8001, 0x8001] and ret_of(ciso.out[4]) == "0")
        if not ok:
            v.violation("C15:other-list:prefix-name:" + order, "lists %r and %r are different lists: a rule added to the one not yet used must be "
                        "accepted and show only there, and the used one must refuse additions; got %s" % (L, S, [o.split(" | ")[0][:40] for o in ciso.out]),
                        {"script": iso_setup + ops, "results": [o[:200] for o in ciso.out]})
    from .. import dispgrow
    dispgrow.display_growth(v, exe, tier, "C15", dist)
    v.cov["distribution"] = dist
    for s in seqs[:4]:
        v.sample({"base": s.kind, "arg": s.arg, "flavour": s.flavour, "additions": [a for a, _ in s.adds[:4]], "checkpoints": s.cps})
    v.cov["rule"] = ("%d sequences of 0-200 generated rules (flavours: general = definitions / translation / multipass / display / names and "
                     "references / match / indicators + 10%% cleanly malformed; f0 = fragment of the Lean model incl. shapes it rejects; fresh = "
                     "rules over new characters and cells only) on empty, generated and shipped bases; per sequence up to 3 prefixes, each in "
                     "its own pair of processes (A: lou_compileString, B: file); %d rule shapes with known partial effects tried alone; "
                     "distinct by (sequence, prefix, probe)" % (len(seqs), len(dirty)))
    return v.finish()
