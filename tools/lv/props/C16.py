"""C16 — translation depends only on the sequence of table entries, not their packaging."""
import os, random, shutil, tempfile, itertools, re
from concurrent.futures import ThreadPoolExecutor
from .. import common, corpus, gen_table as G, tblfiles as TF

THEOREMS = [
    "Lou.C16.fileLines_decode", "Lou.C16.readChars_decode", "Lou.C16.getALine_progress", "Lou.C16.line_count",
    "Lou.C16.line_bound", "Lou.C16.cr_anywhere_inert", "Lou.C16.crlf_eq_lf", "Lou.C16.crlf_eq_lf_bytes",
    "Lou.C16.decode_utf16le", "Lou.C16.decode_utf16be", "Lou.C16.utf16_eq_ascii", "Lou.C16.utf16le_eq_utf16be",
    "Lou.C16.one_byte_file_is_empty", "Lou.C16.utf8_start_rejected",
    "Lou.C16.list_eq_concat", "Lou.C16.list_eq_concat_bytes", "Lou.C16.concat_without_lf_merges",
    "Lou.C16.blank_comment_inert", "Lou.C16.long_line_splits", "Lou.C16.long_comment_leaks",
    "Lou.C16.trailing_ws_inert", "Lou.C16.getToken_tokens", "Lou.C16.isInert_iff", "Lou.C16.isInert_trailing_ws",
    "Lou.C16.escape_hex", "Lou.C16.escape_eq_literal", "Lou.C16.literal_backslash_is_error",
    "Lou.C16.short_hex_escape_is_x", "Lou.C16.dots_perm", "Lou.C16.dots_perm_cell", "Lou.C16.dots_cell_or",
    "Lou.C16.duplicate_dot_is_error", "Lou.Lexer.parseChars_fuel",
]

CLAIM = dict(
    text=("Kernel-checked theorems (LouProofs/C16.lean) about a byte-level transcription of the table reader (getAChar, "
          "_lou_getALine, getToken, parseChars, parseDots, hexValue): for ALL byte contents the lines handed to the rule "
          "compiler are splitLines(decode bytes); CR never reaches a line (crlf_eq_lf); BOM+UTF-16LE/BE of ASCII text reads as "
          "the same lines as the 8-bit file (utf16_eq_ascii); the lines of a concatenation are the concatenated lines when the "
          "first file ends with LF (list_eq_concat); an inserted blank/comment line adds no entry and trailing blanks do not "
          "change a line's tokens (blank_comment_inert, trailing_ws_inert); \\xhhhh and the UTF-8 spelling of a code point "
          "parse to that code point (escape_eq_literal); permuting the dot characters inside each cell does not change "
          "parseDots (dots_perm). The model is compared function by function with the compiled C code on every run "
          "(_lou_getALine, lou_readCharFromFile, _lou_extParseChars, _lou_extParseDots: exhaustive small domains + generated "
          "tokens and byte contents in three encodings incl. malformed). The equivalence of whole compilations (list / "
          "include wrapper / one concatenated file / flattened includes / CRLF / blank+comment lines+trailing blanks / "
          "UTF-16LE/BE / re-spelled characters / permuted dots / separate display-table path) is NOT proved: it is searched "
          "on the real compiler over the table lists named by the yaml corpora and generated tables, each variant translated "
          "forward (default and dotsIO) and backward on the same inputs, results compared field by field."),
    note=("Hypotheses forced by the code: files accepted as 'ASCII 8' need two leading bytes < 128 (a one-byte file reads as "
          "empty, a file starting with a non-ASCII UTF-8 character is rejected); concatenation needs a final LF in the first "
          "part; comment lines must be shorter than 2047 characters (longer ones are split, one character is lost and the tail "
          "is compiled); a literal backslash is not a character. Hyphenation dictionaries are first-line sensitive: they are "
          "never concatenated/flattened nor given extra lines (copied verbatim into every variant except CRLF/UTF-16)."),
    technique="Lean 4 proof over bytes (reader refinement + token-level lemmas) + function-by-function differential + packaging-variant search on the real compiler",
    design="DESIGN.md §7 C16")

hx = common.hexbytes


# ---------------------------------------------------------------- (i) lexer differential

DOTCH = b"0123456789abcdefABCDEF-"


def rand_token(rng):
    out = b""
    for _ in range(rng.randint(0, 8)):
        r = rng.random()
        if r < 0.3:
            out += bytes([rng.randint(33, 126)])
        elif r < 0.5:
            out += b"\\" + bytes([rng.choice(b"\\efnrstvw\"xXyYzZq1 ")])
        elif r < 0.65:
            out += b"\\x" + bytes(rng.choice(b"0123456789abcdefABCDEFg") for _ in range(rng.randint(0, 5)))
        elif r < 0.8:
            cp = rng.choice([rng.randint(0x80, 0x7ff), rng.randint(0x800, 0xffff), rng.randint(0x10000, 0x10ffff)])
            out += chr(cp).encode("utf-8", "surrogatepass")
        elif r < 0.9:
            out += bytes([rng.randint(128, 255)])
        else:
            out += bytes(rng.randint(128, 255) for _ in range(rng.randint(1, 7)))
    if rng.random() < 0.1:
        out = out[:rng.randint(0, len(out))]
    return out.replace(b"\0", b"")


def rand_file(rng):
    r = rng.random()
    n = rng.choice([0, 1, 2, 3, 5, 20, 200])
    alpha = rng.choice([b"ab \n", b"ab\r\n\t #", bytes(range(256)), b"a\n\r\xc3\xa9\xff\xfe\x00"])
    body = bytes(rng.choice(alpha) for _ in range(n))
    if r < 0.25:
        return "ascii8", body
    if r < 0.4:
        return "le-raw", b"\xff\xfe" + body
    if r < 0.55:
        return "be-raw", b"\xfe\xff" + body
    if r < 0.7:
        s = "".join(rng.choice("ab \n\r#\u00e9\u20ac\uffff") for _ in range(n))
        k = rng.randrange(3)
        return ("le", "be", "utf8")[k], (b"\xff\xfe" + s.encode("utf-16-le"), b"\xfe\xff" + s.encode("utf-16-be"), s.encode("utf-8"))[k]
    if r < 0.85:
        L = rng.choice([2046, 2047, 2048, 2049, 4095, 4096])
        line = bytes(rng.choice(b"xy#") for _ in range(L))
        return "longline", rng.choice([b"", b"ab\n"]) + line + rng.choice([b"", b"\n", b"\r\n", b"\nzz"])
    return "junk-start", bytes([rng.randint(0, 255) for _ in range(rng.randint(0, 4))]) + body


def lexer_ops(rng, tier):
    """[(harness op, model op, class)] plus the files to create"""
    ops, files = [], {}
    # parseDots: all 1- and 2-character tokens (3 in the thorough tier), permutations of random cells
    for n in ((1, 2) if tier == "quick" else (1, 2, 3)):
        for t in itertools.product(DOTCH + b"g", repeat=n):
            ops.append(("PARSEDOTS " + hx(bytes(t)), None, "dots-exh%d" % n))
    for _ in range(400 if tier == "quick" else 20000):
        cells = []
        for _ in range(rng.randint(1, 4)):
            cell = rng.sample(list(b"123456789abcdef"), rng.randint(0, 6))
            if rng.random() < 0.1:
                cell.append(rng.choice(cell) if cell else 48)
            if rng.random() < 0.1:
                cell = [c - 32 if c >= 97 and rng.random() < .5 else c for c in cell]
            rng.shuffle(cell)
            cells.append(bytes(cell))
        ops.append(("PARSEDOTS " + hx(b"-".join(cells)), None, "dots-perm"))
    # hexValue through \x: every byte value at every digit position, then random digit strings
    for pos in range(4):
        for b in range(1, 256):
            d = bytearray(b"1aF0")
            d[pos] = b
            ops.append(("PARSECHARS " + hx(b"\\x" + bytes(d)), None, "hex-exh"))
    for _ in range(300 if tier == "quick" else 30000):
        ops.append(("PARSECHARS " + hx(b"\\x" + bytes(rng.choice(b"0123456789abcdefABCDEF") for _ in range(4))), None, "hex-rand"))
    # parseChars on generated tokens
    for _ in range(3000 if tier == "quick" else 200000):
        ops.append(("PARSECHARS " + hx(rand_token(rng)), None, "chars-rand"))
    for L in (2040, 2046, 2047, 2048, 2049, 2100):
        for fill in (b"a", b"\\s", "\u00e9".encode(), b"\\x0041", b"\xc3", b"\xe2\x82"):
            t = (fill * (L // len(fill) + 1))[:L]
            ops.append(("PARSECHARS " + hx(t), None, "chars-long"))
            ops.append(("PARSECHARS " + hx(t[:-3] + "\u20ac".encode()), None, "chars-long"))
    # file reading
    for i in range(500 if tier == "quick" else 20000):
        cls, b = rand_file(rng)
        fn = "lex%d.bin" % i
        files[fn] = b
        ops.append(("READLINES " + fn, "MLINES " + hx(b), "lines-" + cls))
        ops.append(("READCHARS " + fn, "MCHARS " + hx(b), "chars-" + cls))
    return ops, files


def run_lexer_diff(v, exe, rng, tier):
    ops, files = lexer_ops(rng, tier)
    d = tempfile.mkdtemp(prefix="c16lex-", dir=common.scratch_root())
    try:
        for fn, b in files.items():
            open(os.path.join(d, fn), "wb").write(b)
        hl = [o[0] for o in ops]
        ml = [o[1] if o[1] else "M" + o[0] for o in ops]
        chunks = [list(range(i, len(hl), common.NCPU)) for i in range(common.NCPU)]

        def runc(idx):
            r = common.run_harness(exe, [hl[i] for i in idx], d, timeout=600)
            return idx, r
        with ThreadPoolExecutor(common.NCPU) as ex:
            hres = list(ex.map(runc, chunks))
        hout = [None] * len(hl)
        faults = []
        for idx, r in hres:
            for k, i in enumerate(idx):
                if k < len(r.lines):
                    hout[i] = r.lines[k]
            if r.fault:
                bad = idx[min(len(r.lines), len(idx) - 1)]
                faults.append((bad, r.fault, r.stderr[-1500:]))

        def runm(idx):
            return idx, common.run_model([ml[i] for i in idx])
        with ThreadPoolExecutor(common.NCPU) as ex:
            mres = list(ex.map(runm, chunks))
        mout = [None] * len(ml)
        for idx, lines in mres:
            for k, i in enumerate(idx):
                if k < len(lines):
                    mout[i] = lines[k]
    finally:
        shutil.rmtree(d, ignore_errors=True)
    dist = {}
    bad = []
    for i, o in enumerate(ops):
        dist[o[2]] = dist.get(o[2], 0) + 1
        if hout[i] is None:
            continue
        v.cov["evaluations"] += 1
        if hout[i] != mout[i]:
            bad.append((o[0][:200], (hout[i] or "")[:300], (mout[i] or "")[:300]))
        elif not hout[i].endswith(" - e=0 w=0") and not hout[i].startswith("LN 0 "):
            v._distinct.add(("lex", o[2], hout[i][:60]))
    for i, f, err in faults:
        frame = f.get("frame", "?").split(":")[-1]
        v.violation("C16:lexer-fault:%s:%s:%s" % (f["kind"], frame, ops[i][2]),
                    "sanitizer fault in a lexer entry point on %s" % ops[i][0][:200],
                    {"script": [ops[i][0]], "file": files.get(ops[i][0].split(" ")[1], b"").hex() if ops[i][0].startswith("READ") else None,
                     "stderr": err})
    v.obligation("correspondence: lexer model = C function by function (%d ops: _lou_getALine, lou_readCharFromFile, _lou_extParseChars, _lou_extParseDots)" % len(ops),
                 not bad and (all(h is not None for h in hout) or bool(faults)),
                 "; ".join("%s C:%s M:%s" % b for b in bad[:5]))
    # oracle on the implementation alone: permuted cells give the same cells (dots_perm on the C side)
    groups = {}
    for i, o in enumerate(ops):
        if o[2] == "dots-perm" and hout[i]:
            tok = common.unhexbytes(o[0].split(" ")[1])
            key = b"-".join(bytes(sorted(c)) for c in tok.split(b"-"))
            groups.setdefault(key, set()).add(hout[i].split(" e=")[0])
    for key, outs in groups.items():
        if len(outs) > 1:
            v.violation("C16:dotsperm:parseDots", "permutations of the cells %r parse differently: %s" % (key, sorted(outs)),
                        {"script": ["PARSEDOTS " + hx(key)]})
    return dist


# ---------------------------------------------------------------- (ii) packaging variants

def fwd_op(lst, mode, u, disp=None):
    cap = 4 * len(u) + 16
    am = (28 if u else 12) | (256 if disp else 0)
    return "FWD %s %d %d %s %d %s - -%s" % (lst, mode, cap, "0" if u else "-", am, common.wide(u), (" " + disp) if disp else "")


def bwd_op(lst, mode, c, disp=None):
    cap = 4 * len(c) + 16
    am = (28 if c else 12) | (256 if disp else 0)
    return "BWD %s %d %d %s %d %s - -%s" % (lst, mode, cap, "0" if c else "-", am, common.wide(c), (" " + disp) if disp else "")


class Job:
    """one table list in all its packagings"""
    def __init__(self, jid, label, kind):
        self.id, self.label, self.kind = jid, label, kind
        self.files = {}        # relative path -> bytes
        self.variants = []     # (variant kind, list string, display list or None)
        self.inputs = []       # ("F"|"B", mode, code units)
        self.out = {}          # variant index -> result lines
        self.base_of = {}      # variant index -> the variant it has to agree with (default: the plain list, 0)
        self.fault = None

    def add_variant(self, vkind, sub, files, members, disp=None):
        for n, b in files.items():
            self.files["%s/%s" % (sub, n)] = b
        self.variants.append((vkind, ",".join("%s/%s" % (sub, m) for m in members), disp))

    def script(self):
        L = []
        for k, (vk, lst, disp) in enumerate(self.variants):
            L.append("CASE %d" % k)
            for d, mode, u in self.inputs:
                L.append(fwd_op(lst, mode, u, disp) if d == "F" else bwd_op(lst, mode, u, disp))
        return L


def canon(line):
    """the fields that must agree between packagings: everything except the NUMBER of messages (they quote
    file names and line numbers, and an include adds an 'Error in included file' line per level): errors are
    compared as none / some, warnings not at all"""
    return re.sub(r" e=[1-9]\d*", " e=+", re.sub(r" w=\d+", "", line))


def build_variants(job, files, members, rng, generated=None):
    """files: {name: bytes} (include closure), members: list members in order"""
    dicts = {n for n, b in files.items() if TF.is_hyph_dict(b)}
    job.add_variant("list", "v0", files, members)
    # wrapper with include lines
    wf = dict(files)
    wname = "c16wrap.ctb"
    wf[wname] = b"".join(b"include %s\n" % m.encode() for m in members)
    job.add_variant("wrapper", "v1", wf, [wname])
    # members concatenated into one file (includes stay)
    if not any(m in dicts for m in members):
        cf = dict(files)
        cname = "c16cat.ctb"
        cf[cname] = b"".join(TF.with_final_lf(files[m]) for m in members)
        job.add_variant("concat", "v2", cf, [cname])
        ff = dict(files)
        ff[wname] = wf[wname]
        ff["c16flat.ctb"] = TF.flatten(wname, ff)
        job.add_variant("flatten", "v3", ff, ["c16flat.ctb"])
    job.add_variant("crlf", "v4", {n: TF.v_crlf(b) for n, b in files.items()}, members)
    job.add_variant("blank", "v5", {n: (b if n in dicts else TF.v_blank(b, rng)) for n, b in files.items()}, members)
    asc = {n for n, b in files.items() if TF.is_ascii(b) and len(b) != 1}
    if asc:
        job.add_variant("utf16le", "v6", {n: (TF.v_utf16(b, True) if n in asc else b) for n, b in files.items()}, members)
        job.add_variant("utf16be", "v7", {n: (TF.v_utf16(b, False) if n in asc else b) for n, b in files.items()}, members)
    if generated is None:
        job.add_variant("respell", "v8", {n: (b if n in dicts else TF.v_respell(b, rng)) for n, b in files.items()}, members)
        job.add_variant("dotsperm", "v9", {n: (b if n in dicts else TF.v_dotsperm(b, rng)) for n, b in files.items()}, members)
    else:
        rs, dp = generated
        job.add_variant("respell", "v8", rs, members)
        job.add_variant("dotsperm", "v9", dp, members)
    # the separate display/translation path of compileTable: translation list and display list are different
    # strings naming copies of the same files (neither is in the cache yet)
    for n, b in files.items():
        job.files["v11/%s" % n] = b
    job.add_variant("sepdisplay", "v10", files, members, disp=",".join("v11/%s" % m for m in members))
    # the first member on its own, AFTER the whole list was compiled in the same process: the one-element list (a string
    # prefix of the list compiled first) and a wrapper that includes that member are one table, and not the table of the
    # whole list (a table looked up by a prefix of its name would answer with the wrong one)
    if len(members) > 1 and members[0] not in dicts:
        k = len(job.variants)
        job.add_variant("head-list", "v0", {}, members[:1])
        hf = dict(files)
        hf["c16head.ctb"] = b"include %s\n" % members[0].encode()
        job.add_variant("head-wrapper", "v12", hf, ["c16head.ctb"])
        job.base_of[k] = k
        job.base_of[k + 1] = k


# ---- generated tables: structured re-spelling

def alt_char_str(c, rng):
    if 0x21 <= c <= 0x7e and chr(c) not in "\\\"#":
        return ("\\x%04x" % c) if rng.random() < 0.6 else chr(c)
    if c >= 0x80 and not (0xd800 <= c <= 0xdfff) and rng.random() < 0.8:
        return chr(c)
    return rng.choice(["\\x%04x", "\\x%04X"]) % c


def perm_cells_str(cells, rng):
    out = []
    for c in cells:
        s = list(G.dots_str(c))
        rng.shuffle(s)
        out.append("".join(s))
    return "-".join(out)


def rule_text(r, rng, respell=False, dotsperm=False):
    p = (r.prefix + " ") if r.prefix else ""
    if r.raw is not None:
        t = r.raw
        if dotsperm:
            parts = t.split(" ")
            if TF.DOTS_RE.match(parts[-1].encode()):
                parts[-1] = TF.permute_dots_token(parts[-1].encode(), rng).decode()
            t = " ".join(parts)
        return p + t
    if r.test is not None:
        test, action = r.test, r.action
        if dotsperm:
            f = lambda m: "@" + TF.permute_dots_token(m.group(1).encode(), rng).decode()
            test, action = re.sub(r"@([0-9a-f-]+)", f, test), re.sub(r"@([0-9a-f-]+)", f, action)
        if respell:
            g = lambda m: '"' + "".join(alt_char_str(ord(ch), rng) for ch in m.group(1)) + '"'
            test, action = re.sub(r'"([^"\\]*)"', g, test), re.sub(r'"([^"\\]*)"', g, action)
        return "%s%s %s %s" % (p, r.opcode, test, action)
    d = "=" if r.cells is None else (perm_cells_str(r.cells, rng) if dotsperm else G.cells_str(r.cells))
    cs = "".join(alt_char_str(c, rng) for c in r.chars) if respell else G.chars_str(r.chars)
    return "%s%s %s %s" % (p, r.opcode, cs, d)


def conflict_table(rng):
    """entries whose effect depends on their ORDER across the files of a list: a character that has both a definition and
    a `base` rule with incompatible cells (the entry that comes first wins), a character defined twice, a rule defined
    twice.  Returns (Tbl, index of the later conflicting entry)."""
    tb = G.Tbl()
    G.gen_alphabet(rng, tb, nletters=4, upper=False, digits=False, punct=False)
    lows = [c for c in tb.chars() if c != 0x20 and tb.attrs.get(c) in ("lowercase", "letter")]
    lo = rng.choice(lows)
    up = 0x41 + (lo % 26) if not (0x41 <= lo <= 0x5a) else 0x5a
    while up in tb.charcell:
        up += 1
    other = rng.choice([c for c in lows if c != lo] or lows)
    cell = rng.choice([x for x in range(1, 64) if x != tb.charcell[lo]])
    first = G.Rule("uppercase", [up], [cell])
    second = G.Rule(None, raw="base uppercase %s %s" % (G.char_str(up), G.char_str(lo)))
    if rng.random() < 0.5:
        first, second = second, first
    filler = [G.Rule("always", [lo, other], [rng.randint(1, 63), rng.randint(1, 63)]),
              G.Rule("sign", [0x2a], [rng.randint(1, 63)]), G.Rule("always", [other, lo], [rng.randint(1, 63)])]
    rng.shuffle(filler)
    k = rng.randint(0, len(filler))
    tb.rules += [first] + filler[:k] + [second] + filler[k:]
    tb.charcell[up] = cell
    tb.attrs[up] = "uppercase"
    tb.upper[lo] = up
    return tb, tb.rules.index(second), [[up, other], [lo, other], [up, up, other, lo], [other, up]]


def gen_job(jid, rng, kind):
    extra_inputs = []
    forced_cut = None
    repeat = False
    if kind == "conflict":
        tb, forced_cut, extra_inputs = conflict_table(rng)
    elif kind == "repeat":
        # a file that occurs twice in the list (a,b,a), with entries in between for which the LAST definition wins: the
        # second occurrence has to be compiled again, as the concatenated file shows (seeded change C16-D)
        tb = G.gen_table(rng, "f0")
        repeat = True
        h = rng.randint(1, max(1, len(tb.rules) - 1))
        pre = [G.Rule(None, raw="numsign 3456"), G.Rule(None, raw="undefined 26")]
        mid = [G.Rule(None, raw="numsign 56"), G.Rule(None, raw="undefined 346-1")]
        tb.rules = pre + tb.rules[:h] + mid + tb.rules[h:]
        forced_cut = len(pre) + h
        digs = [c for c in tb.chars() if tb.attrs.get(c) in ("digit", "litdigit")] or [0x31]
        extra_inputs = [[digs[0]], [0x7e, digs[0], 0x20, 0x7e], [0x20, digs[-1], digs[0]], [0x3b1]]
    else:
        tb = G.gen_table(rng, kind)
    if rng.random() < 0.3:
        # the last character of the 16-bit range and its neighbour, written literally in one spelling and as escapes in the other
        for c in (0xffff, 0xfffe):
            if c not in tb.charcell:
                cell = rng.randint(64, 255)
                tb.rules.append(G.Rule("sign", [c], [cell]))
                tb.charcell[c] = cell
                tb.attrs[c] = "sign"
    job = Job(jid, "generated-" + kind, "generated")
    rules = tb.rules
    nparts = rng.randint(1, 3)
    cuts = sorted(rng.sample(range(1, len(rules)), min(nparts - 1, max(len(rules) - 1, 0)))) if len(rules) > 1 else []
    if forced_cut is not None:
        # the later of the two conflicting entries is the FIRST line of a later file
        cuts = sorted(set([forced_cut] + [c for c in cuts if c < forced_cut][:1]))
    bounds = [0] + cuts + [len(rules)]
    members = ["g%s-%d.ctb" % (jid, k) for k in range(len(bounds) - 1)]

    def render(**kw):
        return {m: ("\n".join(rule_text(r, rng, **kw) for r in rules[a:b]) + "\n").encode("utf-8")
                for m, a, b in zip(members, bounds, bounds[1:])}
    files = render()
    lmembers = (members + members[:1]) if repeat else members
    build_variants(job, files, lmembers, rng, generated=(render(respell=True), render(dotsperm=True)))
    for u in extra_inputs:
        job.inputs.append(("F", 4, u))
    for _ in range(8):
        job.inputs.append(("F", 4, G.rand_text(rng, tb, 10)))
    for _ in range(5):
        job.inputs.append(("F", 0, G.rand_text(rng, tb, 10)))
    for _ in range(7):
        job.inputs.append(("B", 4, G.rand_cells(rng, tb, 10)))
    job.text = "\n".join("## %s\n%s" % (m, files[m].decode("utf-8", "replace")) for m in members)
    return job


def shipped_job(jid, names, rng):
    files = TF.closure(names)
    if files is None:
        return None
    job = Job(jid, ",".join(names), "shipped")
    build_variants(job, files, names, rng)
    tw, bw = corpus.words()
    for _ in range(7):
        job.inputs.append(("F", 0, corpus.rand_input(rng, 20)))
    for _ in range(6):
        job.inputs.append(("F", 4, corpus.rand_input(rng, 20)))
    for _ in range(5):
        job.inputs.append(("B", 4, corpus.rand_braille(rng, 16, dots_io=True)))
    for _ in range(3):
        job.inputs.append(("B", 0, [rng.choice(b"abcdefghijklmnopqrstuvwxyz ,.;:!?'\"-0123456789") for _ in range(rng.randint(1, 12))]))
    return job


def run_job(exe, job):
    d = tempfile.mkdtemp(prefix="c16-", dir=common.scratch_root())
    try:
        for rel, b in job.files.items():
            p = os.path.join(d, rel)
            os.makedirs(os.path.dirname(p), exist_ok=True)
            with open(p, "wb") as f:
                f.write(b)
        lines = ["HOOK budget 3000000"] + job.script()
        r = common.run_harness(exe, lines, d, timeout=900)
    finally:
        shutil.rmtree(d, ignore_errors=True)
    cur = None
    for l in r.lines[1:]:
        if l.startswith("CASE "):
            cur = int(l[5:])
            job.out[cur] = []
        elif cur is not None:
            job.out[cur].append(l)
    if r.fault:
        job.fault = dict(r.fault, variant=cur, stderr_tail=r.stderr[-1500:])
    return job


def run(tier):
    v = common.Verdict("C16", tier)
    rng = random.Random(common.seed() * 1000003 + 16)
    common.lean_obligations(v, THEOREMS)
    try:
        exe = common.build_harness()
        v.obligation("harness builds from /repo working tree (hooks on, ASan+UBSan)", True)
    except common.BuildError as e:
        v.obligation("harness builds from /repo working tree (hooks on, ASan+UBSan)", False, str(e)[-2000:])
        return v.finish()
    lexdist = run_lexer_diff(v, exe, rng, tier)

    lists = TF.harvest_lists()
    v.obligation("harvest: the yaml corpora name table lists that resolve in /repo/tables", len(lists) >= 50, "%d lists" % len(lists))
    if tier == "quick":
        multi = [l for l in lists if len(l) > 1]
        single = [l for l in lists if len(l) == 1]
        rng.shuffle(single)
        # big tables cost seconds per variant under ASan: the quick tier takes the multi-member lists and a sample
        single = [l for l in single if sum(len(b) for b in (TF.closure(l) or {}).values()) < 700000][:45]
        lists = multi + single
    jobs = []
    for i, names in enumerate(lists):
        j = shipped_job("s%d" % i, names, rng)
        if j:
            jobs.append(j)
    ng = 150 if tier == "quick" else 3000
    for i in range(ng):
        jobs.append(gen_job("%d" % i, rng, rng.choice(["f0", "multipass", "mixed", "conflict", "repeat"])))
    with ThreadPoolExecutor(common.NCPU) as ex:
        list(ex.map(lambda j: run_job(exe, j), jobs))
    dist = {"lists_shipped": sum(1 for j in jobs if j.kind == "shipped"), "tables_generated": ng, "variants": {},
            "calls": 0, "calls_with_output": 0, "lexer_ops": lexdist, "failed_to_compile_baseline": 0}
    for j in jobs:
        base = j.out.get(0)
        if j.fault:
            vk = j.variants[j.fault["variant"]][0] if j.fault.get("variant") is not None else "?"
            if j.fault["kind"] in ("tick-budget", "timeout"):
                v.notes.append("termination fault during C16 run (decided by C03): %s %s" % (j.label, vk))
            elif j.fault.get("variant") and base and len(base) == len(j.inputs):
                # the plain list went through every call; the same table in another packaging ends the process
                v.violation("C16:fault:%s:%s" % (vk, j.fault["frame"]),
                            "packaging variant '%s' of %s ends the process (%s in %s) where the plain list of files answered every "
                            "call" % (vk, j.label, j.fault["kind"], j.fault["frame"]),
                            {"files": {p: b.hex() for p, b in j.files.items()} if sum(len(b) for b in j.files.values()) < 300000
                             else "shipped:" + j.label, "script": j.script(), "stderr_tail": j.fault.get("stderr_tail", "")[-1200:]})
            else:
                v.notes.append("memory fault during C16 run (decided by C01/C02/C13): %s %s %s %s" % (j.label, vk, j.fault["kind"], j.fault["frame"]))
        if not base or len(base) != len(j.inputs):
            continue
        ok_base = [common.parse_R(l) for l in base]
        if all(R is None or R["ret"] == 0 for R in ok_base):
            dist["failed_to_compile_baseline"] += 1
        for k, (vk, lst, disp) in enumerate(j.variants):
            bk = j.base_of.get(k, 0)
            if k == bk:
                continue
            o = j.out.get(k)
            base = j.out.get(bk)
            if o is None or len(o) != len(j.inputs) or base is None or len(base) != len(j.inputs):
                continue
            dist["variants"][vk] = dist["variants"].get(vk, 0) + 1
            for (d, mode, u), lb, lv in zip(j.inputs, base, o):
                dist["calls"] += 1
                v.cov["evaluations"] += 1
                Rb = common.parse_R(lb)
                if Rb and Rb["ret"] and Rb["out"]:
                    dist["calls_with_output"] += 1
                    v._distinct.add((j.id, vk, d, mode, tuple(u)))
                if canon(lb) != canon(lv):
                    tag = j.label if j.kind == "shipped" else j.label
                    v.violation("C16:%s:%s%d:%s" % (vk, "FWD" if d == "F" else "BWD", mode, tag),
                                "packaging variant '%s' of %s translates differently: list-of-files gives %s, variant gives %s"
                                % (vk, j.label, canon(lb)[:160], canon(lv)[:160]),
                                {"files": {p: b.hex() for p, b in j.files.items() if p.startswith(("v0/", lst.split("/")[0] + "/"))}
                                 if sum(len(b) for b in j.files.values()) < 300000 else "shipped:" + j.label,
                                 "script": ([fwd_op(j.variants[0][1], mode, u)] if bk else []) +
                                           [fwd_op(j.variants[bk][1], mode, u) if d == "F" else bwd_op(j.variants[bk][1], mode, u),
                                            fwd_op(lst, mode, u, disp) if d == "F" else bwd_op(lst, mode, u, disp)],
                                 "variant": vk, "table_text": getattr(j, "text", "")})
                    break
        if len(v.cov["samples"]) < 4 and j.kind == "generated":
            v.sample({"table": j.text[:400], "variants": [x[0] for x in j.variants], "first_result": j.out[0][0][:120]})
    v.cov["distribution"] = dist
    v.cov["rule"] = ("(i) lexer: every op goes through the C entry point and the Lean model, lines compared byte for byte; dot tokens "
                     "exhaustive to length %d over [0-9a-fA-F-g]; every byte value at each \\x digit position; (ii) packaging: %d "
                     "table lists harvested from the yaml corpora%s + %d generated tables (f0/multipass/mixed, entries split over "
                     "1-3 files), each in up to 11 packagings, %d inputs per list translated with FWD mode 0, FWD dotsIO, BWD "
                     "dotsIO, BWD mode 0 with outputPos/inputPos/cursor; all result fields except the warning count must agree "
                     "with the plain comma list; non-trivial = a call that produced output; distinct by (list, variant, call)"
                     % (2 if tier == "quick" else 3, dist["lists_shipped"], " (multi-member lists + sample of small ones)" if tier == "quick" else "",
                        ng, len(jobs[0].inputs) if jobs else 0))
    return v.finish()
