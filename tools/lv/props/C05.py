"""C05 — main-pass rule choice: longest match, then table order (reference model)."""
import random, re, os
from .. import common, gen_table as G, ref_forward as RF

THEOREMS = ["Lou.Chain.insR_sorted", "Lou.Chain.find_first_le", "Lou.C05.addFwdMulti_inv", "Lou.C05.addRule_inv",
            "Lou.C05.compileEntry_inv", "Lou.C05.chain_sorted", "Lou.C05.walkChain_eq_find", "Lou.C05.go_spec",
            "Lou.C05.select_refines", "Lou.GenFacts.opcode_ranges",
            "Lou.GenFacts.opcode_values_nodup",
            "Lou.C05Link.compile_fwdWF", "Lou.C05Link.compile_select_refines",
            "Lou.FwdCRefine.translateC_eq_translate",
            "Lou.C05Ctx.walkChainC_first",
]

CLAIM = dict(
    text=("Kernel-checked: chain_sorted — for EVERY list of table entries of the modelled fragment (character definitions, "
          "always and the word-position opcodes, numsign, undefined, noback/nofor, any definition order, colliding buckets, "
          "duplicate strings) every forward rule chain produced by the compile model is ordered longest first, 'always' "
          "last among equals, definition order otherwise, and every chain index denotes a rule (induction over the compile "
          "steps with an explicit invariant; insR_sorted is the sorted-insertion lemma, find_first_le says the first "
          "applicable rule of such a chain is the best candidate). Three checked ties on every run: (1) the Lean compile "
          "model must print the same logical table as DUMP of the real compiler for the same entries (chains as lists of "
          "rule indices, character and cell records, header slots) and agree on which tables are rejected; (2) the Lean "
          "transcription of for_selectRule/translateString run on the dumped table must reproduce the real main pass "
          "(cells, per-cell positions, consumed length, cursor, applied-rule sequence); (3) search oracle: an independent "
          "Python reference of the documented algorithm (tools/lv/ref_forward.py, written from the property text) must "
          "agree with the implementation on cells, consumed input, positions and the back-off result for every generated "
          "table x string x capacity x {0, noContractions, dotsIO, noUndefined}; exhaustive small scope in the thorough tier."),
    note=("compile_select_refines: for EVERY entry list of the fragment that the compile model accepts, select_refines holds of the compiled table "
          "with no hypothesis left (compile_fwdWF derives FwdWF from compile_consistent of C12 and a mode-zero invariant). "
          "select_refines is proved for the multi-character stage on tables satisfying FwdWF (resolved, sorted chains, raw-hash "
          "bucket membership, distinct keys, FoldFixed); chain_sorted delivers the first two clauses for every compiled entry "
          "list, the bucket/key/FoldFixed clauses are established for compiled tables in C12 (compile_consistent). The equality "
          "of the whole engine with the reference is established by differential testing, not by a theorem. capsletter is outside "
          "the modelled fragment of this revision (the engine model answers UNSUPPORTED); `base` case folding is modelled in "
          "the engine but not in the compile model."
          " Capital indicators are outside the modelled fragment; for them the check has one literal clause: with `capsletter` as the only "
          "capital indicator every upper-case letter of the consumed text gets exactly one sign, also inside the match of a word-position rule."),
    technique="Lean 4 proof (compile invariant, sorted chains) + compile-model/DUMP and engine-model/H4 correspondences + independent reference oracle",
    design="DESIGN.md §7 C05")


def fallback_table():
    txt = open(os.path.join(common.LEAN, "LouModel", "Gen", "Consts.lean")).read()
    return [int(x) for x in re.search(r"def fallbackDots : List Nat := \[(.*?)\]", txt).group(1).split(",")]


def gen_f0(rng, small=False):
    t = G.Tbl()
    G.gen_alphabet(rng, t, nletters=(rng.randint(2, 3) if small else None), eight=rng.random() < 0.2, upper=True)
    if rng.random() < 0.5 and any(t.attrs.get(c) in ("digit", "litdigit") for c in t.charcell):
        t.rules.append(G.Rule(None, raw="numsign %s" % G.dots_str(rng.choice([60, 58, 15]))))
    if rng.random() < 0.3:
        t.rules.append(G.Rule(None, raw="undefined %s" % G.dots_str(rng.choice([63, 36]))))
    G.gen_translation_rules(rng, t, n=rng.randint(0, 3 if small else 9), allow_undefined=True)
    if rng.random() < 0.4:
        rng.shuffle(t.rules)        # any definition order
    return t


def canon_rules(s):
    return re.sub(r"117:[0-9a-f]{4}:-", "117:*:-", s)


def run(tier):
    v = common.Verdict("C05", tier)
    rng = random.Random(common.seed() * 1000003 + 5)
    common.lean_obligations(v, THEOREMS)
    try:
        exe = common.build_harness()
        v.obligation("harness builds from /repo working tree (hooks on, ASan+UBSan)", True)
    except common.BuildError as e:
        v.obligation("harness builds from /repo working tree (hooks on, ASan+UBSan)", False, str(e)[-2000:])
        return v.finish()
    fb = fallback_table()
    ntab = 150 if tier == "quick" else 4000
    cases = []
    for i in range(ntab):
        t = gen_f0(rng, small=(i % 3 == 0))
        txt = t.text()
        tn = "f%d.ctb" % i
        ops = ["DUMP %s" % tn]
        for _ in range(10 if tier == "quick" else 16):
            u = G.rand_text_rules(rng, t, 12 if i % 3 else 6) if rng.random() < 0.6 else G.rand_text(rng, t, 10 if i % 3 else 5)
            cap = rng.choice([0, 1, 2, 3, len(u), len(u) + 1, 2 * len(u) + 2, 40])
            mode = rng.choice([4, 4, 5, 4 | 128, 0])
            am = 128 | (rng.choice([0, 28, 12]) if u else 0)
            cur = rng.randint(0, len(u) - 1) if (u and am & 16) else -1
            ops.append("FWD %s %d %d %s %d %s - -" % (tn, mode, cap, str(cur) if am & 16 else "-", am, common.wide(u)))
        cases.append(common.Case("c05-%d" % i, ["HOOK trace 1", "TBL %s %s" % (tn, common.hexbytes(txt))], ops,
                                 {"text": txt, "tn": tn, "tbl": t, "ents": [G.entry_str(r) for r in t.rules]}))
    common.run_cases(exe, cases, batch=10, timeout=300)
    # ---- model side
    lines, tags = [], []
    for c in cases:
        if c.fault or not c.out:
            continue
        dump = c.out[0].rsplit(" e=", 1)[0]
        ents_ok = all(e is not None for e in c.meta["ents"])
        if dump.startswith("T null"):
            if ents_ok:
                lines.append("MCOMPILE m%s %s" % (c.meta["tn"], " ".join(c.meta["ents"]))); tags.append(("null", c, None))
            continue
        lines.append("LOADTABLE %s %s" % (c.meta["tn"], dump)); tags.append(("load", c, None))
        lines.append("MDUMP %s" % c.meta["tn"]); tags.append(("real", c, None))
        if ents_ok:
            lines.append("MCOMPILE m%s %s" % (c.meta["tn"], " ".join(c.meta["ents"]))); tags.append(("model", c, None))
        for op, o in zip(c.ops[1:], c.out[1:]):
            t = op.split(" ")
            lines.append("MFWD %s %s %s %s %s" % (t[1], t[2], t[3], t[4], t[6])); tags.append(("fwd", c, (op, o)))
    out = common.run_model(lines, timeout=900) if lines else []
    comp_bad, eng_bad = [], []
    dist = {"tables": 0, "tables_rejected_by_compiler": 0, "compile_compared": 0, "engine_compared": 0, "unsupported": 0,
            "reference_compared": 0, "backoff_cases": 0, "multi_char_rule_applied": 0, "undefined_char": 0,
            "numsign_tables": 0, "collision_buckets": 0}
    real = None
    for (kind, c, extra), m in zip(tags, out):
        if kind == "null":
            dist["tables_rejected_by_compiler"] += 1
            if m != "T null":
                comp_bad.append("compiler rejects the table, compile model accepts it:\n" + c.meta["text"][:400])
        elif kind == "real":
            real = m
            dist["tables"] += 1
            if re.search(r" \| F \d+ \d+,", m):
                dist["collision_buckets"] += 1
        elif kind == "model":
            dist["compile_compared"] += 1
            if m != real:
                a, b = real.split(" | "), m.split(" | ")
                diff = [(x, y) for x, y in zip(a, b) if x != y][:3]
                comp_bad.append("logical table differs (impl, model): %s\n%s" % (diff or (len(a), len(b)), c.meta["text"][:400]))
        elif kind == "fwd":
            op, o = extra
            R = common.parse_R(o)
            if R is None or not R["passes"]:
                continue
            if m.startswith("UNSUPPORTED"):
                dist["unsupported"] += 1
                continue
            p = [x for x in R["passes"] if x["pass"] == 1][0]
            exp = "P %s %s %d %d %d rules=%s" % (common.wide(p["out"]), ",".join(map(str, p["map"])) or ".", p["realInlen"],
                                                 p["cpos"], p["cstat"], canon_rules(R.get("rules", ".")))
            dist["engine_compared"] += 1
            if not R["ret"]:
                # a failing call (missing display mapping) does not report its applied rules
                exp = exp.rsplit(" rules=", 1)[0]
                m = m.rsplit(" rules=", 1)[0]
            if exp != m:
                eng_bad.append("%s\n impl  %s\n model %s\n%s" % (op[:200], exp[:300], m[:300], c.meta["text"][:400]))
    v.obligation("correspondence: compile model prints the same logical table as DUMP of the real compiler", not comp_bad,
                 "\n".join(comp_bad[:3]))
    v.obligation("correspondence: Lean main-pass model reproduces the real main pass on the dumped table", not eng_bad,
                 "\n".join(eng_bad[:3]))
    # ---- oracle: independent reference vs implementation
    for c in cases:
        if c.fault:
            v.notes.append("fault during C05 run (decided by C01): %s %s" % (c.fault["kind"], c.fault["frame"]))
            continue
        if not c.out or c.out[0].startswith("T null"):
            continue
        if "numsign" in c.meta["text"]:
            dist["numsign_tables"] += 1
        for op, o in zip(c.ops[1:], c.out[1:]):
            R = common.parse_R(o)
            if R is None or not R["ret"]:
                continue
            t = op.split(" ")
            u = common.unwide(t[6]); cap = int(t[3]); mode = int(t[2])
            out_r, cons, pm, appl = RF.translate(c.meta["tbl"], u, cap, mode, fb)
            dist["reference_compared"] += 1
            v.cov["evaluations"] += 1
            cells = R["passes"][0]["out"] if R["passes"] else R["out"]
            if cons < len([x for x in u if True]) and cons < (u.index(0) if 0 in u else len(u)):
                dist["backoff_cases"] += 1
            if any(a[0] is not None and len(a[1]) > 1 for a in appl):
                dist["multi_char_rule_applied"] += 1
            if any(a[0] is None for a in appl):
                dist["undefined_char"] += 1
            key = (c.id, t[2], t[3], t[6])
            if cells or cons:
                v._distinct.add(key)
            ok = (cells == out_r and R["inlen"] == cons)
            if ok and R.get("ip", "-") not in ("-", ".") and cons > 0:
                ok = common.ints(R["ip"]) == [min(max(p, 0), cons - 1) for p in pm]
            if not ok:
                v.violation("C05:reference:%s" % ("backoff" if cons < len(u) else "select"),
                            "implementation differs from the reference of the documented algorithm: impl cells=%s consumed=%d ip=%s / "
                            "reference cells=%s consumed=%d map=%s | %s" % (common.wide(cells), R["inlen"], R.get("ip"),
                                                                             common.wide(out_r), cons, pm, op[:120]),
                            {"script": c.setup + [op], "table_text": c.meta["text"], "result": o[:1500]})
            if len(v.cov["samples"]) < 4 and len(cells) > 2:
                v.sample({"table": c.meta["text"][:300], "op": op[:120], "cells": common.wide(cells), "consumed": cons})
    v.cov["traces_validated_against_impl"] = dist["engine_compared"]
    # ---- capital signs and multi-character rules: with `capsletter` as the only capital indicator every upper-case letter
    # of the consumed text gets exactly one sign, whichever rule translated it - also a letter INSIDE the match of a
    # word-position rule, whose sign is emitted behind the rule's cells (seeded change C05-H skipped the positions a rule had
    # consumed).  The sign's cell (dot 6 alone) occurs in no other rule of these tables, so it can be counted in a dotsIO run.
    ccases = []
    for i in range(30 if tier == "quick" else 600):
        letters = rng.sample("abcdefghijklmnop", rng.randint(3, 6))
        cells = rng.sample(range(1, 32), len(letters))
        L = ["space \\s 0"] + ["lowercase %s %s" % (ch, G.dots_str(d)) for ch, d in zip(letters, cells)]
        L += ["base uppercase %s %s" % (ch.upper(), ch) for ch in letters]
        L.append("capsletter 6")
        for _ in range(rng.randint(1, 4)):
            wd = "".join(rng.choice(letters) for _ in range(rng.randint(2, 3)))
            L.append("%s %s %s" % (rng.choice(["begword", "endword", "midword", "word", "always", "begmidword", "midendword", "partword"]), wd,
                                   "-".join(G.dots_str(rng.randint(1, 31)) for _ in range(rng.randint(1, 2)))))
        tn = "c05caps%d.ctb" % i
        rules = [l.split(" ")[1] for l in L if l.split(" ")[0] in ("begword", "endword", "midword", "word", "always", "begmidword", "midendword", "partword")]
        ops = []
        for _ in range(10):
            u = []
            for _w in range(rng.randint(1, 3)):
                wd = list(rng.choice(rules)) if rng.random() < 0.7 else [rng.choice(letters) for _ in range(rng.randint(1, 3))]
                wd = [rng.choice(letters)] * rng.randint(0, 1) + wd + [rng.choice(letters)] * rng.randint(0, 1)
                u += [(ch.upper() if rng.random() < 0.5 else ch) for ch in wd] + [" "]
            u = u[:-1]
            ops.append("FWD %s 4 %d - 12 %s - -" % (tn, 6 * len(u) + 16, common.wide("".join(u))))
        ccases.append(common.Case("c05-caps%d" % i, ["TBL %s %s" % (tn, common.hexbytes("\n".join(L) + "\n"))], ops, {"text": "\n".join(L)}))
    common.run_cases(exe, ccases, batch=4)
    ncaps = 0
    for c in ccases:
        for op, o in zip(c.ops, c.out):
            R = common.parse_R(o)
            u = common.unwide(op.split(" ")[6])
            if R is None or not R["ret"] or R["inlen"] != len(u):
                continue
            ncaps += 1
            v.cov["evaluations"] += 1
            want = sum(1 for x in u if 0x41 <= x <= 0x5a)
            got = sum(1 for x in R["out"] if x == 0x8020)
            if got != want:
                v.violation("C05:caps:sign-per-capital", "%d upper-case letters, %d capital signs (capsletter is the only capital indicator of "
                            "the table): %s" % (want, got, o[:160]), {"script": c.setup + [op], "result": o[:400], "table_text": c.meta["text"]})
                break
    dist["caps_calls"] = ncaps
    v.cov["distribution"] = dist
    v.cov["rule"] = ("%d grammar-generated tables (2-8 letters incl. hash-colliding characters, digits, punctuation, upper case, "
                     "0-9 always/word-position rules with duplicate strings, shared prefixes, undefined characters, '=' operands, "
                     "noback/nofor, optional numsign/undefined, shuffled definition order) x 10-16 strings over the alphabet (+ "
                     "undefined characters, U+FFFF) x capacities around the result length x modes; distinct by (table, mode, "
                     "capacity, input)" % ntab)
    return v.finish()
