"""C01 — forward translation never accesses memory outside its buffers."""
import random
from .. import common, corpus, suite_translate as st

THEOREMS = [
    "Lou.Alloc.request_capacity", "Lou.Alloc.run_inv", "Lou.Alloc.alloc_capacity", "Lou.Alloc.reported_le_alloc",
    "Lou.C01.fwdRun_hinv", "Lou.C01.fwdPassAccesses_ok", "Lou.C01.driver_fwd_safe",
    "Lou.Contract.fwdRun_inv",
            "Lou.FwdOK.translate_contract", "Lou.ModelEngine.modelEngine_ok", "Lou.ModelEngine.model_driver_fwd_safe",
            "Lou.ModelEngine.whole_call_fwd_safe", "Lou.ModelEngine.engineFor_ok", "Lou.FwdCOK.translateC_contract",
]

CLAIM = dict(
    text=("Kernel-checked: (1) alloc_capacity — after ANY history of scratch requests and lou_free calls, with or without "
          "the exact-size hook, _lou_allocMem hands out a live buffer of at least need+4 elements (state-machine model "
          "with a ghost 'elements behind the pointer' field and the invariant pointer/size agreement); (2) driver_fwd_safe "
          "— for every engine satisfying the contract EngineOK and all valid arguments, every access _lou_translate "
          "performs itself (typebuf, posMapping1-3 incl. the composition loop, destSpacing, caller arrays at exactly "
          "their documented sizes, cursor reads) is in range. The proof attempt exposed two out-of-range accesses of "
          "the original tree (F4, F14), confirmed under ASan and repaired. Ties: H5 scratch log compared with the "
          "allocator model on the same request history (incl. lou_free and exact mode); H4 trace validation of the "
          "driver; search under ASan+UBSan with exact-size caller arrays and exact-size scratch buffers (H1) over "
          "shipped tables x inputs (incl. >1024, inlen>outlen, NUL, U+FFFF) x all valid mode combinations x cursor "
          "positions x capacities x call histories."),
    note=("Layer B engines as the engine of Layer A (LouProofs/ModelEngine.lean): the F0 main-pass model (translate_contract) and the multipass stage "
          "model (fwdStage_contract) satisfy EngineOK for every table, so model_driver_fwd_safe states driver safety with NO hypothesis on the engines "
          "for the modelled fragments; with the main pass extended by context rules (FwdCOK.translateC_contract, engineFor_ok) the same holds for "
          "every call the whole-call model covers (whole_call_fwd_safe), and that model's complete result is compared with the implementation "
          "on composite generated tables under exact-size buffers (MCALL). "
          "The driver's index expressions (LouModel/Access.lean) are transcribed by hand. The engines' own accesses "
          "(rule selection, emphasis resolver, compbrl, swap/group, repword, match, pass interpreters) are NOT proved; "
          "they are observed under the sanitizers only. Use-after-free across arena relocation is a sanitizer matter."),
    technique="Lean 4 proof (allocator state machine + driver access obligations) + H5/H4 correspondence + sanitizer search",
    design="DESIGN.md §7 C01")

VALID_MODE_BITS = [1, 2, 4, 32, 64, 128, 256]


def rand_mode(rng):
    m = 0
    for b in VALID_MODE_BITS:
        if rng.random() < 0.25:
            m |= b
    return m


def fault_sig(f, op=""):
    if f["kind"] == "ubsan" and f["frame"].endswith(":addRule") and "out of bounds" in f.get("detail", ""):
        # the declared bound of TranslationTableRule.charsdots (finding F18): identified by the table being compiled
        import os
        tbl = os.path.basename(op.split(" ")[1].split(",")[0]) if len(op.split(" ")) > 1 else "?"
        return "C01:ubsan:addRule:charsdots-bound:%s" % tbl
    return "C01:%s:%s:%s" % (f["kind"], f["frame"], f.get("detail", "")[:40])


def alloc_ops_from(case):
    """the ALLOC model line for a whole case: A records in order, F for FREE ops"""
    toks = []
    expected = []
    exact = 0
    for op, out in zip(case.ops, case.out):
        if op.startswith("HOOK exact"):
            exact = int(op.split()[2])
        elif op == "FREE":
            toks.append("F")
        elif out.startswith("R "):
            R = common.parse_R(out)
            for (b, i, s, d, c) in R["allocs"]:
                toks += [str(exact), str(b), str(i), str(s), str(d)]
                expected.append(str(c))
    return "ALLOC " + " ".join(toks), "AL " + " ".join(expected)


def run(tier):
    v = common.Verdict("C01", tier)
    rng = random.Random(common.seed() * 1000003 + 1)
    common.lean_obligations(v, THEOREMS)
    try:
        exe = common.build_harness()
        v.obligation("harness builds from /repo working tree (hooks on, ASan+UBSan)", True)
    except common.BuildError as e:
        v.obligation("harness builds from /repo working tree (hooks on, ASan+UBSan)", False, str(e)[-2000:])
        return v.finish()
    tables = corpus.quick_tables() if tier == "quick" else corpus.all_tables()
    n = 30 if tier == "quick" else 120
    cases = []
    # (a) exact caller arrays + exact scratch, short inputs, every mode combination, cursors
    for ti, t in enumerate(tables):
        ops = []
        for _ in range(n):
            u = corpus.rand_input(rng, 20)
            am = rng.choice([31, 31, 28, 16, 0, 20, 29, 30, 4, 8])
            ops.append(st.gen_fwd_op(rng, t, inp=u, mode=rand_mode(rng), argmask=am))
        cases.append(common.Case("c01-x%d" % ti, ["HOOK trace 1", "HOOK exact 1"], ops, {"table": t, "kind": "exact"}))
    # (b) long inputs, inlen > outlen, > 1024 / > 1028, default scratch sizing
    for ti, t in enumerate(tables[: (12 if tier == "quick" else 80)]):
        ops = []
        for L in ([1030, 3000] if tier == "quick" else [1023, 1024, 1025, 1028, 1029, 1033, 2100, 3000, 5000]):
            base = corpus.rand_input(rng, 24) or [97]
            u = (base * (L // len(base) + 1))[:L]
            for cap in (10, L // 2, L + 5):
                ops.append(st.gen_fwd_op(rng, t, inp=u, mode=rng.choice([0, 4, 1]), cap=cap,
                                         argmask=rng.choice([31, 28, 2, 1, 0])))
        cases.append(common.Case("c01-l%d" % ti, ["HOOK trace 1"], ops, {"table": t, "kind": "long"}))
    # (c) call histories sizing the library: growing/shrinking sizes, FREE anywhere, exact on/off; alloc log on
    hist_cases = []
    for hi in range(12 if tier == "quick" else 200):
        ops = []
        for _ in range(rng.randint(4, 14)):
            r = rng.random()
            if r < 0.15:
                ops.append("FREE")
            elif r < 0.25:
                ops.append("HOOK exact %d" % rng.randint(0, 1))
            else:
                t = rng.choice(tables[:10])
                L = rng.choice([0, 1, 5, 30, 200, 1100, 2500])
                base = corpus.rand_input(rng, 24) or [97]
                u = (base * (L // len(base) + 1))[:L]
                cap = rng.choice([0, 1, L, 2 * L + 3, 1500, 40])
                ops.append(st.gen_fwd_op(rng, t, inp=u, mode=rng.choice([0, 4, 1, 128]), cap=cap,
                                         argmask=rng.choice([31, 28, 2, 0, 16])))
        hist_cases.append(common.Case("c01-h%d" % hi, ["HOOK trace 1", "HOOK alloc 1"], ops, {"kind": "history"}))
    # (d) wide generated tables: every opcode family with operands of unusual shapes (multi-cell indicators, separators
    #     longer than what they mark, grouping/swap classes used from multipass rules, emphasis classes, compbrl, match ...),
    #     inputs made of the rules' own strings, emphasis typeforms, capacities swept around the result length
    cases += st.wide_cases(rng, 300 if tier == "quick" else 3000, per_table=8, back=False, exact=True, tag="c01w", groupreplace=True)
    cases += st.composite_cases(rng, 150 if tier == "quick" else 3000, per_table=8, tag="c01wc", exact=True)
    calls = st.run_and_trace(exe, cases, timeout=300)
    # one process per history: the allocator state is per process
    calls += st.run_and_trace(exe, hist_cases, timeout=300, batch=1)
    cases += hist_cases
    # faults = violations
    nfault = 0
    for c in cases:
        if c.fault and c.fault["kind"] in ("tick-budget", "timeout"):
            # a call that does not return is decided by C03 (which runs the same generator with a tick budget)
            v.notes.append("non-terminating call seen (C03 matter): %s" % (c.ops[c.fault.get("op_index", 0)][:160] if c.ops else ""))
            continue
        if c.fault:
            nfault += 1
            i = c.fault.get("op_index", 0)
            op = c.ops[i] if 0 <= i < len(c.ops) else "?"
            v.violation(fault_sig(c.fault, op), "%s in %s while executing: %s" % (c.fault["kind"], c.fault["frame"], op[:300]),
                        {"script": c.setup + c.ops[: i + 1], "fault": {k: c.fault[k] for k in c.fault if k != "stderr_tail"},
                         "stderr_tail": c.fault.get("stderr_tail", "")[-1200:]})
    # allocator correspondence
    lines, exps, used = [], [], []
    for c in hist_cases:
        if c.fault or len(c.out) != len(c.ops):
            continue
        l, e = alloc_ops_from(c)
        lines.append(l); exps.append(e); used.append(c)
    alloc_bad = []
    nreq = 0
    if lines:
        outm = common.run_model(lines)
        for c, e, m in zip(used, exps, outm):
            nreq += len(e.split()) - 1
            if e != m:
                et, mt = e.split(), m.split()
                d = next((i for i, (x, y) in enumerate(zip(et, mt)) if x != y), min(len(et), len(mt)))
                alloc_bad.append("%s: first difference at request %d: impl %s / model %s (n impl %d, n model %d); ops=%s" % (
                    c.id, d, et[max(d - 2, 0):d + 3], mt[max(d - 2, 0):d + 3], len(et), len(mt), [o[:70] for o in c.ops]))
    v.obligation("correspondence: allocator model reproduces the H5 scratch log on every call history", not alloc_bad,
                 "; ".join(alloc_bad[:3]))
    trace_bad = [k for k in calls if k.trace_ok is False]
    v.obligation("correspondence: Lean driver reproduces every recorded call (trace validation)", not trace_bad,
                 "; ".join("%s :: %s" % (k.op[:200], k.trace_detail[:600]) for k in trace_bad[:3]))
    dist = {"calls": 0, "exact": 0, "long": 0, "history": 0, "wide": 0, "faults": nfault, "alloc_requests_compared": nreq,
            "contract_fail": 0, "modes": {}}
    for k in calls:
        if k.R is None:
            continue
        v.cov["evaluations"] += 1
        dist["calls"] += 1
        dist[k.case.meta.get("kind", "exact")] += 1
        t = k.op.split(" ")
        dist["modes"][t[2]] = dist["modes"].get(t[2], 0) + 1
        v._distinct.add((k.case.meta.get("table"), t[2], t[3], t[4], t[5], t[6][:64], len(t[6])))
        if k.eok is False and t[0] == "FWD":
            # (backward calls of the composite cases are C02's: its driver theorem needs E1/E3 only, and E4' IS violated
            # by real backward passes - a copy action that moves the output down leaves the map entries it wrote)
            dist["contract_fail"] += 1
            v.violation("C01:contract:%s" % k.failed, "a recorded pass violates EngineOK (%s): the driver then indexes its "
                        "position maps with values the theorem does not cover | %s" % (k.failed, k.op[:200]),
                        {"script": k.case.setup + [k.op], "result": k.line[:3000]})
        if len(v.cov["samples"]) < 5:
            v.sample({"op": k.op[:240], "result": k.line.split(" | ")[0][:200]})
    v.cov["traces_validated_against_impl"] = sum(1 for k in calls if k.trace_ok is not None)
    v.cov["distribution"] = dist
    v.cov["rule"] = ("forward calls under ASan+UBSan with exact-size caller arrays: (a) exact scratch sizes (H1) x random "
                     "valid mode combinations x cursors x capacities on %d tables, (b) long inputs incl. inlen>outlen and "
                     ">1024, (c) random call histories with lou_free and exact on/off whose scratch log is replayed "
                     "through the allocator model; distinct by (table, mode, capacity, cursor, argmask, input)" % len(tables))
    v.assumptions += ["engines outside the driver are sanitizer-observed only", "ASan/UBSan are trusted observers"]
    return v.finish()
