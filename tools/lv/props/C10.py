"""C10 — optional output arguments do not perturb the translation."""
import random
from .. import common, corpus, suite_translate as st

THEOREMS = ["Lou.C10.optargs_arrays", "Lou.C10.optargs_typeform", "Lou.C10.optargs_spacing", "Lou.C10.optargs_cursor",
            "Lou.C10.wrapper_string", "Lou.C10.idEngine_blind",
            "Lou.CurBlind.translate_cursor_blind", "Lou.CurBlind.modelEngine_blind", "Lou.CurBlind.model_optargs",
            "Lou.ModelEngine.callFwd_eq",
            "Lou.CurBlindC.translateC_cursor_blind", "Lou.CurBlindC.engineFor_blind", "Lou.CurBlindC.whole_call_optargs",
            "Lou.C10Back.back_optargs_arrays", "Lou.C10Back.back_optargs_cursor", "Lou.CurBlindB.translate_cursor_blind", "Lou.CurBlindB.translateC_cursor_blind", "Lou.CurBlindB.engineForBack_blind", "Lou.CurBlindB.whole_call_back_optargs",
]

CLAIM = dict(
    text=("Kernel-checked on the driver model: presence of outputPos/inputPos never reaches the engines and does not change "
          "(ret, inlen', outlen', outbuf) for ANY engine (optargs_arrays); an all-zero typeform equals NULL for any engine "
          "(optargs_typeform); spacing NULL vs supplied and cursorPos NULL vs supplied give the same four results for engines "
          "that are spacing-/cursor-blind (optargs_spacing, optargs_cursor; blindness is an explicit hypothesis, stated over "
          "the whole call history); lou_translateString equals lou_translate with the arrays NULL (wrapper_string). Tie: all "
          "32 presence patterns of the same call are executed on every shipped table in both directions (modes without "
          "compbrl bits), plus the *String and Prehyphenated wrappers; results and H4 traces (cells, maps, consumed lengths "
          "of every stage) must be equal across patterns - this is the evidence for blindness outside the modelled engines."),
    note=("CursorBlind/SpacingBlind are hypotheses of the Layer A theorems; for the Layer B engine models (F0 main pass, multipass "
          "stage model) they are PROVED (LouProofs/CurBlind.lean: translate_cursor_blind, modelEngine_blind), so model_optargs holds "
          "with no hypothesis; the same for the main pass with context rules (CurBlindC: engineFor_blind, whole_call_optargs) and for "
          "back-translation (C10Back: back_optargs_arrays for any engine, back_optargs_cursor for blind engines; CurBlindB: every "
          "modelled backward engine is blind, whole_call_back_optargs). The whole call computed by the model alone (MCALL) is compared "
          "with the implementation under all 32 presence patterns on composite generated tables; for engines outside the models "
          "blindness is what the 32-pattern runs test."),
    technique="Lean 4 proof over the driver model + exhaustive 32-pattern cross-equality on real runs",
    design="DESIGN.md §7 C10")


def core(R):
    return (R["ret"], R["inlen"], R["outlen"], tuple(R["out"]))


def stages(R):
    return [(p["pass"], tuple(p["in"]), tuple(p["out"]), tuple(p["map"]), p["realInlen"]) for p in R["passes"]]


def run(tier):
    v = common.Verdict("C10", tier)
    rng = random.Random(common.seed() * 1000003 + 10)
    common.lean_obligations(v, THEOREMS)
    try:
        exe = common.build_harness()
        v.obligation("harness builds from /repo working tree (hooks on, ASan+UBSan)", True)
    except common.BuildError as e:
        v.obligation("harness builds from /repo working tree (hooks on, ASan+UBSan)", False, str(e)[-2000:])
        return v.finish()
    tables = corpus.quick_tables() if tier == "quick" else corpus.all_tables()
    n = 2 if tier == "quick" else 8
    nt = 6 if tier == "quick" else 30
    vocab = corpus.table_vocab(exe, tables)
    cases = []
    togg = []

    def gen_input(t, back):
        vv = vocab.get(t)
        if back:
            u = vv.braille(rng, 18) if (vv and vv.by_op and rng.random() < 0.6) else corpus.rand_braille(rng, 18, dots_io=True)
            return u, rng.choice([4, 4 | 256, 4 | 128])
        u = vv.text(rng, 18) if (vv and vv.by_op and rng.random() < 0.6) else corpus.rand_input(rng, 18)
        return u, rng.choice([0, 0, 1, 4, 128, 4 | 64])

    LOOKAHEAD_OPS = (90, 93, 94)        # largesign, joinnum, joinword: rules that look at the word behind them
    for ti, t in enumerate(tables):
        # single-argument toggles on many table-specific inputs (rule strings of the table itself): none present vs
        # exactly one present; the cursor at several positions
        ops = []
        # rules that look ahead into the next word (joinword, largesign): the cursor at EVERY position of a two-word
        # phrase "<such a word> <another rule string>" (seeded change C10-B: the look-ahead consulted the cursor
        # without the compbrl mode bits)
        vv0 = vocab.get(t)
        la = [w for op_ in LOOKAHEAD_OPS for (w, _d) in (vv0.by_op.get(op_, []) if vv0 else [])]
        extra_inputs = []
        for _ in range(min(3, len(la))):
            w1 = rng.choice(la)
            w2, _d = vv0.sample_word(rng, 8)
            if w1 and w2:
                extra_inputs.append((w1 + [0x20] + w2)[:20])
        for u in extra_inputs:
            grp = []
            for am, cur in [(0, 0)] + [(16, c) for c in range(len(u))]:
                grp.append(st.gen_fwd_op(rng, t, inp=u, mode=0, cap=32 * len(u) + 256, argmask=am, cursor=cur))
            ops.append(grp)
        # an embedded NUL: the text ends there, but a cursor anywhere inside the array the caller passed is a valid
        # argument and must not change the result (seeded change C10-F), in both directions
        for back in (False, True):
            u, mode = gen_input(t, back)
            u = [c for c in u if c][:10]
            if len(u) >= 3:
                k = rng.randint(1, len(u) - 1)
                u = u[:k] + [0] + u[k:]
                grp = []
                for am, cur in [(0, 0)] + [(16, c) for c in range(len(u))]:
                    if back:
                        grp.append(st.gen_bwd_op(rng, t, u, mode=mode, cap=32 * len(u) + 256, argmask=am, cursor=cur))
                    else:
                        grp.append(st.gen_fwd_op(rng, t, inp=u, mode=mode if mode != 1 else 0, cap=32 * len(u) + 256, argmask=am, cursor=cur))
                ops.append(grp)
        for _ in range(nt):
            for back in (False, True):
                u, mode = gen_input(t, back)
                if not u:
                    continue
                # (a capacity that ends somewhere inside the text on a third of the groups: the paths that back off to
                # the last word boundary depend on where exactly the output fills up — seeded change C10-C)
                cap = rng.choice([len(u), 2 * len(u) + 3, 32 * len(u) + 256, 32 * len(u) + 256, rng.randint(1, len(u)), rng.randint(1, len(u))])
                curs = sorted(set([0, len(u) - 1] + [rng.randint(0, len(u) - 1) for _ in range(4)]))
                pats = [(0, 0), (1, 0), (2, 0), (4, 0), (8, 0)] + [(16, c) for c in curs]
                grp = []
                for am, cur in pats:
                    if back:
                        grp.append(st.gen_bwd_op(rng, t, u, mode=mode, cap=cap, argmask=am, cursor=cur))
                    else:
                        op = st.gen_fwd_op(rng, t, inp=u, mode=mode, cap=cap, argmask=am, cursor=cur)
                        tt = op.split(" ")
                        if am & 1:
                            tt[7] = common.wide([0] * len(u))
                        if am & 2:
                            # digits in the spacing array are copied to the output side; they are not to change the text
                            tt[8] = common.hexbytes(bytes(rng.choice(b"*0123 ") for _ in range(len(u) + 1)))
                        grp.append(" ".join(tt))
                ops.append(grp)
        # across lou_free(): a call with a spacing array (typeform, positions) sizes the library's scratch arrays; after
        # lou_free() the same call has to behave as before, with and without the array (seeded change C10-H kept the
        # remembered size of one scratch array over lou_free and so got no memory for it afterwards)
        for _ in range(2):
            u, mode = gen_input(t, False)
            if not u:
                continue
            cap = 2 * len(u) + 8
            def call(am):
                tt = st.gen_fwd_op(rng, t, inp=u, mode=mode, cap=cap, argmask=am, cursor=0).split(" ")
                if am & 1:
                    tt[7] = common.wide([0] * len(u))
                if am & 2:
                    tt[8] = common.hexbytes(b"*" * (len(u) + 1))
                return " ".join(tt)
            ops.append([call(2 | 1 | 4 | 8)])
            ops.append(["FREE"])
            ops.append([call(0), call(2), call(1), call(4), call(8)])
        c = common.Case("c10t-%d" % ti, ["HOOK trace 1"], [o for g in ops for o in g], {"table": t, "groups": [len(g) for g in ops]})
        togg.append(c)
    # typeform NULL versus all-zero where the library's own type buffer matters: a `correct` rule lengthens the text, the
    # capacity ends inside the lengthened text, and an earlier call has left type information behind the caller's characters
    # (F36; seeded change C10-E cleared the tail only when a typeform was passed)
    for li in range(3 if tier == "quick" else 30):
        lt = ("space \\s 0\n" + "".join("lowercase %s %s\n" % (ch, d) for ch, d in zip("abcdefghix", "1 12 14 145 15 124 1245 125 24 1346".split()))
              + "noback correct \"x\" \"xabcdefghi\"\nalways fgh 123456\nalways cd 2356\n")
        ln = "c10len%d.ctb" % li
        pol = [rng.choice(b"abcdefghi") for _ in range(40)]
        groups = [["FWD %s 0 200 - 1 %s %s -" % (ln, common.wide(pol), common.wide([rng.choice([0x1000, 0x0800])] * 40))]]
        for _g in range(4):
            u = [rng.choice(b"xxab") for _ in range(rng.randint(1, 3))]
            cap = rng.choice([15, 12, 10, 9, 22, rng.randint(5, 25)])
            grp = []
            for am in (0, 1, 4):
                grp.append("FWD %s %d %d - %d %s %s -" % (ln, rng.choice([0]), cap, am, common.wide(u), common.wide([0] * len(u)) if am & 1 else "-"))
            groups.append(grp)
        togg.append(common.Case("c10t-len%d" % li, ["HOOK trace 1", "TBL %s %s" % (ln, common.hexbytes(lt))], [o for g in groups for o in g],
                                {"table": ln, "groups": [len(g) for g in groups]}))
    for ti, t in enumerate(tables):
        ops = []
        for _ in range(n):
            for back in (False, True):
                u, mode = gen_input(t, back)
                cap = st.caps_for(rng, len(u))
                cur = rng.randint(0, max(len(u) - 1, 0))
                for am in range(32):
                    if back:
                        ops.append(st.gen_bwd_op(rng, t, u, mode=mode, cap=cap, argmask=am, cursor=cur))
                    else:
                        op = st.gen_fwd_op(rng, t, inp=u, mode=mode, cap=cap, argmask=am, cursor=cur)
                        tt = op.split(" ")
                        if am & 1:
                            tt[7] = common.wide([0] * len(u))
                        if am & 2:
                            tt[8] = common.hexbytes(b"*" * (len(u) + 1))
                        ops.append(" ".join(tt))
                # wrappers
                base = (st.gen_bwd_op if back else None)
                if back:
                    ops.append(st.gen_bwd_op(rng, t, u, mode=mode, cap=cap, argmask=32, cursor=cur))
                else:
                    ops.append(st.gen_fwd_op(rng, t, inp=u, mode=mode, cap=cap, argmask=32, cursor=cur))
                    ops.append(st.gen_fwd_op(rng, t, inp=u, mode=mode, cap=cap, argmask=64 | 28, cursor=cur))
        cases.append(common.Case("c10-%d" % ti, ["HOOK trace 1"], ops, {"table": t}))
    common.run_cases(exe, cases + togg, batch=4, timeout=300)
    # whole calls on composite tables under all 32 presence patterns: the model the blindness theorems are about
    # (CurBlind.model_optargs) computes the same result as the code
    wc = st.composite_cases(rng, 100 if tier == "quick" else 2500, per_table=8, tag="c10wc", argmasks=list(range(32)))
    wcalls = st.run_and_trace(exe, wc)
    wdist = {}
    whole_bad = st.compare_whole(wcalls, wdist)
    v.obligation("correspondence: the model alone (driver + main-pass + stage models) computes the whole result of every call on "
                 "composite generated tables under every presence pattern of the optional arguments", not whole_bad, "\n".join(whole_bad[:3]))
    ngroups = 0
    ntog = 0
    for c in togg:
        t = c.meta["table"]
        i = 0
        for size in c.meta["groups"]:
            grp = list(zip(c.ops[i:i + size], c.out[i:i + size]))
            i += size
            if len(grp) < size:
                break
            Rs = [common.parse_R(o) for _, o in grp]
            if any(r is None for r in Rs):
                continue
            back = grp[0][0].startswith("BWD")
            ntog += 1
            v.cov["evaluations"] += size
            if Rs[0]["out"]:
                v._distinct.add((t, back, grp[0][0].split(" ")[2], tuple(Rs[0]["out"])))
            for k in range(1, size):
                am = int(grp[k][0].split(" ")[5])
                what = {1: "typeform", 2: "spacing", 4: "outputPos", 8: "inputPos", 16: "cursorPos"}[am]
                if core(Rs[k]) != core(Rs[0]):
                    v.violation("C10:core:%s:args:%s" % ("back" if back else "fwd", what),
                                "supplying %s (and nothing else) changes (ret, inlen, outlen, output) relative to all optional "
                                "arguments NULL | table=%s" % (what, t),
                                {"script": c.setup + [grp[0][0], grp[k][0]], "results": [grp[0][1][:1200], grp[k][1][:1200]]})
                    break
                if stages(Rs[k]) != stages(Rs[0]):
                    v.violation("C10:stages:%s:%s" % ("back" if back else "fwd", what),
                                "supplying %s changes what a stage emitted/mapped/consumed | table=%s" % (what, t),
                                {"script": c.setup + [grp[0][0], grp[k][0]], "results": [grp[0][1][:1200], grp[k][1][:1200]]})
                    break
    for c in cases:
        t = c.meta["table"]
        i = 0
        while i < len(c.ops):
            back = c.ops[i].startswith("BWD")
            size = 33 if back else 34
            grp = list(zip(c.ops[i:i + size], c.out[i:i + size]))
            i += size
            if len(grp) < size:
                break
            Rs = [common.parse_R(o) for _, o in grp]
            if any(r is None for r in Rs):
                continue
            ngroups += 1
            v.cov["evaluations"] += size
            ref = Rs[31]      # all present
            if ref["out"]:
                v._distinct.add((t, back, grp[31][0].split(" ")[2], tuple(ref["out"])))
            for am, (op, o) in enumerate(grp):
                R = Rs[am]
                lbl = "pattern %d" % am if am < 32 else ("string wrapper" if am == 32 else "prehyphenated wrapper")
                ref2 = ref if am != 33 else Rs[28]
                if core(R) != core(ref2):
                    v.violation("C10:core:%s:%s" % ("back" if back else "fwd", "wrapper" if am >= 32 else "args"),
                                "%s changes (ret, inlen, outlen, output) relative to all arguments present | table=%s" % (lbl, t),
                                {"script": c.setup + [grp[31][0], op], "results": [grp[31][1][:1200], o[:1200]]})
                    break
                if stages(R) != stages(ref2):
                    v.violation("C10:stages:%s" % ("back" if back else "fwd"),
                                "%s changes what a stage emitted/mapped/consumed (engine not blind to optional arguments) | table=%s" % (lbl, t),
                                {"script": c.setup + [grp[31][0], op], "results": [grp[31][1][:1200], o[:1200]]})
                    break
            if len(v.cov["samples"]) < 4 and ref["out"]:
                v.sample({"all_present": grp[31][0][:200], "none": grp[0][0][:200], "result": grp[31][1].split(" | ")[0][:200]})
        if c.fault:
            v.notes.append("fault during C10 run (memory faults are decided by C01/C02): %s %s" % (c.fault["kind"], c.fault["frame"]))
    v.cov["distribution"] = dict({"groups_of_32_patterns": ngroups, "single_toggle_groups": ntog, "tables": len(tables)}, **wdist)
    v.cov["evaluations"] += wdist.get("whole_calls_compared", 0)
    v.cov["traces_validated_against_impl"] = ngroups * 32
    v.cov["exhaustive"] = False
    v.cov["rule"] = ("inputs: rule strings of the table itself (from DUMP) joined into phrases, yaml corpus words, random; for each (table, direction, input, mode without compbrl bits, capacity, cursor) all 2^5 presence patterns of "
                     "(typeform all-zero vs NULL, spacing, outputPos, inputPos, cursorPos) plus the wrappers; plus single-argument toggles (none vs exactly one, cursor at up to 6 positions) on further table-specific inputs; distinct by (table, direction, mode, output)")
    return v.finish()
