"""C03 — every translation, back-translation and hyphenation call terminates."""
import random, re
from .. import common, corpus, suite_translate as st, gen_table as G

THEOREMS = ["Lou.C03.iter_mu", "Lou.C03.run_bound", "Lou.C03.pass_loop_bound", "Lou.C03.run_more_fuel",
            "Lou.C03.once_per_position", "Lou.C03.pingpong_not_monotone", "Lou.C03.pingpong_unbounded",
            "Lou.C06Pass.fwdStage_total", "Lou.C06Pass.backStage_total", "Lou.C06Pass.fwdTest_bounds", "Lou.C06Pass.backTest_bounds",
            "Lou.FwdTerm.step_adv", "Lou.FwdTerm.loop_fuel", "Lou.FwdTerm.compile_translate_fuel",
            "Lou.BackTerm.step_adv", "Lou.BackTerm.loop_fuel", "Lou.BackTerm.translate_fuel",
            "Lou.FwdCTerm.stepC_mu", "Lou.FwdCTerm.loopC_total", "Lou.FwdCTerm.translateC_no_fuel",
]

CLAIM = dict(
    text=("Kernel-checked: pass_loop_bound — for ANY rule selection and ANY actions that never move the position backwards "
          "(step contract S2) a guarded pass loop (forward and backward correct/passN loops) over n elements stops after at "
          "most 2n+1 iterations, whatever the table, hidden state or capacity; once_per_position — a rule that leaves the "
          "position unchanged is followed by a verbatim copy; pingpong_unbounded — without S2 the loop never stops, which is "
          "what the real code did for a look-back inside replace brackets (F1, confirmed with the tick hook, repaired). Tie: "
          "hook H2 ticks at the head of every iteration of the six pass loops, hyphenateWord and the pattern matcher; every "
          "recorded pass is checked against S2 and against the closed-form bound, and a per-call tick budget turns "
          "non-termination into a replay. Search: all shipped tables x corpus inputs in both directions, plus generated "
          "tables biased towards multipass rules that insert without consuming, replace a string by itself, look back, or "
          "use zero-width brackets in every stage and both directions; hyphenation on the shipped dictionaries."),
    note=("Layer A theorem covers the four guarded loops for ANY actions satisfying S2. Layer B: the stage models never reach their "
          "bound (fwdStage_total, backStage_total); the main-pass models terminate inside their fuel - forward F0 (FwdTerm.loop_fuel, "
          "compile_translate_fuel: every iteration that does not end the loop consumes a character), backward B0 (BackTerm, no hypothesis), "
          "forward with context rules (FwdCTerm.translateC_no_fuel, measure 2(n-pos)+[posIncremented]); these models are tied to the code "
          "per stage (MFWD/MBWD/MPASS) and per whole call (MCALL). Outside the fragments the two main-pass loops, the emphasis resolver, "
          "pattern.c and inSequence are tick-monitored only (bound checked per run, not proved). Known finding F2 (backward main pass, "
          "zero-width context rule: the backward model with context rules exhausts its bound exactly there) is listed in known_findings.json."),
    technique="Lean 4 proof (measure-based loop bound for arbitrary monotone actions) + H2 tick records checked against the contract + tick-budget search",
    design="DESIGN.md §7 C03")

GUARDED = {0, 2, 3, 5}
SITE_NAMES = {0: "FOR_CORRECT", 1: "FOR_MAIN", 2: "FOR_PASS", 3: "BACK_CORRECT", 4: "BACK_MAIN", 5: "BACK_PASS",
              6: "HYPH", 7: "PATTERN", 8: "CHAIN"}


def segments(line):
    """per-pass runs of tick records: the trace is in execution order, a P record closes the pass whose
    ticks precede it (needs HOOK trace 1 and HOOK ticks 1)"""
    segs = []
    cur = []
    for e in line.split(" | ")[1:]:
        p = e.split(" ")
        if p[0] == "T":
            site = int(p[1])
            if site in (6, 7, 8):
                continue
            cur.append((site, int(p[2]), int(p[3]), int(p[4]), int(p[6])))
        elif p[0] == "P":
            if cur:
                segs.append({"site": cur[0][0], "inlen": cur[0][2], "recs": [(r[1], r[3], r[4]) for r in cur],
                             "mixed": len(set(r[0] for r in cur)) > 1})
            cur = []
    return segs


def budget_for(op):
    t = op.split(" ")
    if t[0] in ("FWD", "BWD"):
        n = len(t[6]) // 4 if t[6] != "-" else 0
        return 60 * (n + int(t[3])) + 4000
    return 200000


def classify_table(text):
    """rule shapes relevant for known findings"""
    cls = []
    if re.search(r"(^|\n)\s*(nofor\s+)?context\s+\S*\[\]", text) or re.search(r"(^|\n)\s*(nofor\s+)?context\s", text):
        cls.append("ctxback")
    return "+".join(cls) or "plain"


def run(tier):
    v = common.Verdict("C03", tier)
    rng = random.Random(common.seed() * 1000003 + 3)
    common.lean_obligations(v, THEOREMS)
    try:
        exe = common.build_harness()
        v.obligation("harness builds from /repo working tree (hooks on, ASan+UBSan)", True)
    except common.BuildError as e:
        v.obligation("harness builds from /repo working tree (hooks on, ASan+UBSan)", False, str(e)[-2000:])
        return v.finish()
    tables = corpus.quick_tables() if tier == "quick" else corpus.all_tables()
    cases = []
    # (a) shipped tables, both directions, tick records on
    for ti, t in enumerate(tables):
        ops = []
        for _ in range(10 if tier == "quick" else 40):
            ops.append(st.gen_fwd_op(rng, t, mode=rng.choice([0, 0, 1, 4, 128]), argmask=rng.choice([0, 28, 31])))
        for _ in range(6 if tier == "quick" else 24):
            inp = corpus.rand_braille(rng, dots_io=True)
            ops.append(st.gen_bwd_op(rng, t, inp, mode=rng.choice([4, 4 | 256, 4 | 128]), argmask=rng.choice([0, 28])))
        setup = ["HOOK ticks 1", "HOOK trace 1"]
        ops2 = []
        for op in ops:
            ops2 += ["HOOK budget %d" % budget_for(op), op]
        cases.append(common.Case("c03-s%d" % ti, setup, ops2, {"table": t, "kind": "shipped"}))
    # (b) generated tables biased to non-consuming multipass rules
    ng = 60 if tier == "quick" else 1500
    for gi in range(ng):
        tb = G.gen_table(rng, rng.choice(["multipass", "multipass", "mixed"]), biased=True, per_stage=(0, 2))
        txt = tb.text()
        ops = []
        tn = "g%d.ctb" % gi
        for _ in range(6):
            u = G.rand_text(rng, tb, 10)
            cap = rng.choice([len(u), 2 * len(u) + 2, 40, 3])
            ops.append("FWD %s %d %d - 0 %s - -" % (tn, rng.choice([4, 4, 0]), cap, common.wide(u)))
            c = G.rand_cells(rng, tb, 10)
            ops.append("BWD %s %d %d - 0 %s - -" % (tn, 4, cap, common.wide(c)))
        ops2 = []
        for op in ops:
            ops2 += ["HOOK budget %d" % budget_for(op), op]
        cases.append(common.Case("c03-g%d" % gi, ["HOOK ticks 1", "HOOK trace 1", "TBL %s %s" % (tn, common.hexbytes(txt))], ops2,
                                 {"table": "generated", "kind": "generated", "text": txt}))
    # (0) corpus of minimised past failures (runs first)
    import json, os
    for ent in json.load(open(os.path.join(common.VERIF, "corpus", "C03.json"))):
        ops2 = []
        tn = "corpus-%s.ctb" % ent["id"]
        for op in ent["ops"]:
            op = op.replace(" t.ctb ", " %s " % tn)
            ops2 += ["HOOK budget %d" % budget_for(op), op]
            # the same input as a later / earlier word of a longer text, doubled, and behind a blank: the guards that made
            # these calls return are per word or per position (seeded change C03-D resets one at the word boundary)
            tk = op.split(" ")
            u = common.unwide(tk[6])
            if tk[0] in ("FWD", "BWD") and u:
                sp = [0x8000] if u[0] & 0x8000 else [0x20]
                for var in (u[:1] + sp + u, u + sp + u[:1], u + sp + u, sp + u + sp, u[:1] + sp + u[:1] + sp + u):
                    tk2 = list(tk)
                    tk2[3] = str(int(tk[3]) + 2 * len(var))
                    tk2[6] = common.wide(var)
                    op2 = " ".join(tk2)
                    ops2 += ["HOOK budget %d" % budget_for(op2), op2]
        cases.insert(0, common.Case("c03-corpus-" + ent["id"], ["HOOK ticks 1", "HOOK trace 1", "TBL %s %s" % (tn, common.hexbytes(ent["table"]))],
                                    ops2, {"table": "generated", "kind": "generated", "text": ent["table"]}))
    # (c) hyphenation
    from .C02 import HYPH_LISTS
    tw, _ = corpus.words()
    for hi, hl in enumerate(HYPH_LISTS[: (6 if tier == "quick" else len(HYPH_LISTS))]):
        ops = ["HOOK budget 300000"]
        for _ in range(60 if tier == "quick" else 600):
            if rng.random() < 0.5:
                w = [ord(c) for c in rng.choice(tw)][:99]
            else:
                w = [rng.choice(b"abcdefghijklmnopqrstuvwxyz") for _ in range(rng.randint(1, 30))]
            ops.append("HYP %s 0 %s" % (corpus.tpath(hl), common.wide(w)))
        cases.append(common.Case("c03-h%d" % hi, [], ops, {"table": hl, "kind": "hyph"}))
    common.run_cases(exe, cases, batch=1 if tier == 'quick' and False else 6, timeout=120)
    # (d) wide generated tables: every opcode family (look-ahead search, match patterns with loops over sub-patterns that
    #     can match nothing, nocont/compbrl/sequence delimiters, base chains, grouping, swap ...); the tick budget covers
    #     the instrumented loops, the wall-clock watchdog everything else (doPassSearch, chain walks, the compiler)
    wide = st.wide_cases(rng, 150 if tier == "quick" else 4000, per_table=5, back=True, exact=False, budget=150000, tag="c03w", groupreplace=True)
    for c in wide:
        c.setup.insert(0, "HOOK ticks 1")
        c.meta["kind"] = "generated"
        c.meta["table"] = "generated"
    common.run_cases(exe, wide, batch=6, timeout=25)
    cases += wide
    dist = {"calls": 0, "passes_checked": 0, "guarded_passes": 0, "nonadvancing_rule_steps": 0, "max_ratio_guarded": 0.0,
            "max_ratio_main": 0.0, "hyph_calls": 0, "faults": 0}
    for c in cases:
        if c.fault:
            dist["faults"] += 1
            i = c.fault.get("op_index", 0)
            op = c.ops[i] if 0 <= i < len(c.ops) else "?"
            if c.fault["kind"] == "timeout":
                # the wall-clock watchdog is not deterministic (machine load): the call is run again on its own with a
                # generous limit and counts only if it does not return then either
                solo = common.Case(c.id + "-solo", [x for x in c.setup if not x.startswith("HOOK budget")], [op], dict(c.meta))
                common.run_cases(exe, [solo], batch=1, timeout=90)
                if not (solo.fault and solo.fault["kind"] == "timeout"):
                    v.notes.append("watchdog timeout not reproduced when the call runs alone (machine load): %s" % op[:120])
                    continue
            if c.fault["kind"] in ("tick-budget", "timeout"):
                m = re.search(r"site=(\d+)", c.fault.get("detail", ""))
                site = int(m.group(1)) if m else -1
                cls = classify_table(c.meta.get("text", "")) if c.meta["kind"] == "generated" else c.meta["table"]
                v.violation("C03:nonterm:%s:%s:%s" % (SITE_NAMES.get(site, "?"), op.split(" ")[0], cls),
                            "call exceeded its tick budget (does not terminate or is super-linear): %s" % op[:200],
                            {"script": c.setup + c.ops[: i + 1], "fault": c.fault.get("detail", ""), "table_text": c.meta.get("text", "")})
            elif c.fault["kind"].startswith("exit:"):
                # the library ended the process (exit(3) of _lou_outOfMemory, F40): the call does not return
                v.violation("C03:noreturn:%s:%s" % (c.fault["kind"], op.split(" ")[0]),
                            "the call ended the process (%s) instead of returning: %s" % (c.fault["kind"], op[:200]),
                            {"script": c.setup + c.ops[: i + 1], "stderr_tail": c.fault.get("stderr_tail", "")[-600:], "table_text": c.meta.get("text", "")})
            else:
                v.notes.append("memory fault during C03 run (decided by C01/C02): %s %s" % (c.fault["kind"], c.fault["frame"]))
        for op, o in zip(c.ops, c.out):
            if op.startswith("HYP"):
                dist["hyph_calls"] += 1
                v.cov["evaluations"] += 1
                m = re.search(r"\| K ((?:\d+ ?)+)", o)
                if m:
                    k = [int(x) for x in m.group(1).split()]
                    n = len(op.split(" ")[3]) // 4
                    if k[6] > 40 * (n + 2) + 40:
                        v.violation("C03:hyph:bound", "hyphenation walk took %d state steps for a word of %d letters" % (k[6], n),
                                    {"script": [op], "result": o[:300]})
                continue
            R = common.parse_R(o)
            if R is None:
                continue
            dist["calls"] += 1
            v.cov["evaluations"] += 1
            for seg in segments(o):
                dist["passes_checked"] += 1
                n = seg["inlen"]
                cnt = len(seg["recs"])
                if seg["site"] in GUARDED:
                    dist["guarded_passes"] += 1
                    if n:
                        dist["max_ratio_guarded"] = max(dist["max_ratio_guarded"], round(cnt / (2 * n + 1), 3))
                    if cnt > 2 * n + 1:
                        v.violation("C03:bound:%s" % SITE_NAMES[seg["site"]],
                                    "guarded pass loop took %d iterations on %d elements (> 2n+1)" % (cnt, n),
                                    {"script": c.setup + [op], "result": o[:2000], "table_text": c.meta.get("text", "")})
                    pp = [r[0] for r in seg["recs"]]
                    if any(a > b for a, b in zip(pp, pp[1:])):
                        v.violation("C03:S2:%s" % SITE_NAMES[seg["site"]],
                                    "a multipass action moved the position backwards: positions %s" % pp[:40],
                                    {"script": c.setup + [op], "result": o[:2000], "table_text": c.meta.get("text", "")})
                    stuck = sum(1 for a, b in zip(seg["recs"], seg["recs"][1:]) if a[0] == b[0])
                    dist["nonadvancing_rule_steps"] += stuck
                    if any(a[0] == b[0] == d[0] for a, b, d in zip(seg["recs"], seg["recs"][1:], seg["recs"][2:])):
                        v.violation("C03:once:%s" % SITE_NAMES[seg["site"]],
                                    "three consecutive iterations at one position (a rule was applied twice without an advance)",
                                    {"script": c.setup + [op], "result": o[:2000], "table_text": c.meta.get("text", "")})
                    if stuck:
                        v._distinct.add((c.id, op[:120]))
                else:
                    # the main loops may go BACK (nocont / compbrl / capacity back-off restart at the start of the word): the
                    # run is cut where the position decreases; each stretch may take 3n+4 iterations and there may be at
                    # most n+1 restarts (one per position: F28/F33 were violations of exactly that).  This is a detector for
                    # rules that re-apply themselves without advancing (F31), not a clause of the property: a call that
                    # returns is not a violation of C03 by itself, so the signature is separate from non-termination.
                    pp = [r[0] for r in seg["recs"]]
                    runs, cur = [], 1
                    for a, b in zip(pp, pp[1:]):
                        if b < a:
                            runs.append(cur); cur = 1
                        else:
                            cur += 1
                    runs.append(cur)
                    longest = max(runs) if runs else 0
                    if n:
                        dist["max_ratio_main"] = max(dist["max_ratio_main"], round(longest / (3 * n + 4), 3))
                    if longest > 3 * n + 4 or len(runs) > n + 2:
                        v.violation("C03:bound:%s" % SITE_NAMES[seg["site"]],
                                    "main pass loop: %d iterations on %d elements in %d stretches, the longest of %d (> 3n+4, or more "
                                    "than n+1 restarts): a rule re-applies itself without advancing" % (cnt, n, len(runs), longest),
                                    {"script": c.setup + [op], "result": o[:2000], "table_text": c.meta.get("text", "")})
                if cnt > 1:
                    v._distinct.add((c.id, seg["site"], n, cnt))
            if len(v.cov["samples"]) < 5 and R["tickrecs"] and c.meta["kind"] == "generated":
                v.sample({"table": c.meta["text"][:300], "op": op[:120], "ticks_per_site": R["ticks"]})
    v.cov["traces_validated_against_impl"] = dist["passes_checked"]
    v.cov["distribution"] = dist
    v.cov["rule"] = ("every FWD/BWD call runs with per-iteration tick records and a tick budget of 60*(inlen+outlen)+4000; shipped "
                     "tables (%d) with corpus inputs in both directions; %d generated tables biased to non-consuming / "
                     "look-back / zero-width multipass rules in all five stages and both directions; hyphenation on shipped "
                     "dictionaries; non-trivial = a pass with more than one iteration; distinct by (case, site, n, iterations)"
                     % (len(tables), ng))
    return v.finish()
