"""C04 — reported lengths are truthful and no input is silently dropped."""
import random
from .. import common, corpus, suite_translate as st

THEOREMS = [
    "Lou.Contract.fwdRun_inv", "Lou.C04.fwd_lengths", "Lou.C04.fwd_inlen_nonneg",
    "Lou.C04.fwd_valid_out_default", "Lou.C04.fwd_valid_out_dotsIO",
    "Lou.C04.fwd_ret0_iff", "Lou.C04.fwd_ret0_logged", "Lou.C04.inlen_negative_witness",
    "Lou.C04.idEngine_ok", "Lou.C04.back_lengths", "Lou.C04.back_ret0_iff",
            "Lou.ModelEngine.model_fwd_lengths", "Lou.ModelEngine.model_back_lengths",
            "Lou.ModelEngine.callFwd_eq", "Lou.ModelEngine.callBack_eq", "Lou.ModelEngine.whole_call_fwd_lengths",
            "Lou.ModelEngine.engineFor_ok", "Lou.FwdCOK.translateC_contract",
            "Lou.ModelEngine.engineForBack_ok", "Lou.ModelEngine.whole_call_back_lengths", "Lou.BackCOK.translateC_contract",
]

CLAIM = dict(
    text=("Kernel-checked theorems for an ARBITRARY per-pass engine satisfying the explicit contract EngineOK "
          "(LouProofs/Contract.lean, C04.lean): ret=1 implies -1<=inlen'<=inlen, 0<=outlen'<=outlen, 0<=inlen' under the "
          "forced hypothesis NonNeg (negation proved on a model witness), every produced element is a non-NUL display "
          "character or the cell itself in dotsIO mode; ret=0 iff the table does not compile or a produced cell has no "
          "display mapping, with an error logged. Tie: hook H4 trace validation (the Lean driver must reproduce every "
          "real call from its recorded passes) and evaluation of the contract on every recorded pass of every shipped "
          "table. The property text (incl. the completeness clause with capacity 32*inlen+256) is evaluated on every "
          "implementation result as the search oracle."),
    note=("Engines are parameters; with the Layer B engines plugged in (engineFor / engineForBack, contracts proved) the length clauses hold for every "
          "call the whole-call model covers (whole_call_fwd_lengths, whole_call_back_lengths), and MCALL compares that model's return value, lengths "
          "and output with the implementation (this found F36). Completeness (whole input consumed) is checked on real runs, not proved; "
          "backward: back_lengths (0<=inlen'<=length up to the first NUL, outlen'<=outlen) for any engine satisfying E1/E3; invalid "
          "arguments (NULL pointers, negative lengths) are outside the model's argument type."
          " Gap, stated: rules with a `;name` (group replacement) action reach the completeness clause only through the fixed witness of F41; "
          "one more early stop behind such an action is unexplained (corpus/observations), see DESIGN."),
    technique="Lean 4 proof over a hand-written driver model with engines as parameters + trace-validation correspondence + oracle search",
    design="DESIGN.md §7 C04")

NO_TRANSLATE = 0x0800


import re as _re
GROUP_OMIT_RE = _re.compile(r"^(?:noback |nofor )?(?:context|correct|pass[234])\s+\S*[{}][A-Za-z]\S*\s+\S*\?", _re.M)
ZERO_CTX_RE = _re.compile(r"^(?:noback )?context \[\]\S+ \S*@", _re.M)
GROUP_REPL_RE = _re.compile(r"^(?:noback |nofor )?(?:context|correct|pass[234])\s+\S*\{([A-Za-z]+)\S*\s+\S*;[A-Za-z]", _re.M)


def unclosed_group(text, op):
    """the shape of finding F41: a rule whose action replaces the delimiters of a grouping (`;name`) and an input in which
    an opening delimiter of that grouping has no closing one behind it"""
    for m in GROUP_REPL_RE.finditer(text or ""):
        g = _re.search(r"^grouping %s (\S+) " % _re.escape(m.group(1)), text, _re.M)
        if not g:
            continue
        cs = []
        for tok in _re.findall(r"\\x[0-9a-fA-F]{4}|\\.|.", g.group(1)):
            cs.append(int(tok[2:], 16) if tok.startswith("\\x") else ord(tok[-1]))
        if len(cs) != 2:
            continue
        u = common.unwide(op.split(" ")[6])
        for i, c in enumerate(u):
            if c != cs[0]:
                continue
            level = 0                      # (the nesting count of replaceGrouping)
            for x in u[i + 1:]:
                if x == cs[0]:
                    level -= 1
                if x == cs[1]:
                    level += 1
                if level == 1:
                    break
            if level != 1:
                return True
    return False


def oracle(k):
    R = k.R
    bad = []
    if R is None:
        return bad
    t = k.op.split(" ")
    back = t[0] == "BWD"
    d = "back" if back else "fwd"
    mode, cap, argmask = int(t[2]), int(t[3]), int(t[5])
    inp = common.unwide(t[6])
    n = len(inp)
    if R["ret"] == 1:
        if not (0 <= R["inlen"] <= n):
            bad.append(("lengths:%s:inlen" % d, "reported inlen %d outside [0,%d]" % (R["inlen"], n)))
        if not (0 <= R["outlen"] <= cap):
            bad.append(("lengths:%s:outlen" % d, "reported outlen %d outside [0,%d]" % (R["outlen"], cap)))
        if not back:
            out = R["out"]
            if mode & 4:
                if mode & 64:
                    if any((c & 0xff00) != 0x2800 for c in out):
                        bad.append(("validout:ucbrl", "ucBrl output outside U+28xx: %s" % common.wide(out)))
                else:
                    if any(not (c & 0x8000) for c in out):
                        bad.append(("validout:dotsIO", "dotsIO output cell without LOU_DOTS flag: %s" % common.wide(out)))
            else:
                if any(c == 0 for c in out):
                    bad.append(("validout:nul", "NUL character in default output"))
                elif R["passes"] and "disp" in R:
                    dm = {}
                    for pr in R["disp"].split(","):
                        if ":" in pr:
                            a, b = pr.split(":")
                            dm[int(a, 16)] = int(b, 16)
                    cells = R["passes"][-1]["out"]
                    if len(cells) == len(out) and any(dm.get(c) != o for c, o in zip(cells, out)):
                        bad.append(("validout:display", "output is not the display image of the last pass's cells"))
            # completeness
            tf = common.unwide(t[7]) if (argmask & 1) and t[7] != "-" else []
            if cap >= 32 * n + 256 and not any(x & NO_TRANSLATE for x in tf) and not (mode & (2 | 32)):
                k0 = inp.index(0) if 0 in inp else n
                if R["inlen"] != k0:
                    bad.append(("complete:fwd", "generous capacity %d, input up to first NUL has %d elements, consumed %d"
                                % (cap, k0, R["inlen"])))
    elif R["ret"] == 0 and not back:
        # allowed: table does not compile (never in this suite: shipped tables) or missing display mapping;
        # either way an error must have been logged
        if R["e"] < 1:
            bad.append(("ret0:nolog", "forward translation returned 0 without an error-level message"))
        else:
            msgs = " ".join(m for _, m in R["log"])
            if R["log"] and "no mapping for dot pattern" not in msgs and "could not be compiled" not in msgs \
                    and "Cannot resolve" not in msgs and "errors found" not in msgs:
                bad.append(("ret0:reason", "forward translation returned 0 for another reason: %s" % msgs[:200]))
    return bad


def run(tier):
    v = common.Verdict("C04", tier)
    rng = random.Random(common.seed() * 1000003 + 4)
    common.lean_obligations(v, THEOREMS)
    try:
        exe = common.build_harness()
        v.obligation("harness builds from /repo working tree (hooks on, ASan+UBSan)", True)
    except common.BuildError as e:
        v.obligation("harness builds from /repo working tree (hooks on, ASan+UBSan)", False, str(e)[-2000:])
        return v.finish()
    tables = corpus.quick_tables() if tier == "quick" else corpus.all_tables()
    n = 16 if tier == "quick" else 50
    cases = st.std_cases(rng, tables, n, tag="c04-")
    for c in cases:
        c.setup.insert(0, "LOGDUMP 1")
    # completeness stream: generous capacity, all-present arrays, modes without compbrl
    for ti, t in enumerate(tables):
        ops = []
        for _ in range(n):
            u = corpus.rand_input(rng)
            ops.append(st.gen_fwd_op(rng, t, inp=u, mode=rng.choice([0, 0, 1, 4, 4 | 64, 128]), cap=32 * len(u) + 256,
                                     argmask=rng.choice([31, 28, 0, 12])))
            if rng.random() < 0.15:
                # lou_free() between calls is legal: the next call must succeed as before (stale scratch sizes would
                # make it return 0 without a message)
                ops.append("FREE")
                ops.append(ops[-2])
        cases.append(common.Case("c04-full%d" % ti, ["LOGDUMP 1", "HOOK trace 1"], ops, {"table": t}))
    # display tables lacking mappings: return 0 with an error
    for di, dis in enumerate(corpus.display_tables()[: (4 if tier == "quick" else 40)]):
        ops = []
        for _ in range(6):
            u = corpus.rand_input(rng)
            base = st.gen_fwd_op(rng, "en-us-g2.ctb", inp=u, mode=0, cap=3 * len(u) + 8, argmask=256 | 28)
            ops.append(base + " " + corpus.tpath(dis))
        cases.append(common.Case("c04-dis%d" % di, ["LOGDUMP 1", "HOOK trace 1"], ops, {"table": "en-us-g2.ctb+" + dis}))
    # witness of the known finding F41 (a `;name` action at an opening delimiter that is never closed ends the pass)
    f41 = ("space \\s 0\nlowercase a 1\nlowercase b 12\ngrouping grp () 12356,23456\ngrouping grq [] 246,135\nnoback context {grp ;grq*\n")
    cases.append(common.Case("c04-f41", ["LOGDUMP 1", "HOOK trace 1", "TBL f41.ctb " + common.hexbytes(f41)],
                             ["FWD f41.ctb 4 600 - 12 %s - -" % common.wide("ab(ab ab"), "FWD f41.ctb 4 600 - 12 %s - -" % common.wide("ab(ab) ab")],
                             {"table": "f41.ctb", "text": f41}))
    # witness of F43 (repaired): a grouping rule stored beyond offset 0xff of the rule area, referenced by a `;name` action
    import os as _os
    f43 = open(_os.path.join(common.VERIF, "corpus", "C04-F43-table.txt"), encoding="utf-8").read().split("\n")
    f43 = [l for l in f43 if l.strip()]
    f43_op, f43_tbl = f43[-1].replace("c04w1530.ctb", "f43.ctb"), "\n".join(f43[:-1]) + "\n"
    cases.append(common.Case("c04-f43", ["LOGDUMP 1", "HOOK trace 1", "TBL f43.ctb " + common.hexbytes(f43_tbl)], [f43_op],
                             {"table": "f43.ctb", "text": f43_tbl}))
    wide = st.wide_cases(rng, 200 if tier == "quick" else 2500, per_table=6, back=True, exact=False, tag="c04w", budget=3000000,
                         modes_f=[0, 0, 4, 4, 1, 4 | 64, 128, 4 | 128, 64])
    for c in wide:
        c.setup.insert(0, "LOGDUMP 1")
    cases += wide
    # whole calls on composite tables with capacities from 0 up: the model alone computes *inlen / *outlen / the return value
    cases += st.composite_cases(rng, 100 if tier == "quick" else 3000, per_table=8, tag="c04wc")
    calls = st.run_and_trace(exe, cases)
    dist = {"fwd": 0, "back": 0, "ret0": 0, "truncated": 0, "generous": 0, "contract_fail": 0, "noR": 0}
    trace_bad = []
    ntrace = 0
    for k in calls:
        if k.R is None:
            dist["noR"] += 1
            continue
        v.cov["evaluations"] += 1
        t = k.op.split(" ")
        key = (t[0], k.case.meta.get("table"), t[2], t[3], t[6], k.R["ret"], k.R["inlen"], k.R["outlen"])
        if k.R["outlen"] > 0 or not k.R["ret"]:
            v._distinct.add(key)
        dist["back" if t[0] == "BWD" else "fwd"] += 1
        if not k.R["ret"]:
            dist["ret0"] += 1
        n_in = len(common.unwide(t[6]))
        if int(t[3]) >= 32 * n_in + 256:
            dist["generous"] += 1
        elif k.R["ret"] and k.R["inlen"] < n_in:
            dist["truncated"] += 1
        if k.eok is False:
            dist["contract_fail"] += 1
        if k.eok is False and t[0] == "FWD":
            # the forward theorems need E1-E4; a failing clause on a real trace means the reported
            # lengths are computed from unset scratch memory
            v.violation("C04:contract:%s:%s:%s" % (t[0], k.failed, "compbrl" if int(t[2]) & (2 | 32) else "other"),
                        "a recorded pass violates the engine contract (e.g. realInlen > input length) so the reported "
                        "lengths are read from unset memory | table=%s" % k.case.meta.get("table"),
                        {"script": k.case.setup + [k.op], "result": k.line[:3000]})
        if k.trace_ok is not None:
            ntrace += 1
            if not k.trace_ok:
                trace_bad.append(k)
        for sig, what in oracle(k):
            if sig == "complete:fwd" and GROUP_OMIT_RE.search(k.case.meta.get("text") or ""):
                # the shape of finding F37: a rule that tests a grouping character and omits (`?`) makes removeGrouping
                # rewrite the INPUT; lengths and positions are then reported relative to the rewritten input
                sig += ":grouping-omit"
            elif (sig == "complete:fwd" and ZERO_CTX_RE.search(k.case.meta.get("text") or "") and k.R["outlen"] == int(k.op.split(" ")[3])
                  and k.R["outlen"] > 4 * len(common.unwide(k.op.split(" ")[6]))):
                # the shape of finding F44: a forward `context` rule with empty brackets at the head of its test emits without
                # advancing, another rule at the same place does not advance either, and the two alternate until the OUTPUT IS FULL
                sig += ":zero-width-context-fills-output"
            elif sig == "complete:fwd" and unclosed_group(k.case.meta.get("text"), k.op):
                # the shape of finding F41: the action `;name` fails when the group is not closed in the pass input, and a
                # failing action ends the pass as if the output were full
                sig += ":grouping-replace-unclosed"
            v.violation("C04:%s" % sig, what + " | table=%s" % k.case.meta.get("table"),
                        {"script": k.case.setup + [k.op], "result": k.line[:3000]})
        if len(v.cov["samples"]) < 6 and k.R["ret"]:
            v.sample({"op": k.op[:300], "result": k.line.split(" | ")[0][:300]})
    whole_bad = st.compare_whole(calls, dist)
    v.obligation("correspondence: the model alone (driver + main-pass + stage models) computes return value, consumed and "
                 "produced lengths and output of every call on composite generated tables", not whole_bad, "\n".join(whole_bad[:3]))
    v.obligation("correspondence: Lean driver reproduces every recorded call (trace validation)", not trace_bad,
                 "; ".join("%s :: %s" % (k.op[:200], k.trace_detail[:600]) for k in trace_bad[:3]))
    v.cov["traces_validated_against_impl"] = ntrace
    # clause 3 across the table cache: a list compiled earlier whose NAME the requested list is a prefix of brings its own,
    # larger display mapping; the shorter list still has to answer 0 with an error for a cell it cannot display
    # (seeded change C04-E handed out the cached display table of the longer list)
    pcases = []
    for i in range(6 if tier == "quick" else 60):
        cs = rng.sample("abcdefghijklmnopqrstuvwxyz", 4)
        dots = rng.sample(["1", "12", "14", "145", "15", "124", "1245", "125", "24", "245", "13", "123"], 4)
        t1 = "space \\s 0\nsign %s %s\nsign %s %s\nalways %s%s %s\n" % (cs[0], dots[0], cs[1], dots[1], cs[0], cs[1], dots[2])
        t2 = "sign %s %s\nsign %s %s\n" % (cs[2], dots[2], cs[3], dots[3])
        n1, n2 = "px%d.ctb" % i, "py%d.ctb" % i
        setup = ["LOGDUMP 1", "TBL %s %s" % (n1, common.hexbytes(t1)), "TBL %s %s" % (n2, common.hexbytes(t2))]
        second = "FWD %s 0 20 - 12 %s - -" % (n1, common.wide([ord(cs[0]), ord(cs[1]), 0x20, ord(cs[0])]))
        first = "FWD %s,%s 0 20 - 12 %s - -" % (n1, n2, common.wide([ord(cs[2]), ord(cs[0]), ord(cs[1])]))
        pcases.append(common.Case("c04-pfx%da" % i, setup, [first, second], {"i": i}))
        pcases.append(common.Case("c04-pfx%db" % i, setup, [second], {"i": i}))
    common.run_cases(exe, pcases, batch=1)
    for ca, cb in zip(pcases[0::2], pcases[1::2]):
        if len(ca.out) < 2 or len(cb.out) < 1:
            continue
        v.cov["evaluations"] += 1
        Ra, Rb = common.parse_R(ca.out[1]), common.parse_R(cb.out[0])
        if Ra is None or Rb is None:
            continue
        if Rb["ret"] != 0 or Rb["e"] < 1:
            v.violation("C04:display:unmapped-cell", "a rule produces a cell the table's display mapping lacks: the call has to return 0 "
                        "with an error, it answered %s" % cb.out[0][:200], {"script": cb.setup + cb.ops, "result": cb.out[0][:400]})
        elif (Ra["ret"], Ra["out"]) != (Rb["ret"], Rb["out"]):
            v.violation("C04:display:prefix-list", "after a list whose name starts with this list's name was compiled, a cell this "
                        "list cannot display is rendered (%s) where the same call in a fresh process returns 0 with an error"
                        % ca.out[1][:160], {"script": ca.setup + ca.ops, "result": ca.out[1][:400], "fresh_result": cb.out[0][:400]})
    dist["prefix_list_pairs"] = len(pcases) // 2
    # the declared input as a PREFIX of a longer caller buffer (ordinary use; the harness passes *inlen = length - slack):
    # whatever stands behind the declared input - here what would continue a repetition - must not be consumed or looked at:
    # *inlen <= declared, and the same result as with blanks behind it (seeded change C04-G compared the next repetition with
    # characters behind the end)
    from .. import gen_features as GF
    scases = []
    for i in range(40 if tier == "quick" else 1200):
        w = GF.gen(rng, want={"repword", "repeated"})
        if not w.tail_conts:
            continue
        tn = "c04s%d.ctb" % i
        for (tail, cont) in rng.sample(w.tail_conts, min(3, len(w.tail_conts))):
            cont = list(cont) + [0x20] * 16      # (the pattern ends well inside the caller's buffer)
            body = [c for c in GF.text_for(rng, w)[:6] if c]
            u = (body + [0x20] if body and rng.random() < 0.6 else []) + list(tail)
            for mode in (0, 4):
                cap = 8 * (len(u) + len(cont)) + 32
                # (no outputPos array: it has one element per DECLARED character, and a position behind the declared input
                # written there is a memory fault - C01's matter - that would hide the length this check looks at)
                a = "FWD %s %d %d - 8 %s - -" % (tn, mode, cap, common.wide(u + list(cont)))
                b = "FWD %s %d %d - 8 %s - -" % (tn, mode, cap, common.wide(u + [0x20] * len(cont)))
                scases.append(common.Case("c04-slk%d-%d" % (i, len(scases)), ["LOGDUMP 1", "TBL %s %s" % (tn, common.hexbytes(w.text)), "HOOK budget 3000000",
                                                                            "HOOK inslack %d" % len(cont)], [a, b], {"n": len(u), "text": w.text}))
    common.run_cases(exe, scases, batch=8)
    nsl = 0
    for c in scases:
        if len(c.out) < 2:
            continue
        Ra, Rb = common.parse_R(c.out[0]), common.parse_R(c.out[1])
        if Ra is None or Rb is None:
            continue
        nsl += 1
        v.cov["evaluations"] += 1
        rep = {"script": c.setup + c.ops, "results": [c.out[0][:400], c.out[1][:400]], "table_text": c.meta["text"]}
        if Ra["ret"] and Ra["inlen"] > c.meta["n"]:
            v.violation("C04:inlen:beyond-declared", "the text is a prefix of a longer buffer: *inlen comes back as %d, %d were declared"
                        % (Ra["inlen"], c.meta["n"]), rep)
        elif (Ra["ret"], Ra["inlen"], Ra["outlen"], Ra["out"]) != (Rb["ret"], Rb["inlen"], Rb["outlen"], Rb["out"]):
            v.violation("C04:inlen:depends-on-slack", "the result depends on what stands behind the declared input in the caller's buffer", rep)
    dist["prefix_of_longer_buffer_calls"] = nsl
    v.cov["distribution"] = dist
    v.cov["rule"] = ("FWD/BWD calls over %d shipped tables (+ display tables) x generated inputs x modes x capacities, incl. a "
                     "generous-capacity stream for the completeness clause; non-trivial = non-empty output or a failing call; "
                     "distinct by (direction, table, mode, capacity, input, result lengths)" % len(tables))
    v.assumptions += ["EngineOK is a hypothesis of the theorems; it is evaluated on every recorded pass (violations are reported)",
                      "completeness is an oracle check on real runs, not a theorem, for tables outside the modelled fragment"]
    return v.finish()
